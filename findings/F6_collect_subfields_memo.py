import asyncio
from graphql import build_schema, graphql
schema = build_schema("""
type P { id: Int name: String bestFriend: P }
type Query { a: P b: P c: P me: P slow: P }
""")
class P:
    def __init__(s, i): s.id=i; s.name=f"n{i}"
    def bestFriend(s, info): return P(s.id+100)
class Root:
    def a(s, info): return P(1)
    def b(s, info): return P(2)
    def c(s, info): return P(3)
    def me(s, info): return P(4)
    async def slow(s, info):
        await asyncio.sleep(0); return P(5)
q='{ a{id} b{id} c{id} me{id} slow{bestFriend{name}} }'
bad=0
for i in range(200):
    r=asyncio.run(graphql(schema,q,Root()))
    if r.data['slow']!={'bestFriend':{'name':'n105'}}: bad+=1
print('bad',bad, r.data['slow'], r.errors)
