from graphql import build_schema, extend_schema, parse, graphql_sync
A=build_schema('input I { a: Int = 1 } type Query { f(x: I = {}): String }')
B=extend_schema(A, parse('extend input I { b: Int = 2 }'))
seen=[]
def res(root, info, **args): seen.append(args); return 'x'
A.query_type.fields['f'].resolve=res; B.query_type.fields['f'].resolve=res
graphql_sync(B,'{f}'); graphql_sync(A,'{f}'); graphql_sync(B,'{f}')
print(seen)
