from graphql import build_schema, validate_schema, graphql_sync, GraphQLSchema, GraphQLList, GraphQLString, GraphQLObjectType, GraphQLField
for sdl in ['type Query { g(x: Query = 1): Int }','input I { x: Query = 1 } type Query { f(i: I): Int }','directive @d(x: Query = {a:1}) on FIELD type Query { f: Int }','type Query { g(x: [Query!] = [1]): Int }', 'interface J { x: Int } input I { x: J = {x: 1}, y: I = {} } type Query { f(i: I): Int }']:
    s=build_schema(sdl, assume_valid_sdl=True)
    try:
        print([e.message for e in validate_schema(s)])
        print(graphql_sync(s,'{ __typename }'))
    except Exception as e: print('RAISED',type(e),e)
try:
    s=GraphQLSchema(query=GraphQLList(GraphQLString))
    print([e.message for e in validate_schema(s)])
except Exception as e: print('RAISED',type(e),e)
