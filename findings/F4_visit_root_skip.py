from graphql import parse, visit, Visitor, SKIP, REMOVE, BREAK
d=parse('{a {b} c}')
for r in (SKIP, False, REMOVE, Ellipsis, 42, BREAK, None):
    class V(Visitor):
        def enter(self, node, *a):
            return r
    out=visit(d, V()); print(repr(r), '->', 'same' if out is d else repr(out))
class W(Visitor):
    def leave_document(self,node,*a): return REMOVE
print(visit(d,W()))
class X(Visitor):
    def enter_field(self,node,*a):
        if node.name.value=='a': return REMOVE
from graphql import print_ast
print(print_ast(visit(d,X())))
