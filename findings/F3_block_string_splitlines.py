from graphql import parse, print_ast
for s in ['{ f(a: """ x y""") }','{ f(a: """ x\x0cy""") }','{ f(a: """\n  a\n   b\n""") }','{ f(a: """ x\r y""") }', '{ f(a: """""") }']:
    d=parse(s,no_location=True); p=print_ast(d); d2=parse(p,no_location=True)
    print(repr(p), d==d2, print_ast(d2)==p)
