from graphql import parse, GraphQLSyntaxError
for s in ['{ f(a: "\\', '"\\u12', '"\\uD83D\\u12', '{f(a:"\\u']:
    try:
        parse(s)
    except GraphQLSyntaxError as e:
        print(repr(s), '->', e.message)
