from graphql import Source, GraphQLSyntaxError, parse
print(Source('{\n?').get_location(2))          # must be 2:1
print(Source(' ?').get_location(1))       # must be 1:2
try:
    parse('" " ?')
except GraphQLSyntaxError as e:
    print(str(e))                               # must not raise IndexError
