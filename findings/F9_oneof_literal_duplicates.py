from graphql import build_schema, parse_value
from graphql.utilities import coerce_input_literal, validate_input_literal
s=build_schema('input O @oneOf { a: Int b: Int } type Query { f(o: O): Int }')
O=s.type_map['O']
for lit in ['{a: 1, a: 2}','{a: null, a: 1}','{a: 1}','{a:1,b:2}']:
    errs=[]
    validate_input_literal(parse_value(lit), O, lambda e,p: errs.append(e.message))
    print(lit, coerce_input_literal(parse_value(lit), O), len(errs))
