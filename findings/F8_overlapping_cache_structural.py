from graphql import build_schema, parse, validate
from graphql.validation import OverlappingFieldsCanBeMergedRule
s=build_schema('''
type DogF { v: Int } type CatF { v: String }
type Dog { f: DogF } type Cat { f: CatF }
union Pet = Dog | Cat
type Query { pets: [Pet] }''')
q='{ pets { ... on Dog { f { v } } ... on Cat { f { v } } } }'
for nl in (False, True):
    print(nl, [e.message for e in validate(s, parse(q, no_location=nl), [OverlappingFieldsCanBeMergedRule])])
