"""Ghost functions (never executed): the output -> input round trip of the built-in scalars,
verified like code against the *contracts* of the real functions they call."""
from graphql.type.scalars import (coerce_boolean, coerce_float, coerce_id, coerce_int,
                                  coerce_string, serialize_boolean, serialize_float,
                                  serialize_id, serialize_int, serialize_string)


def roundtrip_int(v):
    try:
        r = serialize_int(v)
    except Exception:
        return True
    return coerce_int(r) == r


def roundtrip_float(v):
    try:
        r = serialize_float(v)
    except Exception:
        return True
    if isinstance(v, bool):
        return True   # booleans are emitted as 0/1, which Float input coercion accepts as ints
    return coerce_float(r) == r


def roundtrip_string(v):
    try:
        r = serialize_string(v)
    except Exception:
        return True
    return coerce_string(r) is r


def roundtrip_boolean(v):
    try:
        r = serialize_boolean(v)
    except Exception:
        return True
    return coerce_boolean(r) is r


def roundtrip_id(v):
    try:
        r = serialize_id(v)
    except Exception:
        return True
    return coerce_id(r) is r
