"""Ghost predicates over the linked stack frames of visit() (DESIGN.md 3.4 / A.5).

A frame is either a concrete Stack(...) built on the current path (a named tuple value) or a
symbolic object of class Stack (after a loop cut), whose attributes are functions of its identity.
  sdepth(s)        number of frames (0 for None)
  frames_ok(s)     every frame has 0 <= idx < len(keys)
  edits_empty(s)   every frame has an empty edits list
For symbolic frames the three are uninterpreted functions of the identity, unfolded one level
wherever they are used (the frame below is again a frame or None).
"""
import z3

from pyvc import sym, refs
from pyvc.sym import VBool, VInt, VAtom, VTuple, VList, VDyn, VStr, Unsupported, TAGS as T
from pyvc.refs import VRef, RefS

DEPTH = z3.Function("stack_depth", RefS, sym.I)
FOK = z3.Function("frames_ok", RefS, sym.B)
EEMPTY = z3.Function("edits_empty", RefS, sym.B)


def install(w):
    w.alias("Stack", "graphql.language.visitor.Stack")
    w.shape("Stack", in_array="bool", idx="int", keys="dyn",
            edits=("list", ("tuple", "dyn", "dyn")), prev="opt:ref:Stack")

    def seqlen(it, x):
        if isinstance(x, VTuple):
            return z3.IntVal(len(x.items))
        if isinstance(x, VList):
            return it.st.lists[x.oid].len
        if isinstance(x, VDyn):
            return sym.v_len(x.t)
        if isinstance(x, VStr):
            return x.length()
        raise Unsupported(f"seqlen of {x!r}")

    def attrs(it, t):
        rd = lambda a, s: refs.read_attr(it, "Stack", t, RefS, a, s)
        return rd("idx", "int"), rd("keys", "dyn"), rd("edits", ("list", ("tuple", "dyn", "dyn"))), \
            rd("prev", "opt:ref:Stack")

    def unfold(it, t):
        idx, keys, edits, prev = attrs(it, t)
        from pyvc.codec import VOpt
        pn = prev.is_none if isinstance(prev, VOpt) else z3.BoolVal(isinstance(prev, VAtom))
        pt = prev.val.t if isinstance(prev, VOpt) else (prev.t if isinstance(prev, VRef) else t)
        it.sadd(z3.And(DEPTH(t) >= 1, DEPTH(t) == 1 + z3.If(pn, 0, DEPTH(pt))))
        it.sadd(FOK(t) == z3.And(0 <= idx.t, idx.t < sym.v_len(keys.t),
                                 z3.Or(sym.tag(keys.t) == T["tuple"], sym.tag(keys.t) == T["list"]),
                                 z3.Or(pn, FOK(pt))))
        it.sadd(EEMPTY(t) == z3.And(it.st.lists[edits.oid].len == 0, z3.Or(pn, EEMPTY(pt))))

    def is_none(x):
        if isinstance(x, VAtom):
            try:
                return sym.atom_obj(x) is None
            except KeyError:
                return False
        return False

    def f_sdepth(it, s):
        if is_none(s):
            return VInt(0)
        if isinstance(s, VRef):
            unfold(it, s.t)
            return VInt(DEPTH(s.t))
        if isinstance(s, VTuple) and s.names:
            return VInt(1 + f_sdepth(it, s.items[s.names.index("prev")]).t)
        raise Unsupported(f"sdepth of {s!r}")

    def f_frames_ok(it, s):
        if is_none(s):
            return VBool(True)
        if isinstance(s, VRef):
            unfold(it, s.t)
            return VBool(FOK(s.t))
        if isinstance(s, VTuple) and s.names:
            g = lambda n: s.items[s.names.index(n)]
            idx = it.as_int(g("idx"), None)
            return VBool(z3.And(0 <= idx, idx < seqlen(it, g("keys")), f_frames_ok(it, g("prev")).t))
        raise Unsupported(f"frames_ok of {s!r}")

    def f_edits_empty(it, s):
        if is_none(s):
            return VBool(True)
        if isinstance(s, VRef):
            unfold(it, s.t)
            return VBool(EEMPTY(s.t))
        if isinstance(s, VTuple) and s.names:
            g = lambda n: s.items[s.names.index(n)]
            return VBool(z3.And(seqlen(it, g("edits")) == 0, f_edits_empty(it, g("prev")).t))
        raise Unsupported(f"edits_empty of {s!r}")

    w.spec_funcs.update({"sdepth": f_sdepth, "frames_ok": f_frames_ok,
                         "edits_empty": f_edits_empty,
                         "seqlen": lambda it, x: VInt(seqlen(it, x))})

    # instances of Node are truthy (dataclasses without __bool__/__len__)
    from graphql.language.ast import Node
    from theories.val import ISINST, TRUTHY
    prev_truth = w.dyn_truth

    def dyn_truth(it, v):
        it.sadd(z3.Implies(ISINST(v.t, sym.ATOMS.code(Node)), TRUTHY(v.t)))
        return prev_truth(it, v)
    w.dyn_truth = dyn_truth

    def f_keys_of_kind(it, keys, table, node):
        """`keys` is the entry of the key table for the kind of `node` (or empty if none)."""
        from pyvc.refs import OMAP_IDX, OMAP_LEN, attr_fn, sorts
        if not isinstance(node, VDyn):
            return VBool(True)   # no node entered (None): nothing to state
        kind = it.getattr(node, "kind", None)
        kv = sym.as_view(kind)
        idx = OMAP_IDX(table.t, kv.arr, kv.hi)
        present = z3.And(0 <= idx, idx < OMAP_LEN(table.t))
        ss = sorts(table.valspec)
        terms = [attr_fn("omap", repr(table.valspec), k, [RefS, sym.I], s)(table.t, idx)
                 for k, s in enumerate(ss)]
        n = seqlen(it, keys)
        if isinstance(keys, VList) and it.st.lists[keys.oid].arrays is not None:
            L = it.st.lists[keys.oid]
            same = z3.And(n == terms[-1], *[a == t for a, t in zip(L.arrays, terms[:-1])])
        else:
            same = z3.BoolVal(False)
        return VBool(z3.If(present, same, n == 0))
    w.spec_funcs["keys_of_kind"] = f_keys_of_kind

    def f_is_edit(it, r):
        """a visitor result that edits the tree: anything but None / SKIP / False / BREAK / True"""
        t = w.to_dyn(it, r).t
        from graphql.language.visitor import BREAK, SKIP
        ctrl = z3.Or(sym.tag(t) == T["none"], sym.tag(t) == T["bool"],
                     z3.And(sym.tag(t) == T["atom"],
                            z3.Or(sym.as_atom(t) == sym.ATOMS.code(BREAK),
                                  sym.as_atom(t) == sym.ATOMS.code(SKIP))))
        return VBool(z3.Not(ctrl))
    w.spec_funcs["is_edit"] = f_is_edit
