"""Theory of line terminators of a fixed source body (DESIGN.md 3.1).

Ghost functions over a string array A (code points) and its length n:

  LTstart(A,q)  = A[q]==CR or (A[q]==LF and not (q>0 and A[q-1]==CR))      a terminator starts at q
  ends(A,n,q)   = A[q]==LF or (A[q]==CR and not (q+1<n and A[q+1]==LF))    a terminator ends after q
  nlt(A,0)=0 ;  nlt(A,q+1) = nlt(A,q) + [LTstart(A,q)]                      terminators starting before q
  lls(A,n,0)=0; lls(A,n,q+1) = q+1 if ends(A,n,q) else lls(A,n,q)           start of the line containing q

These are definitions by primitive recursion (hence consistent).  The solver never sees them as
quantified axioms: the engine instantiates the unfolding equations at the terms that occur in a
query (and their neighbours, depth 2), plus the lemmas below, each of which is proved by
induction in LEMMAS (checked on every run, back end z3).

The property statement of C10 is  line(p) = 1 + nlt(p),  column(p) = p + 1 - lls(p)  for p not
strictly inside a CR LF pair.
"""
import z3

from pyvc import sym
from pyvc.sym import VInt, VBool, VStr, VObj, VOpaque, VConst, VFunc, Unsupported

I, B, ArrS = sym.I, sym.B, sym.ArrS
NLT = z3.Function("nlt", ArrS, I, I)
LLS = z3.Function("lls", ArrS, I, I, I)
# k-th match of the regex \r\n|[\n\r] in A[0:n] (assumed contract, see FinditerModel)
MSTART = z3.Function("lt_start", ArrS, I, I, I)

CR, LF = 13, 10


def lt_start(A, q):
    q = z3.simplify(q) if z3.is_expr(q) else q
    return z3.Or(A[q] == CR, z3.And(A[q] == LF, z3.Not(z3.And(q > 0, A[q - 1] == CR))))


def ends(A, n, q):
    return z3.Or(A[q] == LF, z3.And(A[q] == CR, z3.Not(z3.And(q + 1 < n, A[q + 1] == LF))))


def mid_crlf(A, n, q):
    return z3.And(q > 0, q < n, A[q - 1] == CR, A[q] == LF)


def is_lt_char(c):
    return z3.Or(c == CR, c == LF)


def mend(A, n, k):
    s = MSTART(A, n, k)
    return s + z3.If(z3.And(A[s] == CR, s + 1 < n, A[s + 1] == LF), 2, 1)


def nlt_unfold(A, t):
    """Facts relating nlt(A,t) to nlt(A,t-1)."""
    t = z3.simplify(t)
    t1 = z3.simplify(t - 1)
    return [
        z3.Implies(t <= 0, NLT(A, t) == 0),
        z3.Implies(t > 0, NLT(A, t) == NLT(A, t1) + z3.If(lt_start(A, t1), 1, 0)),
        NLT(A, t) >= 0,
    ]
    return [
        z3.Implies(t <= 0, NLT(A, t) == 0),
        z3.Implies(t > 0, NLT(A, t) == NLT(A, t - 1) + z3.If(lt_start(A, t - 1), 1, 0)),
        NLT(A, t) >= 0,
    ]


def lls_unfold(A, n, t):
    t = z3.simplify(t)
    t1 = z3.simplify(t - 1)
    return [
        z3.Implies(t <= 0, LLS(A, n, t) == 0),
        z3.Implies(t > 0, LLS(A, n, t) == z3.If(ends(A, n, t1), t, LLS(A, n, t1))),
        z3.Implies(t >= 0, z3.And(0 <= LLS(A, n, t), LLS(A, n, t) <= t)),
    ]
    return [
        z3.Implies(t <= 0, LLS(A, n, t) == 0),
        z3.Implies(t > 0, LLS(A, n, t) == z3.If(ends(A, n, t - 1), t, LLS(A, n, t - 1))),
        z3.Implies(t >= 0, z3.And(0 <= LLS(A, n, t), LLS(A, n, t) <= t)),
    ]


class LinesTheory:
    """Term-driven instantiation of the definitions and lemmas above."""

    DEPTH = 2

    def reset(self, it):
        it._lines_done = set()
        it._nlt_terms = {}
        it._seen_ast = set()
        it._str_arrays = set()
        it._match_idx = {}
        it._keep = []   # z3 ids are unique among live ASTs only: keep every recorded AST alive

    def snapshot(self, it):
        return (set(it._lines_done), set(it._seen_ast),
                {k: list(v) for k, v in it._nlt_terms.items()},
                {k: list(v) for k, v in it._match_idx.items()})

    def restore(self, it, snap):
        it._lines_done, it._seen_ast, it._nlt_terms, it._match_idx = snap

    def saturate(self, it, formulas):
        work = []
        added = []
        for f in formulas:
            if isinstance(f, tuple):
                if f[1] <= self.DEPTH:
                    self.collect(it, f[0], work, f[1])
            else:
                self.collect(it, f, work, 0)
        while work:
            kind, args, depth = work.pop()
            args = [z3.simplify(a) if a.sort() == I else a for a in args]
            key = (kind,) + tuple(a.get_id() for a in args)
            if key in it._lines_done:
                continue
            it._lines_done.add(key)
            it._keep.extend(args)
            new = []
            if kind == "nlt":
                A, t = args
                new += nlt_unfold(A, t)
                if depth < self.DEPTH:
                    new += nlt_unfold(A, t + 1)
                # monotonicity lemma against every other nlt term on the same array
                lst = it._nlt_terms.setdefault(A.get_id(), [])
                for u in lst:
                    new.append(z3.Implies(u <= t, NLT(A, u) <= NLT(A, t)))
                    new.append(z3.Implies(t <= u, NLT(A, t) <= NLT(A, u)))
                    # gap filling: two terms a small constant apart get every unfolding between
                    d = z3.simplify(t - u)
                    if z3.is_int_value(d) and 1 < abs(d.as_long()) <= 13:
                        lo_t = u if d.as_long() > 0 else t
                        for j in range(1, abs(d.as_long())):
                            work.append(("nlt", [A, z3.simplify(lo_t + j)], self.DEPTH))
                lst.append(t)
            elif kind == "lls":
                A, n, t = args
                new += lls_unfold(A, n, t)
                if depth < self.DEPTH:
                    new += lls_unfold(A, n, t + 1)
                lst = it._nlt_terms.setdefault(("lls", A.get_id(), n.get_id()), [])
                for u in lst:
                    d = z3.simplify(t - u)
                    if z3.is_int_value(d) and 1 < abs(d.as_long()) <= 13:
                        lo_t = u if d.as_long() > 0 else t
                        for j in range(1, abs(d.as_long())):
                            work.append(("lls", [A, n, z3.simplify(lo_t + j)], self.DEPTH))
                lst.append(t)
            elif kind == "sel":
                A, t = args
                new.append(z3.And(0 <= A[t], A[t] <= sym.MAXCP))
            elif kind == "mstart":
                A, n, k = args
                K = NLT(A, n)
                s = MSTART(A, n, k)
                new.append(z3.Implies(z3.And(0 <= k, k < K),
                                      z3.And(0 <= s, s < n, lt_start(A, s), NLT(A, s) == k)))
                lst = it._match_idx.setdefault((A.get_id(), n.get_id()), [])
                for j in lst:
                    new.append(z3.Implies(z3.And(0 <= j, j < k, k < K),
                                          MSTART(A, n, j) < MSTART(A, n, k)))
                    new.append(z3.Implies(z3.And(0 <= k, k < j, j < K),
                                          MSTART(A, n, k) < MSTART(A, n, j)))
                lst.append(k)
            for f in new:
                it.S.add(f)
                added.append((f, depth + 1))
                if depth < self.DEPTH:
                    self.collect(it, f, work, depth + 1)
        return added

    def collect(self, it, f, work, depth):
        stack = [f]
        seen = it._seen_ast
        while stack:
            e = stack.pop()
            i = e.get_id()
            if i in seen:
                continue
            seen.add(i)
            it._keep.append(e)
            if z3.is_quantifier(e):
                stack.append(e.body())
                continue
            if not z3.is_app(e):
                continue
            d = e.decl()
            nm = d.name()
            ch = e.children()
            if nm == "nlt" and not _has_var(e):
                work.append(("nlt", ch, depth))
            elif nm == "lls" and not _has_var(e):
                work.append(("lls", ch, depth))
            elif nm == "lt_start" and not _has_var(e):
                work.append(("mstart", ch, depth))
            elif d.kind() == z3.Z3_OP_SELECT and not _has_var(e):
                A = ch[0]
                if z3.is_const(A) and A.get_id() in getattr(it, "str_arrays", {}):
                    work.append(("sel", ch, depth))
            stack.extend(ch)


def _has_var(e):
    """True if e contains a bound variable (de Bruijn index)."""
    stack = [e]
    seen = set()
    while stack:
        x = stack.pop()
        if z3.is_var(x):
            return True
        i = x.get_id()
        if i in seen:
            continue
        seen.add(i)
        if z3.is_app(x):
            stack.extend(x.children())
    return False


def _base(s, what):
    if not isinstance(s, VStr):
        raise Unsupported(f"{what}: string expected")
    s = sym.as_view(s)
    if not z3.eq(z3.simplify(s.lo), z3.IntVal(0)):
        raise Unsupported(f"{what}: only for a whole string (not a slice)")
    return s.arr, s.hi


def install(w):
    w.theories.append(LinesTheory())

    def f_nlt(it, body, q):
        A, n = _base(body, "nlt")
        return VInt(NLT(A, it.as_int(q, None)))

    def f_lls(it, body, q):
        A, n = _base(body, "lls")
        return VInt(LLS(A, n, it.as_int(q, None)))

    def f_mid(it, body, q):
        A, n = _base(body, "midCRLF")
        return VBool(mid_crlf(A, n, it.as_int(q, None)))

    def f_ltchar(it, c):
        return VBool(z3.And(c.length() == 1, is_lt_char(c.char(0))))

    def f_cp(it, body, q):
        """code point at q (total: spec-level select)"""
        s = sym.as_view(body)
        return VInt(z3.Select(s.arr, s.lo + it.as_int(q, None)))

    w.spec_funcs.update({"nlt": f_nlt, "lls": f_lls, "midCRLF": f_mid, "LTchar": f_ltchar,
                         "cp": f_cp})

    # ---- assumed contract of  re.compile(r"\r\n|[\n\r]").finditer(body) ----------------------
    import re
    NEWLINE_PATTERN = r"\r\n|[\n\r]"

    def p_finditer(it, f, args, kw, node):
        pat = f.recv.obj
        if pat.pattern != NEWLINE_PATTERN:
            raise Unsupported(f"regex {pat.pattern!r} has no assumed contract")
        w.trusted_used.add(
            "re.compile(r'\\r\\n|[\\n\\r]').finditer(body): the matches are, in order, exactly the "
            "line terminators counted by nlt/lls (k-th match starts at the k-th terminator start, "
            "CR LF matched as one); cross-checked against CPython by sampling in the thorough tier")
        A, n = _base(args[0], "finditer")
        from pyvc.world import Seq
        v = VOpaque("finditer")

        def item(i):
            m = VOpaque("match")
            m.match = (A, n, i)
            return m
        v.seq = Seq(length=NLT(A, n), item=item)
        it.sadd(NLT(A, n) >= 0)
        return v
    w.builtins["Pattern.finditer"] = p_finditer

    def m_start(it, f, args, kw, node):
        A, n, i = f.recv.match
        return VInt(MSTART(A, n, i))

    def m_end(it, f, args, kw, node):
        A, n, i = f.recv.match
        return VInt(mend(A, n, i))
    def count_lt(it, s):
        """number of line terminators of the whole string s (needs a base view)."""
        if s.lit is not None:
            import re
            return z3.IntVal(len(re.findall(NEWLINE_PATTERN, s.lit)))
        A, n = _base(s, "line count")
        return NLT(A, n)
    w.count_lt = count_lt

    def p_split(it, f, args, kw, node):
        pat = f.recv.obj
        if pat.pattern != NEWLINE_PATTERN:
            raise Unsupported(f"regex {pat.pattern!r} has no assumed contract")
        w.trusted_used.add(
            "re.compile(r'\\r\\n|[\\n\\r]').split(s): a list of 1 + (number of line "
            "terminators of s) strings (contents not modelled)")
        c = count_lt(it, args[0])
        oid = it.fresh_oid()
        from pyvc.interp import ListObj
        from pyvc import codec
        it.st.lists[oid] = ListObj(1 + c, None, "str", codec.fresh_arrays(it, "str", "lines"))
        it.sadd(c >= 0)
        from pyvc.sym import VList
        return VList(oid)
    w.builtins["Pattern.split"] = p_split

    # string building: the number of line terminators of padded / concatenated strings
    prev_concat = w.str_concat

    def str_concat(it, a, b):
        r = prev_concat(it, a, b)
        try:
            ca, cb = count_lt(it, a), count_lt(it, b)
        except Unsupported:
            return r
        w.trusted_used.add(
            "a + b has count_lt(a) + count_lt(b) line terminators unless a ends with CR and b "
            "starts with LF (then one less)")
        la = a.length()
        straddle = z3.And(la > 0, b.length() > 0, a.char(la - 1) == CR, b.char(0) == LF)
        it.sadd(NLT(r.arr, r.hi) == ca + cb - z3.If(straddle, 1, 0))
        return r
    w.str_concat = lambda it, a, b: str_concat(it, a, b)

    prev_rjust = w.builtins["str.rjust"]

    def s_rjust(it, f, args, kw, node):
        r = prev_rjust(it, f, args, kw, node)
        fill = args[1] if len(args) > 1 else None
        if fill is None or (isinstance(fill, VStr) and fill.lit not in ("\r", "\n")):
            try:
                c = count_lt(it, f.recv)
                w.trusted_used.add("s.rjust(w) pads with spaces: the number of line terminators "
                                   "is that of s")
                it.sadd(NLT(r.arr, r.hi) == c)
                n0 = f.recv.length()
                # padding characters are the fill character (space by default)
                it.sadd(z3.Implies(r.hi > n0, z3.Select(r.arr, 0) == 32))
                it.sadd(z3.Implies(z3.And(r.hi > n0, n0 == 0), z3.Select(r.arr, r.hi - 1) == 32))
            except Unsupported:
                pass
        return r
    w.builtins["str.rjust"] = s_rjust

    w.builtins["match.start"] = m_start
    w.builtins["match.end"] = m_end

    prev = w.getattr_ext

    def getattr_ext(it, v, attr, node):
        if isinstance(v, VOpaque) and hasattr(v, "match") and attr in ("start", "end"):
            return VFunc(None, recv=v, builtin=f"match.{attr}", name=attr)
        return prev(it, v, attr, node)
    w.getattr_ext = getattr_ext

    def f_match_link(it, body, q):
        """The assumed link between the match sequence and nlt/lls at offset q (see module doc):
        with k = nlt(q):  k >= 1 => start(k-1) < q ;  k < K => start(k) >= q ;
        k >= 1 and not midCRLF(q) => end(k-1) == lls(q) ;  k == 0 => lls(q) == 0."""
        A, n = _base(body, "match_link")
        t = it.as_int(q, None)
        k = NLT(A, t)
        K = NLT(A, n)
        return VBool(z3.And(
            k <= K,
            z3.Implies(k >= 1, MSTART(A, n, k - 1) < t),
            z3.Implies(k < K, MSTART(A, n, k) >= t),
            z3.Implies(z3.And(k >= 1, z3.Not(mid_crlf(A, n, t))), mend(A, n, k - 1) == LLS(A, n, t)),
            z3.Implies(k == 0, LLS(A, n, t) == 0),
        ))
    w.spec_funcs["match_link"] = f_match_link
    w.spec_funcs["count_lt"] = lambda it, s2: VInt(count_lt(it, s2))

    def f_ends_esc3(it, s2):
        v = sym.as_view(s2)
        n = v.length()
        lit = '\\"""'
        return VBool(z3.And(n >= 4, *[v.char(n - 4 + k) == ord(lit[k]) for k in range(4)]))
    w.spec_funcs["ends_with_escaped_triple"] = f_ends_esc3

    def f_match_start(it, body, k):
        A, n = _base(body, "match_start")
        return VInt(MSTART(A, n, it.as_int(k, None)))

    def f_match_end(it, body, k):
        A, n = _base(body, "match_end")
        return VInt(mend(A, n, it.as_int(k, None)))
    w.spec_funcs["match_start"] = f_match_start
    w.spec_funcs["match_end"] = f_match_end


# ------------------------------------------------------------------------------------ lemmas
def lemmas():
    """Induction steps of the lemmas the theory instantiates (each a closed z3 query)."""
    A = z3.Array("A", I, I)
    n, q, a = z3.Ints("n q a")
    out = []
    # L1: nlt(q) >= 0 — step
    out.append(("nlt_nonneg_step",
                z3.Implies(z3.And(q >= 0, NLT(A, q) >= 0, *nlt_unfold(A, q + 1)[:2]),
                           NLT(A, q + 1) >= 0)))
    # L2: monotone step: nlt(q) <= nlt(q+1)
    out.append(("nlt_mono_step",
                z3.Implies(z3.And(q >= 0, *nlt_unfold(A, q + 1)[:2]), NLT(A, q) <= NLT(A, q + 1))))
    # L2': transitivity step for a <= q:  nlt(a) <= nlt(q)  =>  nlt(a) <= nlt(q+1)
    out.append(("nlt_mono_trans",
                z3.Implies(z3.And(q >= 0, NLT(A, a) <= NLT(A, q), *nlt_unfold(A, q + 1)[:2]),
                           NLT(A, a) <= NLT(A, q + 1))))
    # L3: 0 <= lls(q) <= q — base and step
    out.append(("lls_bounds_base", z3.Implies(z3.And(*lls_unfold(A, n, z3.IntVal(0))[:2]),
                                              LLS(A, n, 0) == 0)))
    out.append(("lls_bounds_step",
                z3.Implies(z3.And(q >= 0, 0 <= LLS(A, n, q), LLS(A, n, q) <= q,
                                  *lls_unfold(A, n, q + 1)[:2]),
                           z3.And(0 <= LLS(A, n, q + 1), LLS(A, n, q + 1) <= q + 1))))
    return out
