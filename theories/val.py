"""Theory of dynamically typed values ("any Python value", sort Val) and of floats.

A Val has a tag and projections (uninterpreted functions of pyvc.sym):
  tag in {none, undefined, bool, int, float, str, list, tuple, dict, other, ...}
  bool  -> as_bool            int -> as_int   (isinstance(v, int) <=> tag in {bool, int})
  float -> (as_fcls, as_fval) class 0 finite / 1 nan / 2 +inf / 3 -inf, real value when finite
  str   -> (as_sarr, as_slen)
  'int' stands for int and its subclasses, 'other' for every other class (custom objects).

Assumed contracts used here (trusted base, cross-checked against CPython in the thorough tier):
  int(float)   truncates; ValueError on nan, OverflowError on +-inf
  int(str)     ValueError or some int (no further claim)
  float(int)   OverflowError or the nearest double rnd(i): integer valued, monotone,
               rnd(i) == i for |i| <= 2**53
  float(str)   ValueError or some float (any class)
  str(int)     ValueError (digit limit) or a str;  str(float) a str
  math.isfinite: TypeError unless int/float; True for ints; class == finite for floats
  comparisons int<->float are exact (mathematical), nan compares False (!= True)
"""
import ast
import z3

from pyvc import sym
from pyvc.sym import (VInt, VBool, VStr, VAtom, VConst, VTuple, VObj, VList, VDict, VFunc,
                      VOpaque, VDyn, VFloat, Unsupported, sand, sor, atom, TAGS)
from pyvc.interp import VExc, _src

T = TAGS
R = z3.RealSort()
RND = z3.Function("rnd", sym.I, R)            # float(int) when it does not overflow
INT_OF_STR = z3.Function("int_of_str", sym.ArrS, sym.I, sym.I)
IS_INT_STR = z3.Function("is_int_str", sym.ArrS, sym.I, sym.B)   # int(s) does not raise
from theories import gtypes as _G
TY_BOX = z3.Function("ty_box", _G.TyS, sym.ValS)
TY_UNBOX = z3.Function("ty_unbox", sym.ValS, _G.TyS)
STRINT_ARR = z3.Function("str_of_int_arr", sym.I, sym.ArrS)
STRINT_LEN = z3.Function("str_of_int_len", sym.I, sym.I)
IS_FLOAT_STR = z3.Function("is_float_str", sym.ArrS, sym.I, sym.B)   # float(s) does not raise
FCLS_OF_STR = z3.Function("fcls_of_str", sym.ArrS, sym.I, sym.I)
FVAL_OF_STR = z3.Function("fval_of_str", sym.ArrS, sym.I, z3.RealSort())


def canon_str(it, s):
    """(array, length) of a string with the content starting at index 0."""
    if isinstance(s, VDyn):     # meaningful when the value is a str
        arr, n = sym.as_sarr(s.t), sym.as_slen(s.t)
        it.sadd(z3.Implies(n == 0, z3.Not(IS_INT_STR(arr, n))))
        return arr, n
    arr, n = _canon_str(it, s)
    it.sadd(z3.Implies(n == 0, z3.Not(IS_INT_STR(arr, n))))    # int('') raises ValueError
    return arr, n


def _canon_str(it, s):
    vv = sym.as_view(s)
    if z3.eq(z3.simplify(vv.lo), z3.IntVal(0)):
        return vv.arr, vv.hi
    j = z3.Int(it.namer.fresh("j"))
    return z3.Lambda([j], z3.Select(vv.arr, vv.lo + j)), z3.simplify(vv.hi - vv.lo)
TWO53 = 2 ** 53
ISINST = z3.Function("isinst", sym.ValS, sym.I, sym.B)
TRUTHY = z3.Function("truthy_other", sym.ValS, sym.B)


def tag_is(v, *names):
    return sor(*[sym.tag(v.t) == T[n] for n in names])


def trunc(r):
    return z3.If(r >= 0, z3.ToInt(r), -z3.ToInt(-r))


class Num:
    """Extended-real view of a numeric value: nan flag, rank (-1 -inf, 0 finite, 1 +inf), value."""

    def __init__(self, ok, nan, rank, val, is_float):
        self.ok = ok            # z3 Bool: the value is numeric at all
        self.nan = nan
        self.rank = rank
        self.val = val
        self.is_float = is_float


def numeric(it, v):
    if isinstance(v, VInt):
        return Num(z3.BoolVal(True), z3.BoolVal(False), z3.IntVal(0), z3.ToReal(v.t),
                   z3.BoolVal(False))
    if isinstance(v, VBool):
        return Num(z3.BoolVal(True), z3.BoolVal(False), z3.IntVal(0),
                   z3.If(v.t, z3.RealVal(1), z3.RealVal(0)), z3.BoolVal(False))
    if isinstance(v, VFloat):
        return Num(z3.BoolVal(True), v.cls == 1,
                   z3.If(v.cls == 2, 1, z3.If(v.cls == 3, -1, 0)), v.val, z3.BoolVal(True))
    if isinstance(v, VDyn):
        t = v.t
        isf = sym.tag(t) == T["float"]
        isi = sym.tag(t) == T["int"]
        isb = sym.tag(t) == T["bool"]
        c = sym.as_fcls(t)
        val = z3.If(isf, sym.as_fval(t),
                    z3.If(isb, z3.If(sym.as_bool(t), z3.RealVal(1), z3.RealVal(0)),
                          z3.ToReal(sym.as_int(t))))
        return Num(z3.Or(isf, isi, isb), z3.And(isf, c == 1),
                   z3.If(z3.And(isf, c == 2), 1, z3.If(z3.And(isf, c == 3), -1, 0)), val, isf)
    return None


def num_lt(a, b, or_equal):
    fin = z3.And(a.rank == 0, b.rank == 0)
    lt = z3.Or(a.rank < b.rank, z3.And(fin, a.val <= b.val if or_equal else a.val < b.val))
    if or_equal:
        lt = z3.Or(lt, z3.And(a.rank == b.rank, a.rank != 0))
    return z3.And(z3.Not(a.nan), z3.Not(b.nan), lt)


def num_eq(a, b):
    return z3.And(z3.Not(a.nan), z3.Not(b.nan), a.rank == b.rank,
                  z3.Or(a.rank != 0, a.val == b.val))


class ValTheory:
    """Well-formedness facts for every Val term that occurs in a query (also derived ones such
    as item(v, i)): lengths are non-negative, the tag is one of the known tags."""

    DEPTH = 2

    def reset(self, it):
        it._val_done = set()
        it._val_keep = []

    def snapshot(self, it):
        return set(it._val_done)

    def restore(self, it, snap):
        it._val_done = snap

    def saturate(self, it, formulas):
        from pyvc.rec import _has_var
        added = []
        stack = [f[0] if isinstance(f, tuple) else f for f in formulas]
        seen = set()
        while stack:
            e = stack.pop()
            i = e.get_id()
            if i in seen:
                continue
            seen.add(i)
            if z3.is_quantifier(e):
                stack.append(e.body())
                continue
            if not z3.is_app(e):
                continue
            nm = e.decl().name()
            if nm in ("v_len", "as_slen", "tag") and not _has_var(e):
                key = (nm, e.arg(0).get_id())
                if key not in it._val_done:
                    it._val_done.add(key)
                    it._val_keep.append(e)
                    f = (e >= 0) if nm != "tag" else z3.And(e >= 0, e <= 12)
                    it.S.add(f)
            stack.extend(e.children())
        return added


def install(w):
    w.theories.append(ValTheory())

    def use(s):
        w.trusted_used.add(s)

    # ------------------------------------------------------------------ well-formedness of a Val
    def wf(it, v):
        t = v.t
        it.sadd(z3.And(sym.tag(t) >= 0, sym.tag(t) <= 12))
        it.sadd(z3.Implies(sym.tag(t) == T["float"], z3.And(0 <= sym.as_fcls(t), sym.as_fcls(t) <= 3)))
        it.sadd(z3.Implies(sym.tag(t) == T["str"], sym.as_slen(t) >= 0))
        it.sadd(sym.v_len(t) >= 0)
    w.dyn_wf = wf

    orig_fresh_dyn = None

    def to_dyn(it, v):
        if isinstance(v, VDyn):
            return v
        if type(v).__name__ == "VTy":
            # a GraphQL type object as a dynamic value: an injective boxing
            bt = TY_BOX(v.t)
            it.sadd(z3.And(sym.tag(bt) == T["other"], TY_UNBOX(bt) == v.t))
            return VDyn(bt)
        if isinstance(v, VOpaque):
            # nothing is known about the value: a stable box per opaque object, any tag
            d0 = getattr(v, "_box", None)
            if d0 is None:
                d0 = v._box = it.fresh_dyn("box")
            return d0
        d = it.fresh_dyn("box")
        t = d.t
        if isinstance(v, VBool):
            it.sadd(z3.And(sym.tag(t) == T["bool"], sym.as_bool(t) == v.t))
        elif isinstance(v, VInt):
            it.sadd(z3.And(sym.tag(t) == T["int"], sym.as_int(t) == v.t))
        elif isinstance(v, VFloat):
            it.sadd(z3.And(sym.tag(t) == T["float"], sym.as_fcls(t) == v.cls,
                           sym.as_fval(t) == v.val))
        elif isinstance(v, VStr):
            vv = sym.as_view(v)
            if z3.eq(z3.simplify(vv.lo), z3.IntVal(0)):
                it.sadd(z3.And(sym.tag(t) == T["str"], sym.as_sarr(t) == vv.arr,
                               sym.as_slen(t) == vv.hi))
            else:
                it.sadd(z3.And(sym.tag(t) == T["str"], sym.as_slen(t) == vv.hi - vv.lo))
        elif isinstance(v, VAtom):
            try:
                o = sym.atom_obj(v)
            except KeyError:
                o = "?"
            if o is None:
                it.sadd(sym.tag(t) == T["none"])
            elif w.is_undefined(o):
                it.sadd(sym.tag(t) == T["undefined"])
            else:
                it.sadd(z3.And(sym.tag(t) == T["atom"], sym.as_atom(t) == v.t))
        elif isinstance(v, VList):
            it.sadd(z3.And(sym.tag(t) == T["list"], sym.v_len(t) == it.st.lists[v.oid].len))
        elif isinstance(v, VTuple):
            it.sadd(z3.And(sym.tag(t) == T["tuple"], sym.v_len(t) == len(v.items)))
            for k, x in enumerate(v.items):
                if isinstance(x, VDyn):
                    it.sadd(sym.v_item(t, k) == x.t)
                elif type(x).__name__ == "VTy":
                    it.sadd(sym.v_item(t, k) == to_dyn(it, x).t)
        elif isinstance(v, VDict):
            it.sadd(sym.tag(t) == T["dict"])
        else:
            it.sadd(sym.tag(t) == T["other"])
            from pyvc.sym import VObj as _VObj
            if isinstance(v, _VObj) and isinstance(v.cls, type):
                # an engine-side object keeps its class (and bases) when seen as a dynamic value
                for k in v.cls.__mro__:
                    if k is not object:
                        it.sadd(ISINST(t, sym.ATOMS.code(k)))
        return d
    w.to_dyn = to_dyn

    # ------------------------------------------------------------------ isinstance / truth / ==
    prev_isinstance = w.isinstance_ext

    def isinstance_ext(it, v, k, node):
        if not isinstance(v, VDyn):
            return prev_isinstance(it, v, k, node)
        t = v.t
        tg = sym.tag(t)
        if k is bool:
            return tg == T["bool"]
        if k is int:
            return z3.Or(tg == T["bool"], tg == T["int"])
        if k is float:
            return tg == T["float"]
        if k is str:
            return tg == T["str"]
        if k is dict:
            return tg == T["dict"]
        if k is list:
            return tg == T["list"]
        if k is tuple:
            return tg == T["tuple"]
        if k is object:
            return z3.BoolVal(True)
        if k is type(None):
            return tg == T["none"]
        if issubclass(k, BaseException) or k.__module__.startswith("graphql"):
            # a library class: only 'other' values can be instances (consistent per value/class)
            return z3.And(tg == T["other"], ISINST(t, sym.ATOMS.code(k)))
        if isinstance(k, type) and not issubclass(k, (int, float, str, bytes, dict, list, tuple, set, frozenset)):
            # any other class that does not derive from a modelled built-in (e.g. decimal.Decimal):
            # its instances are 'other' values
            return z3.And(tg == T["other"], ISINST(t, sym.ATOMS.code(k)))
        return None
    w.isinstance_ext = isinstance_ext

    def dyn_truth(it, v):
        t = v.t
        tg = sym.tag(t)
        other = TRUTHY(t)   # __bool__/__len__ of any other object: a function of the value
        return z3.If(tg == T["none"], False,
               z3.If(tg == T["undefined"], False,
               z3.If(tg == T["bool"], sym.as_bool(t),
               z3.If(tg == T["int"], sym.as_int(t) != 0,
               z3.If(tg == T["float"], z3.Or(sym.as_fcls(t) != 0, sym.as_fval(t) != 0),
               z3.If(tg == T["str"], sym.as_slen(t) > 0,
               z3.If(z3.Or(tg == T["list"], tg == T["tuple"], tg == T["dict"], tg == T["set"]),
                     sym.v_len(t) > 0, other)))))))
    w.dyn_truth = dyn_truth

    def dyn_identical(it, a, b, node):
        if isinstance(a, VDyn) and isinstance(b, VDyn):
            return a.t == b.t
        d, o = (a, b) if isinstance(a, VDyn) else (b, a)
        if type(o).__name__ == "VTy":
            return d.t == to_dyn(it, o).t
        if isinstance(o, VAtom):
            try:
                obj = sym.atom_obj(o)
            except KeyError:
                obj = "?"
            if obj is None:
                return sym.tag(d.t) == T["none"]
            if w.is_undefined(obj):
                return sym.tag(d.t) == T["undefined"]
            return z3.And(sym.tag(d.t) == T["atom"], sym.as_atom(d.t) == o.t)
        if isinstance(o, VBool):
            return z3.And(sym.tag(d.t) == T["bool"], sym.as_bool(d.t) == o.t)
        return z3.BoolVal(False) if isinstance(o, (VObj, VList, VDict)) and False else \
            z3.Bool(it.namer.fresh("is"))
    w.dyn_identical = dyn_identical

    def dyn_equal(it, a, b, node):
        na, nb = numeric(it, a), numeric(it, b)
        if na is not None and nb is not None:
            both = z3.And(na.ok, nb.ok)
            other = z3.Bool(it.namer.fresh("eq"))
            return z3.If(both, num_eq(na, nb), other if (isinstance(a, VDyn) and isinstance(b, VDyn))
                         else z3.And(z3.Or(*( [sym.tag(x.t) == T["other"] for x in (a, b) if isinstance(x, VDyn)] or [z3.BoolVal(False)])), other))
        d, o = (a, b) if isinstance(a, VDyn) else (b, a)
        if isinstance(o, VStr):
            vv = sym.as_view(o)
            same = z3.And(sym.tag(d.t) == T["str"], sym.as_slen(d.t) == vv.length())
            if o.lit is not None:
                chars = [z3.Select(sym.as_sarr(d.t), k) == ord(c) for k, c in enumerate(o.lit)]
                other = z3.And(sym.tag(d.t) == T["other"], z3.Bool(it.namer.fresh("eq")))
                return z3.Or(z3.And(same, *chars), other)
            return z3.And(same, z3.Bool(it.namer.fresh("streq")))
        if isinstance(o, VAtom):
            return z3.Or(dyn_identical(it, d, o, node),
                         z3.And(sym.tag(d.t) == T["other"], z3.Bool(it.namer.fresh("eq"))))
        return z3.Bool(it.namer.fresh("eq"))
    w.dyn_equal = dyn_equal

    def is_undefined(obj):
        from graphql.pyutils import Undefined
        return obj is Undefined
    w.is_undefined = is_undefined

    # ------------------------------------------------------------------ numeric comparisons
    prev_cmp = w.compare_ext

    def compare_ext(it, op, a, b, node):
        na, nb = numeric(it, a), numeric(it, b)
        if na is None or nb is None:
            return prev_cmp(it, op, a, b, node)
        if not it.st.spec:
            it.guard(z3.And(na.ok, nb.ok), TypeError, node, "SAFE-Type",
                     text=f"ordering of a non-numeric value: {_src(node)}")
        if isinstance(op, ast.Lt):
            return num_lt(na, nb, False)
        if isinstance(op, ast.LtE):
            return num_lt(na, nb, True)
        if isinstance(op, ast.Gt):
            return num_lt(nb, na, False)
        if isinstance(op, ast.GtE):
            return num_lt(nb, na, True)
        return None
    w.compare_ext = compare_ext

    def float_cmp(it, op, a, b, node):
        na, nb = numeric(it, a), numeric(it, b)
        if na is None or nb is None:
            raise Unsupported("comparison of a float with a non-number")
        if isinstance(op, ast.Eq):
            return num_eq(na, nb)
        return compare_ext(it, op, a, b, node)
    w.float_cmp = float_cmp

    prev_equal = w.equal_ext

    def equal_ext(it, a, b, node):
        na, nb = numeric(it, a), numeric(it, b)
        if na is not None and nb is not None and not (isinstance(a, VDyn) or isinstance(b, VDyn)):
            return num_eq(na, nb)
        return prev_equal(it, a, b, node)
    w.equal_ext = equal_ext

    # ------------------------------------------------------------------ conversions
    def int_ext(it, v, rest, node):
        if isinstance(v, VFloat):
            use("int(float) truncates toward zero; ValueError for nan, OverflowError for +-inf")
            it.guard(v.cls != 1, ValueError, node, "SAFE-Value")
            it.guard(v.cls == 0, OverflowError, node, "SAFE-Value")
            return VInt(trunc(v.val))
        if isinstance(v, VStr) and rest:
            # int(text, base): ValueError or some integer; which texts a base accepts is not modelled
            # (it is more than the digit strings of the base: sign, blanks, underscores, prefixes,
            # non-ASCII digits)
            use("int(str, base): ValueError, or an integer about which nothing is known")
            if it.choose(2, "int(str, base)") == 1:
                it.throw(ValueError, node, "SAFE-Value")
            return it.fresh_int("int_base")
        if isinstance(v, VStr):
            use("int(str): a function of the text - ValueError exactly when is_int_str(text) is "
                "false, else int_of_str(text) (both uninterpreted: no claim about which texts parse)")
            arr, n = canon_str(it, v)
            it.guard(IS_INT_STR(arr, n), ValueError, node, "SAFE-Value")
            return VInt(INT_OF_STR(arr, n))
        if isinstance(v, VDyn):
            t = v.t
            tg = sym.tag(t)
            if it.decide(z3.Or(tg == T["int"], tg == T["bool"])):
                return VInt(z3.If(tg == T["bool"], z3.If(sym.as_bool(t), 1, 0), sym.as_int(t)))
            if it.decide(tg == T["float"]):
                return int_ext(it, VFloat(sym.as_fcls(t), sym.as_fval(t)), rest, node)
            if it.decide(tg == T["str"]):
                return int_ext(it, VStr(arr=sym.as_sarr(t), lo=z3.IntVal(0), hi=sym.as_slen(t)),
                               rest, node)
            use("int(x) for any other value: raises some Exception or returns an int (A5)")
            if it.choose(2, "int(other)") == 1:
                raise_any(it, node)
            return it.fresh_int("int")
        return None
    w.int_ext = int_ext

    def raise_any(it, node):
        from pyvc.interp import _Raise
        raise _Raise(VExc(Exception, origin=_src(node), okind="RAISES", exact=False,
                          lineno=getattr(node, "lineno", 0)))
    w.raise_any = raise_any

    def float_ext(it, v, node):
        if isinstance(v, VFloat):
            return v
        if isinstance(v, (VInt, VBool)):
            use("float(int): OverflowError, or the nearest double rnd(i) (integer valued, "
                "monotone, exact for |i| <= 2**53)")
            i = it.as_int(v, node)
            it.note_safe("SAFE-Value", _src(node), getattr(node, "lineno", 0))
            small = z3.And(-TWO53 <= i, i <= TWO53)
            if not it.decide(small):
                if it.choose(2, "float(int) overflow") == 1:
                    it.sadd(z3.Or(i >= 2 ** 1023, i <= -(2 ** 1023)))
                    it.throw(OverflowError, node, "SAFE-Value")
            r = RND(i)
            it.sadd(z3.Implies(small, r == z3.ToReal(i)))
            it.sadd(z3.IsInt(r))
            it.sadd(z3.Implies(i > TWO53, r >= TWO53))
            it.sadd(z3.Implies(i < -TWO53, r <= -TWO53))
            return VFloat(z3.IntVal(0), r)
        if isinstance(v, VStr):
            use("float(str): a function of the text - ValueError exactly when is_float_str(text) is "
                "false, else some float of any class (finite, nan, +-inf: float('1e999') is inf)")
            arr, n = canon_str(it, v)
            it.guard(IS_FLOAT_STR(arr, n), ValueError, node, "SAFE-Value")
            c = FCLS_OF_STR(arr, n)
            it.sadd(z3.And(0 <= c, c <= 3))
            return VFloat(c, FVAL_OF_STR(arr, n))
        if isinstance(v, VDyn):
            t = v.t
            tg = sym.tag(t)
            if it.decide(tg == T["float"]):
                return VFloat(sym.as_fcls(t), sym.as_fval(t))
            if it.decide(z3.Or(tg == T["int"], tg == T["bool"])):
                return float_ext(it, VInt(z3.If(tg == T["bool"], z3.If(sym.as_bool(t), 1, 0),
                                                sym.as_int(t))), node)
            if it.decide(tg == T["str"]):
                return float_ext(it, VStr(arr=sym.as_sarr(t), lo=z3.IntVal(0),
                                          hi=sym.as_slen(t)), node)
            if it.choose(2, "float(other)") == 1:
                raise_any(it, node)
            return w.fresh_float(it, "float")
        return None
    w.float_ext = float_ext

    def str_of_int_val(it, i):
        """str(i) as a function of i, with int(str(i)) == i (so it is injective)."""
        arr, n = STRINT_ARR(i), STRINT_LEN(i)
        it.sadd(z3.And(n >= 1, IS_INT_STR(arr, n), INT_OF_STR(arr, n) == i))
        return VStr(arr=arr, lo=z3.IntVal(0), hi=n)
    w.spec_funcs["str_of_int"] = lambda it, i: str_of_int_val(it, it.as_int(i, None))

    def str_ext(it, v, node):
        if isinstance(v, VInt):
            use("str(int): a function of the int with int(str(i)) == i; ValueError above the interpreter's digit limit, else a str")
            if it.choose(2, "str(int) digit limit") == 1:
                it.sadd(z3.Or(v.t >= 10 ** 4300, v.t <= -(10 ** 4300)))
                it.throw(ValueError, node, "SAFE-Value")
            return str_of_int_val(it, v.t)
        if isinstance(v, VDyn):
            t = v.t
            tg = sym.tag(t)
            if it.decide(tg == T["str"]):
                return VStr(arr=sym.as_sarr(t), lo=z3.IntVal(0), hi=sym.as_slen(t))
            if it.decide(tg == T["int"]):
                return str_ext(it, VInt(sym.as_int(t)), node)
            if it.decide(tg == T["other"]):
                use("str(x) of a custom object: returns a str or raises some Exception (A5)")
                if it.choose(2, "str(other)") == 1:
                    raise_any(it, node)
            return it.fresh_str("str")
        return None
    w.str_ext = str_ext

    prev_dyn_str = w.dyn_str

    def dyn_str(it, v, node):
        # f-strings / inspect of a dynamic value: assumed total (inspect() never raises)
        prev_dyn_str(it, v, node)
    w.dyn_str = dyn_str

    # ------------------------------------------------------------------ builtins on numbers
    def b_isfinite(it, f, args, kw, node):
        (v,) = args
        n = numeric(it, v)
        if n is None:
            it.throw(TypeError, node, "SAFE-Type")
        use("math.isfinite: TypeError unless a number; True for ints, class == finite for floats")
        it.guard(n.ok, TypeError, node, "SAFE-Type")
        return VBool(z3.And(z3.Not(n.nan), n.rank == 0))
    w.builtins["py:isfinite"] = b_isfinite

    def b_isnan(it, f, args, kw, node):
        (v,) = args
        n = numeric(it, v)
        if n is None:
            it.throw(TypeError, node, "SAFE-Type")
        use("math.isnan / math.isinf: TypeError unless a number; by the float class")
        it.guard(n.ok, TypeError, node, "SAFE-Type")
        return VBool(n.nan)
    w.builtins["py:isnan"] = b_isnan

    def b_isinf(it, f, args, kw, node):
        (v,) = args
        n = numeric(it, v)
        if n is None:
            it.throw(TypeError, node, "SAFE-Type")
        use("math.isnan / math.isinf: TypeError unless a number; by the float class")
        it.guard(n.ok, TypeError, node, "SAFE-Type")
        return VBool(z3.And(z3.Not(n.nan), n.rank != 0))
    w.builtins["py:isinf"] = b_isinf

    def b_abs(it, f, args, kw, node):
        (v,) = args
        if isinstance(v, VInt):
            return VInt(z3.If(v.t >= 0, v.t, -v.t))
        n = numeric(it, v)
        if n is None:
            raise Unsupported(f"abs({v!r})")
        it.guard(n.ok, TypeError, node, "SAFE-Type")
        if isinstance(v, VDyn):
            d = it.fresh_dyn("abs")
            t, s = d.t, v.t
            isf = sym.tag(s) == T["float"]
            it.sadd(sym.tag(t) == z3.If(isf, T["float"], T["int"]))
            si = z3.If(sym.tag(s) == T["bool"], z3.If(sym.as_bool(s), 1, 0), sym.as_int(s))
            it.sadd(sym.as_int(t) == z3.If(si >= 0, si, -si))
            it.sadd(sym.as_fcls(t) == z3.If(sym.as_fcls(s) == 3, 2, sym.as_fcls(s)))
            it.sadd(sym.as_fval(t) == z3.If(sym.as_fval(s) >= 0, sym.as_fval(s), -sym.as_fval(s)))
            return d
        if isinstance(v, VFloat):
            return VFloat(z3.If(v.cls == 3, 2, v.cls), z3.If(v.val >= 0, v.val, -v.val))
        return None
    w.builtins["bi:abs"] = b_abs

    def b_type(it, f, args, kw, node):
        (v,) = args
        if isinstance(v, VDyn):
            o = VOpaque("type")
            o.type_of = v
            return o
        return prev_type(it, f, args, kw, node)
    prev_type = w.builtins["bi:type"]
    w.builtins["bi:type"] = b_type

    prev_getattr = w.getattr_ext

    def getattr_ext(it, v, attr, node):
        if isinstance(v, VOpaque) and hasattr(v, "type_of") and attr == "__module__":
            d = v.type_of
            s = it.fresh_str("module")
            builtin = sym.str_eq(s, VStr(lit="builtins"))
            # every class but the custom ones ('other') lives in builtins
            it.sadd(z3.Implies(sym.tag(d.t) != T["other"], builtin))
            return s
        return prev_getattr(it, v, attr, node)
    w.getattr_ext = getattr_ext

    # ------------------------------------------------------------------ sized / indexable values
    SIZED = ("list", "tuple", "str", "dict", "set", "bytes")

    prev_len = w.len_ext

    def len_ext(it, v, node):
        if isinstance(v, VDyn):
            use("len(x): TypeError unless x is a list/tuple/str/dict/set, else its length")
            it.guard(sor(*[sym.tag(v.t) == T[k] for k in SIZED]), TypeError, node, "SAFE-Type")
            return VInt(z3.If(sym.tag(v.t) == T["str"], sym.as_slen(v.t), sym.v_len(v.t)))
        return prev_len(it, v, node)
    w.len_ext = len_ext

    prev_index = w.index_ext

    def dyn_as_int(it, k, node):
        if isinstance(k, (VInt, VBool)):
            return it.as_int(k, node)
        if isinstance(k, VDyn):
            it.guard(z3.Or(sym.tag(k.t) == T["int"], sym.tag(k.t) == T["bool"]), TypeError, node,
                     "SAFE-Type")
            return z3.If(sym.tag(k.t) == T["bool"], z3.If(sym.as_bool(k.t), 1, 0), sym.as_int(k.t))
        raise Unsupported(f"integer expected, got {k!r}")
    w.dyn_as_int = dyn_as_int

    def index_ext(it, v, idx, node):
        if isinstance(v, VDyn):
            use("x[i] on a tuple/list value: IndexError outside -len..len-1")
            it.guard(z3.Or(sym.tag(v.t) == T["tuple"], sym.tag(v.t) == T["list"]), TypeError, node,
                     "SAFE-Type")
            i = dyn_as_int(it, idx, node)
            n = sym.v_len(v.t)
            it.guard(z3.And(-n <= i, i < n), IndexError, node, "SAFE-Index")
            return VDyn(sym.v_item(v.t, z3.If(i < 0, i + n, i)))
        return prev_index(it, v, idx, node)
    w.index_ext = index_ext

    prev_list = w.list_ext

    def list_ext(it, v, node):
        if isinstance(v, VDyn):
            from pyvc.interp import ListObj
            it.guard(sor(*[sym.tag(v.t) == T[k] for k in ("list", "tuple", "set")]), TypeError,
                     node, "SAFE-Type")
            j = z3.Int(it.namer.fresh("j"))
            oid = it.fresh_oid()
            it.st.lists[oid] = ListObj(sym.v_len(v.t), None, "dyn",
                                       [z3.Lambda([j], sym.v_item(v.t, j))])
            return VList(oid)
        return prev_list(it, v, node)
    w.list_ext = list_ext

    prev_tuple = w.tuple_ext

    def tuple_ext(it, v, node):
        if isinstance(v, VList):
            L = it.st.lists[v.oid]
            d = it.fresh_dyn("tuple")
            it.sadd(z3.And(sym.tag(d.t) == T["tuple"], sym.v_len(d.t) == L.len))
            if L.arrays is not None and L.spec == "dyn":
                j = z3.Int(it.namer.fresh("j"))
                it.sadd(z3.ForAll([j], sym.v_item(d.t, j) == z3.Select(L.arrays[0], j),
                                  patterns=[sym.v_item(d.t, j)]))
            return d
        if isinstance(v, VDyn):
            return v
        return prev_tuple(it, v, node)
    w.tuple_ext = tuple_ext

    # attributes of arbitrary objects: a function of (object, attribute name); objects that
    # passed an isinstance test of a library class are assumed to have that class's attributes
    ATTR = z3.Function("attr_of", sym.ValS, sym.I, sym.ValS)
    ATTR_DYN = z3.Function("attr_dyn", sym.ValS, sym.ValS, sym.ValS)
    STR_ATTRS = {"kind"}

    prev_getattr2 = w.getattr_ext

    def getattr_ext2(it, v, attr, node):
        if isinstance(v, VDyn):
            use("attribute read on a user supplied object: a function of (object, name), total")
            r = ATTR(v.t, sym.ATOMS.code("attr:" + attr))
            if attr in STR_ATTRS:
                it.sadd(z3.And(sym.tag(r) == T["str"], sym.as_slen(r) >= 0))
                return VStr(arr=sym.as_sarr(r), lo=z3.IntVal(0), hi=sym.as_slen(r))
            return VDyn(r)
        return prev_getattr2(it, v, attr, node)
    w.getattr_ext = getattr_ext2

    prev_getattr_dyn = getattr(w, "getattr_dyn", None)

    def getattr_dyn(it, obj, name, default, node):
        """getattr(obj, <symbolic name>, default): any value (a function of object and name)."""
        if isinstance(obj, VDyn):
            nm = name if isinstance(name, VDyn) else w.to_dyn(it, name)
            return VDyn(ATTR_DYN(obj.t, nm.t))
        return prev_getattr_dyn(it, obj, name, default, node) if prev_getattr_dyn else None
    w.getattr_dyn = getattr_dyn

    # ------------------------------------------------------------------ dict-like dynamic values
    import collections.abc as _abc
    from pyvc.refs import RefS, VOMap, OMAP_LEN
    AS_OMAP = z3.Function("as_omap", sym.ValS, RefS)

    def dictlike(t):
        return z3.Or(sym.tag(t) == T["dict"],
                     z3.And(sym.tag(t) == T["other"], ISINST(t, sym.ATOMS.code(_abc.Mapping))))
    w.dictlike = dictlike

    def dyn_omap(it, v):
        m = VOMap(AS_OMAP(v.t), "dyn")
        it.sadd(z3.And(OMAP_LEN(m.t) >= 0, OMAP_LEN(m.t) == sym.v_len(v.t)))
        return m
    w.dyn_omap = dyn_omap

    prev_getattr3 = w.getattr_ext

    def getattr_ext3(it, v, attr, node):
        if isinstance(v, VDyn) and attr in ("items", "get", "keys", "values"):
            use("a dict (or Mapping) value is read through the ordered-map model: items/get/keys/values")
            if not it.st.spec:
                it.guard(dictlike(v.t), AttributeError, node, "SAFE-Attr")
            m = dyn_omap(it, v)
            return VFunc(None, recv=m, builtin=f"omap.{attr}", name=attr)
        return prev_getattr3(it, v, attr, node)
    w.getattr_ext = getattr_ext3

    prev_isinstance2 = w.isinstance_ext

    def isinstance_ext2(it, v, k, node):
        if isinstance(v, VDyn) and k is _abc.Mapping:
            return dictlike(v.t)
        return prev_isinstance2(it, v, k, node)
    w.isinstance_ext = isinstance_ext2

    prev_index2 = w.index_ext

    def index_ext2(it, v, idx, node):
        if isinstance(v, VDyn) and isinstance(idx, VStr):
            it.guard(dictlike(v.t), TypeError, node, "SAFE-Type")
            return prev_index2(it, dyn_omap(it, v), idx, node)
        return prev_index2(it, v, idx, node)
    w.index_ext = index_ext2

    prev_contains2 = w.contains_ext

    def contains_ext2(it, container, item, node):
        if isinstance(container, VDyn) and isinstance(item, VStr):
            return z3.And(dictlike(container.t), prev_contains2(it, dyn_omap(it, container), item, node))
        return prev_contains2(it, container, item, node)
    w.contains_ext = contains_ext2

    # ------------------------------------------------------------------ calling a dynamic value
    prev_call = w.call_ext

    def call_ext(it, f, args, kwargs, node):
        if isinstance(f, VDyn):
            use("calling a user supplied callable: returns any value or raises any Exception (A5)")
            if not it.st.spec:
                it.guard(sym.tag(f.t) == T["other"], TypeError, node, "SAFE-Call",
                         text=f"call of a non-callable: {_src(node)}")
            if it.choose(2, "dyn call outcome") == 1:
                raise_any(it, node)
            r = it.fresh_dyn("ret")
            c = it.contract
            if c is not None and c.dyn_call_ghost and not it.st.spec:
                gname, pred = c.dyn_call_ghost
                cur = it.ghost_get(gname)
                saved = it.st.spec
                it.st.spec = True
                try:
                    hit = it.truth(w.spec_funcs[pred](it, r))
                finally:
                    it.st.spec = saved
                it.st.ghost[gname] = VInt(cur.t + z3.If(hit, 1, 0))
            return r
        return prev_call(it, f, args, kwargs, node)
    w.call_ext = call_ext

    # ------------------------------------------------------------------ arithmetic on floats
    prev_binop = w.binop_ext

    def binop_ext(it, op, a, b, node):
        if (isinstance(a, VDyn) or isinstance(b, VDyn)) and isinstance(op, (ast.Add, ast.Sub)) \
                and isinstance(a, (VDyn, VInt)) and isinstance(b, (VDyn, VInt)):
            x, y = w.dyn_as_int(it, a, node), w.dyn_as_int(it, b, node)
            return VInt(x + y if isinstance(op, ast.Add) else x - y)
        if isinstance(op, ast.Pow) and isinstance(a, VInt) and isinstance(b, VInt):
            x, y = z3.simplify(a.t), z3.simplify(b.t)
            if z3.is_int_value(x) and z3.is_int_value(y) and y.as_long() >= 0:
                return VInt(x.as_long() ** y.as_long())
        return prev_binop(it, op, a, b, node)
    w.binop_ext = binop_ext

    # ------------------------------------------------------------------ spec functions
    def p(fn):
        return lambda it, *a: VBool(fn(it, *a))

    def same_val(it, a, b):
        """identity of two values (dyn vs constants handled like `is`)"""
        if isinstance(a, VDyn) and isinstance(b, VDyn):
            return a.t == b.t
        if isinstance(a, VDyn) or isinstance(b, VDyn):
            return dyn_identical(it, a, b, None)
        return as_dyn_t(it, a) == as_dyn_t(it, b)

    def as_dyn_t(it, v):
        return w.to_dyn(it, v).t if not isinstance(v, VDyn) else v.t

    w.spec_funcs.update({
        "is_bool": p(lambda it, v: sym.tag(as_dyn_t(it, v)) == T["bool"]),
        "is_int": p(lambda it, v: sym.tag(as_dyn_t(it, v)) == T["int"]),       # int but not bool
        "is_float": p(lambda it, v: sym.tag(as_dyn_t(it, v)) == T["float"]),
        "is_str": p(lambda it, v: sym.tag(as_dyn_t(it, v)) == T["str"]),
        "is_none": p(lambda it, v: sym.tag(as_dyn_t(it, v)) == T["none"]),
        "is_undefined": p(lambda it, v: sym.tag(as_dyn_t(it, v)) == T["undefined"]),
        "is_other": p(lambda it, v: sym.tag(as_dyn_t(it, v)) == T["other"]),
        "is_finite_float": p(lambda it, v: z3.And(sym.tag(as_dyn_t(it, v)) == T["float"],
                                                  sym.as_fcls(as_dyn_t(it, v)) == 0)),
        "is_integral_float": p(lambda it, v: z3.And(
            sym.tag(as_dyn_t(it, v)) == T["float"], sym.as_fcls(as_dyn_t(it, v)) == 0,
            z3.IsInt(sym.as_fval(as_dyn_t(it, v))))),
        "int_of": lambda it, v: VInt(sym.as_int(as_dyn_t(it, v))),
        "bool_of": lambda it, v: VBool(sym.as_bool(as_dyn_t(it, v))),
        "float_int_of": lambda it, v: VInt(z3.ToInt(sym.as_fval(as_dyn_t(it, v)))),
        "num_eq": p(lambda it, a, b: num_eq(numeric(it, a), numeric(it, b))),
        "same": p(lambda it, a, b: same_val(it, a, b)),
        "truthy": lambda it, v: VBool(it.truth(v)),
        "is_float_str": lambda it, s_: VBool(IS_FLOAT_STR(*canon_str(it, s_))),
        "float_str_finite": lambda it, s_: VBool(FCLS_OF_STR(*canon_str(it, s_)) == 0),
        "float_of_str_eq": lambda it, r, s_: VBool(z3.And(
            sym.tag(as_dyn_t(it, r)) == T["float"],
            sym.as_fcls(as_dyn_t(it, r)) == FCLS_OF_STR(*canon_str(it, s_)),
            sym.as_fval(as_dyn_t(it, r)) == FVAL_OF_STR(*canon_str(it, s_)))),
        "is_int_str": lambda it, s_: VBool(IS_INT_STR(*canon_str(it, s_))),
        "int_of_str": lambda it, s_: VInt(INT_OF_STR(*canon_str(it, s_))),
        "is_tuple": p(lambda it, v: sym.tag(as_dyn_t(it, v)) == T["tuple"]),
        "is_sized": p(lambda it, v: sor(*[sym.tag(as_dyn_t(it, v)) == T[k] for k in ("tuple", "list")])),
        "instance_of": p(lambda it, v, name: z3.And(
            sym.tag(as_dyn_t(it, v)) == T["other"],
            ISINST(as_dyn_t(it, v), sym.ATOMS.code(w.resolve_class(name.lit))))),
    })

    def f_is_a(it, v, name):
        """isinstance(v, Class) for any kind of modelled value: statically known for constructed
        objects / exceptions, the ISINST predicate for dynamic values"""
        from pyvc.interp import VExc
        from pyvc.sym import VObj
        cls = w.resolve_class(name.lit)
        if isinstance(v, VExc):
            return VBool(bool(isinstance(v.cls, type) and issubclass(v.cls, cls)) and bool(v.exact or issubclass(v.cls, cls)))
        if isinstance(v, VObj) and isinstance(v.cls, type):
            return VBool(issubclass(v.cls, cls))
        if isinstance(v, VDyn):
            return VBool(z3.And(sym.tag(v.t) == T["other"], ISINST(v.t, sym.ATOMS.code(cls))))
        return VBool(False)
    w.spec_funcs["is_a"] = f_is_a

    # fresh dynamic values are well formed
    from pyvc import interp as _interp
    if not getattr(_interp.Interp, "_val_wf_patched", False):
        orig = _interp.Interp.fresh_dyn

        def fresh_dyn(self, base="v"):
            d = orig(self, base)
            wf(self, d)
            return d
        _interp.Interp.fresh_dyn = fresh_dyn
        _interp.Interp._val_wf_patched = True
