# install order of the theories (later ones wrap the hooks of earlier ones)
ORDER = ["val", "lines", "gtypes", "inputs", "schema", "visitor", "paths"]
