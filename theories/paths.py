"""Ghost predicates over response paths (linked records Path(prev, key, typename)).

  pdepth(p)        length of the path (0 for None)
  nulled(S, p)     p or one of its ancestors (or the root position None) is in the set S
Both are uninterpreted functions of the object identity, unfolded one level where used.
"""
import z3

from pyvc import sym, refs
from pyvc.sym import VBool, VInt, VAtom, Unsupported
from pyvc.refs import VRef, RefS, refset_state
from pyvc.codec import VOpt

PDEPTH = z3.Function("path_depth", RefS, sym.I)
NULLED = z3.Function("nulled", z3.ArraySort(RefS, sym.B), sym.B, RefS, sym.B)


def install(w):
    w.alias("Path", "graphql.pyutils.path.Path")
    w.shape("Path", prev="opt:ref:Path", key="dyn", typename="opt:str")

    def prev_of(it, t):
        return refs.read_attr(it, "Path", t, RefS, "prev", "opt:ref:Path")

    def split(p):
        """(is_none: z3 Bool, term or None)"""
        if isinstance(p, VAtom):
            return z3.BoolVal(True), None
        if isinstance(p, VRef):
            return z3.BoolVal(False), p.t
        if isinstance(p, VOpt):
            return p.is_none, p.val.t
        raise Unsupported(f"path value {p!r}")

    def unfold_depth(it, t):
        pn, pt = split(prev_of(it, t))
        it.sadd(z3.And(PDEPTH(t) >= 1, PDEPTH(t) == 1 + (z3.If(pn, 0, PDEPTH(pt)) if pt is not None else 0)))

    def f_pdepth(it, p):
        n, t = split(p)
        if t is None:
            return VInt(0)
        unfold_depth(it, t)
        return VInt(z3.If(n, 0, PDEPTH(t)))

    def unfold_nulled(it, arr, hn, t):
        pn, pt = split(prev_of(it, t))
        rest = hn if pt is None else z3.If(pn, hn, NULLED(arr, hn, pt))
        it.sadd(NULLED(arr, hn, t) == z3.Or(z3.Select(arr, t), rest))

    def f_nulled(it, s, p):
        arr, hn = refset_state(it, s)
        n, t = split(p)
        if t is None:
            return VBool(hn)
        unfold_nulled(it, arr, hn, t)
        return VBool(z3.If(n, hn, NULLED(arr, hn, t)))

    w.spec_funcs.update({"pdepth": f_pdepth, "nulled": f_nulled})
