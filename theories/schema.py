"""Object model of schemas for the schema validator (C20): attributes of type objects and the
shapes of schema element classes, all as uninterpreted functions of the object identity
(pyvc/refs.py).  Attribute kinds follow the constructors in type/definition.py (A1/A7)."""
import z3

from pyvc import sym, refs
from pyvc.sym import VBool, VStr, Unsupported, sor
from theories import gtypes as G

K = G.K
NAMED = [2, 3, 4, 5, 6, 7]
# attribute -> (kinds that have it, spec or callable(kind)->spec)
TY_ATTRS = {
    "name": (NAMED, "str"),
    "description": (NAMED, "opt:str"),
    "ast_node": (NAMED, "opt:ref:TypeDefNode"),
    "extension_ast_nodes": (NAMED, ("list", "ref:TypeDefNode")),
    "interfaces": ([K["OBJECT"], K["INTERFACE"]], ("list", "ty")),
    "types": ([K["UNION"]], ("list", "ty")),
    "values": ([K["ENUM"]], ("omap", "ref:GraphQLEnumValue")),
    "is_one_of": ([K["INPUT_OBJECT"]], "bool"),
}


def install(w):
    VTy = G.VTy
    w.alias("GraphQLField", "graphql.type.definition.GraphQLField")
    w.alias("GraphQLArgument", "graphql.type.definition.GraphQLArgument")
    w.alias("GraphQLInputField", "graphql.type.definition.GraphQLInputField")
    w.alias("GraphQLEnumValue", "graphql.type.definition.GraphQLEnumValue")
    w.alias("GraphQLDefaultInput", "graphql.type.definition.GraphQLDefaultInput")
    w.alias("GraphQLDirective", "graphql.type.directives.GraphQLDirective")
    w.alias("GraphQLSchema", "graphql.type.schema.GraphQLSchema")
    w.alias("Node", "graphql.language.ast.Node")
    w.alias("OperationType", "graphql.language.ast.OperationType")
    w.alias("DirectiveLocation", "graphql.language.directive_locations.DirectiveLocation")

    # a generic "definition node" shape: the union of the attributes the validator reads
    import graphql.language.ast as A

    class TypeDefNode(A.Node):   # stands for any type definition / extension node
        __slots__ = ()
    w.class_aliases["TypeDefNode"] = TypeDefNode
    w.class_aliases["NamedTypeNode"] = A.NamedTypeNode
    w.class_aliases["NameNode"] = A.NameNode
    w.class_aliases["TypeNode"] = A.TypeNode
    w.class_aliases["ConstValueNode"] = A.ValueNode
    w.class_aliases["DirectiveNode"] = A.DirectiveNode
    w.class_aliases["FieldDefinitionNode"] = A.FieldDefinitionNode
    w.class_aliases["InputValueDefinitionNode"] = A.InputValueDefinitionNode
    w.class_aliases["SchemaDefinitionNode"] = A.SchemaDefinitionNode
    w.class_aliases["OperationTypeDefinitionNode"] = A.OperationTypeDefinitionNode
    w.class_aliases["EnumValueDefinitionNode"] = A.EnumValueDefinitionNode
    w.class_aliases["DirectiveDefinitionNode"] = A.DirectiveDefinitionNode

    LN = ("list", "ref:NamedTypeNode")
    w.shape("TypeDefNode", interfaces=LN, types=LN, kind="str", loc="opaque")
    w.shape("NamedTypeNode", name="ref:NameNode", kind="str", loc="opaque")
    w.shape("NameNode", value="str", kind="str", loc="opaque")
    w.shape("DirectiveNode", name="ref:NameNode", kind="str", loc="opaque")
    w.shape("FieldDefinitionNode", type="ref:TypeNode", directives=("list", "ref:DirectiveNode"),
            kind="str", loc="opaque")
    w.shape("InputValueDefinitionNode", type="ref:TypeNode",
            default_value="opt:ref:ConstValueNode", directives=("list", "ref:DirectiveNode"),
            kind="str", loc="opaque")
    w.shape("EnumValueDefinitionNode", directives=("list", "ref:DirectiveNode"), kind="str",
            loc="opaque")
    w.shape("DirectiveDefinitionNode", kind="str", loc="opaque")
    w.shape("SchemaDefinitionNode",
            operation_types=("list", "ref:OperationTypeDefinitionNode"), kind="str", loc="opaque")
    w.shape("OperationTypeDefinitionNode", operation="atom:OperationType",
            type="ref:NamedTypeNode", kind="str", loc="opaque")
    w.shape("TypeNode", kind="str", loc="opaque")
    w.shape("ValueNode", kind="str", loc="opaque")

    w.shape("GraphQLSchema", query_type="opt:ty", mutation_type="opt:ty",
            subscription_type="opt:ty", directives=("list", "ref:GraphQLDirective"),
            type_map=("omap", "ty"), ast_node="opt:ref:SchemaDefinitionNode",
            extension_ast_nodes=("list", "ref:SchemaDefinitionNode"),
            description="opt:str")
    w.shape("GraphQLDirective", name="str", locations=("list", "atom:DirectiveLocation"),
            args=("omap", "ref:GraphQLArgument"), is_repeatable="bool",
            ast_node="opt:ref:DirectiveDefinitionNode", description="opt:str")
    w.shape("GraphQLArgument", type="ty", default="opt:ref:GraphQLDefaultInput",
            default_value="dyn", deprecation_reason="opt:str", out_name="opt:str",
            ast_node="opt:ref:InputValueDefinitionNode", description="opt:str")
    w.shape("GraphQLInputField", type="ty", default="opt:ref:GraphQLDefaultInput",
            default_value="dyn", deprecation_reason="opt:str", out_name="opt:str",
            ast_node="opt:ref:InputValueDefinitionNode", description="opt:str")
    w.shape("GraphQLField", type="ty", args=("omap", "ref:GraphQLArgument"),
            deprecation_reason="opt:str", ast_node="opt:ref:FieldDefinitionNode",
            description="opt:str")
    w.shape("GraphQLEnumValue", value="dyn", deprecation_reason="opt:str",
            ast_node="opt:ref:EnumValueDefinitionNode", description="opt:str")
    w.shape("GraphQLDefaultInput", value="dyn", literal="opt:ref:ConstValueNode")

    prev_type_attr = w.type_attr

    def type_attr(it, v, attr, node):
        t = v.t
        if attr == "fields":
            kinds = [K["OBJECT"], K["INTERFACE"], K["INPUT_OBJECT"]]
            it.guard(sor(*[G.tkind(t) == k for k in kinds]), AttributeError, node, "SAFE-Attr")
            if it.decide(G.tkind(t) == K["INPUT_OBJECT"]):
                spec = ("omap", "ref:GraphQLInputField")
                return refs.read_attr(it, "Ty", t, G.TyS, "fields_in", spec)
            return refs.read_attr(it, "Ty", t, G.TyS, "fields_out", ("omap", "ref:GraphQLField"))
        if attr in TY_ATTRS:
            kinds, spec = TY_ATTRS[attr]
            it.guard(sor(*[G.tkind(t) == k for k in kinds]), AttributeError, node, "SAFE-Attr")
            return refs.read_attr(it, "Ty", t, G.TyS, attr, spec)
        return prev_type_attr(it, v, attr, node)
    w.type_attr = type_attr

    def f_ty_name(it, t):
        return refs.read_attr(it, "Ty", t.t, G.TyS, "name", "str")
    w.spec_funcs["ty_name"] = f_ty_name
