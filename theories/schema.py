"""Object model of schemas for the schema validator (C20): attributes of type objects and the
shapes of schema element classes, all as uninterpreted functions of the object identity
(pyvc/refs.py).  Attribute kinds follow the constructors in type/definition.py (A1/A7)."""
import z3

from pyvc import sym, refs
from pyvc.sym import VBool, VInt, VStr, Unsupported, sor
from theories import gtypes as G

K = G.K
NAMED = [2, 3, 4, 5, 6, 7]
# attribute -> (kinds that have it, spec or callable(kind)->spec)
TY_ATTRS = {
    "name": (NAMED, "str"),
    "description": (NAMED, "opt:str"),
    "ast_node": (NAMED, "opt:ref:TypeDefNode"),
    "extension_ast_nodes": (NAMED, ("list", "ref:TypeDefNode")),
    "interfaces": ([K["OBJECT"], K["INTERFACE"]], ("list", "ty")),
    "types": ([K["UNION"]], ("list", "ty")),
    "values": ([K["ENUM"]], ("omap", "ref:GraphQLEnumValue")),
    "is_one_of": ([K["INPUT_OBJECT"]], "bool"),
}


class ValidSchemaTheory:
    """Schema validity facts (A7), only in proofs whose contract says valid_schema=True:
    the types of input fields and arguments are input types, the types of fields output types."""

    DEPTH = 2

    def reset(self, it):
        it._vs_done = set()
        it._vs_keep = []

    def snapshot(self, it):
        return set(it._vs_done)

    def restore(self, it, snap):
        it._vs_done = snap

    def saturate(self, it, formulas):
        c = getattr(it, "contract", None)
        if c is None or not getattr(c, "valid_schema", False):
            return []
        from pyvc.rec import _has_var
        added = []
        stack = [f[0] if isinstance(f, tuple) else f for f in formulas]
        seen = set()
        while stack:
            e = stack.pop()
            i = e.get_id()
            if i in seen:
                continue
            seen.add(i)
            if z3.is_quantifier(e):
                stack.append(e.body())
                continue
            if not z3.is_app(e):
                continue
            nm = e.decl().name()
            if nm in ("GraphQLInputField.type#0", "GraphQLArgument.type#0", "GraphQLField.type#0") \
                    and not _has_var(e) and i not in it._vs_done:
                it._vs_done.add(i)
                it._vs_keep.append(e)
                f = G.OUTPUT(e) if nm.startswith("GraphQLField") else G.INPUT(e)
                it.S.add(f)
                added.append((f, 1))
            stack.extend(e.children())
        return added


def install(w):
    w.theories.append(ValidSchemaTheory())
    VTy = G.VTy
    w.alias("GraphQLField", "graphql.type.definition.GraphQLField")
    w.alias("GraphQLArgument", "graphql.type.definition.GraphQLArgument")
    w.alias("GraphQLInputField", "graphql.type.definition.GraphQLInputField")
    w.alias("GraphQLEnumValue", "graphql.type.definition.GraphQLEnumValue")
    w.alias("GraphQLDefaultInput", "graphql.type.definition.GraphQLDefaultInput")
    w.alias("GraphQLDirective", "graphql.type.directives.GraphQLDirective")
    w.alias("GraphQLSchema", "graphql.type.schema.GraphQLSchema")
    w.alias("Node", "graphql.language.ast.Node")
    w.alias("OperationType", "graphql.language.ast.OperationType")
    w.alias("DirectiveLocation", "graphql.language.directive_locations.DirectiveLocation")

    # a generic "definition node" shape: the union of the attributes the validator reads
    import graphql.language.ast as A

    class TypeDefNode(A.Node):   # stands for any type definition / extension node
        __slots__ = ()
    w.class_aliases["TypeDefNode"] = TypeDefNode
    w.class_aliases["NamedTypeNode"] = A.NamedTypeNode
    w.class_aliases["NameNode"] = A.NameNode
    w.class_aliases["TypeNode"] = A.TypeNode
    w.class_aliases["ConstValueNode"] = A.ValueNode
    w.class_aliases["DirectiveNode"] = A.DirectiveNode
    w.class_aliases["FieldDefinitionNode"] = A.FieldDefinitionNode
    w.class_aliases["InputValueDefinitionNode"] = A.InputValueDefinitionNode
    w.class_aliases["SchemaDefinitionNode"] = A.SchemaDefinitionNode
    w.class_aliases["OperationTypeDefinitionNode"] = A.OperationTypeDefinitionNode
    w.class_aliases["EnumValueDefinitionNode"] = A.EnumValueDefinitionNode
    w.class_aliases["DirectiveDefinitionNode"] = A.DirectiveDefinitionNode

    LN = ("list", "ref:NamedTypeNode")
    w.shape("TypeDefNode", interfaces=LN, types=LN, kind="str", loc="opaque")
    w.shape("NamedTypeNode", name="ref:NameNode", kind="str", loc="opaque")
    w.shape("NameNode", value="str", kind="str", loc="opaque")
    w.shape("DirectiveNode", name="ref:NameNode", kind="str", loc="opaque")
    w.shape("FieldDefinitionNode", type="ref:TypeNode", directives=("list", "ref:DirectiveNode"),
            kind="str", loc="opaque")
    w.shape("InputValueDefinitionNode", type="ref:TypeNode",
            default_value="opt:ref:ConstValueNode", directives=("list", "ref:DirectiveNode"),
            kind="str", loc="opaque")
    w.shape("EnumValueDefinitionNode", directives=("list", "ref:DirectiveNode"), kind="str",
            loc="opaque")
    w.shape("DirectiveDefinitionNode", kind="str", loc="opaque")
    w.shape("SchemaDefinitionNode",
            operation_types=("list", "ref:OperationTypeDefinitionNode"), kind="str", loc="opaque")
    w.shape("OperationTypeDefinitionNode", operation="atom:OperationType",
            type="ref:NamedTypeNode", kind="str", loc="opaque")
    w.shape("TypeNode", kind="str", loc="opaque")
    w.shape("ValueNode", kind="str", loc="opaque")

    w.shape("GraphQLSchema", query_type="opt:ty", mutation_type="opt:ty",
            subscription_type="opt:ty", directives=("list", "ref:GraphQLDirective"),
            type_map=("omap", "ty"), ast_node="opt:ref:SchemaDefinitionNode",
            extension_ast_nodes=("list", "ref:SchemaDefinitionNode"),
            description="opt:str")
    w.shape("GraphQLDirective", name="str", locations=("list", "atom:DirectiveLocation"),
            args=("omap", "ref:GraphQLArgument"), is_repeatable="bool",
            ast_node="opt:ref:DirectiveDefinitionNode", description="opt:str")
    w.shape("GraphQLArgument", type="ty", default="opt:ref:GraphQLDefaultInput",
            default_value="dyn", deprecation_reason="opt:str", out_name="opt:str",
            ast_node="opt:ref:InputValueDefinitionNode", description="opt:str")
    w.shape("GraphQLInputField", type="ty", default="opt:ref:GraphQLDefaultInput",
            default_value="dyn", deprecation_reason="opt:str", out_name="opt:str",
            ast_node="opt:ref:InputValueDefinitionNode", description="opt:str")
    w.shape("GraphQLField", type="ty", args=("omap", "ref:GraphQLArgument"),
            deprecation_reason="opt:str", ast_node="opt:ref:FieldDefinitionNode",
            description="opt:str")
    w.shape("GraphQLEnumValue", value="dyn", deprecation_reason="opt:str",
            ast_node="opt:ref:EnumValueDefinitionNode", description="opt:str")
    w.shape("GraphQLDefaultInput", value="dyn", literal="opt:ref:ConstValueNode")

    prev_type_attr = w.type_attr

    def type_attr(it, v, attr, node):
        t = v.t
        if attr == "fields":
            kinds = [K["OBJECT"], K["INTERFACE"], K["INPUT_OBJECT"]]
            it.guard(sor(*[G.tkind(t) == k for k in kinds]), AttributeError, node, "SAFE-Attr")
            if it.decide(G.tkind(t) == K["INPUT_OBJECT"]):
                spec = ("omap", "ref:GraphQLInputField")
                return refs.read_attr(it, "Ty", t, G.TyS, "fields_in", spec)
            return refs.read_attr(it, "Ty", t, G.TyS, "fields_out", ("omap", "ref:GraphQLField"))
        if attr == "out_type":
            it.guard(G.tkind(t) == K["INPUT_OBJECT"], AttributeError, node, "SAFE-Attr")
            d = it.fresh_dyn("out_type")
            it.sadd(sym.tag(d.t) == sym.TAGS["other"])   # a user supplied callable
            return d
        if attr == "_value_lookup":
            # GraphQLEnumType._value_lookup (cached_property): {python value -> member name}.
            # ASSUMED (the dict itself is not modelled): every name stored in it is a key of
            # self.values - which is what its body does (`lookup[value] = name` for name in self.values)
            it.guard(G.tkind(t) == K["ENUM"], AttributeError, node, "SAFE-Attr")
            w.trusted_used.add("GraphQLEnumType._value_lookup maps hashable python values to names of "
                               "self.values (its own loop; the dict is not modelled): a lookup raises KeyError, "
                               "TypeError (unhashable key) or gives a member name")
            o = sym.VOpaque("_value_lookup")
            o.enum_lookup = v
            return o
        if attr in TY_ATTRS:
            kinds, spec = TY_ATTRS[attr]
            it.guard(sor(*[G.tkind(t) == k for k in kinds]), AttributeError, node, "SAFE-Attr")
            r = refs.read_attr(it, "Ty", t, G.TyS, attr, spec)
            if attr == "name" and isinstance(r, VStr):
                # A_TYPES: a schema has finitely many named types - the name of a type object belongs
                # to the finite universe of names that measured visited sets count (pyvc/namesets.py)
                from pyvc import namesets, maps
                kv = sym.as_view(r)
                it.sadd(namesets.IN_U(maps.STRKEY(kv.arr, kv.hi)))
            return r
        return prev_type_attr(it, v, attr, node)
    w.type_attr = type_attr

    prev_index_el = w.index_ext

    def index_enum_lookup(it, v, idx, node):
        if isinstance(v, sym.VOpaque) and hasattr(v, "enum_lookup"):
            from pyvc.interp import _src
            from pyvc.refs import OMAP_IDX, OMAP_LEN
            text = _src(node)
            it.note_safe("SAFE-Key", text, getattr(node, "lineno", 0))
            c = it.choose(3, "enum value lookup")
            if c == 1:
                it.throw(KeyError, node, "SAFE-Key", text)
            if c == 2:
                it.throw(TypeError, node, "SAFE-Type", text)
            name = it.fresh_str("member_name")
            m = refs.read_attr(it, "Ty", v.enum_lookup.t, G.TyS, "values", ("omap", "ref:GraphQLEnumValue"))
            kv = sym.as_view(name)
            i = OMAP_IDX(m.t, kv.arr, kv.hi)
            it.assume(z3.And(0 <= i, i < OMAP_LEN(m.t)))
            return name
        return prev_index_el(it, v, idx, node)
    w.index_ext = index_enum_lookup

    def f_instance_of_ref(it, v, name):
        from pyvc.refs import VRef
        cls = w.resolve_class(name.lit)
        if isinstance(v, VRef):
            return VBool(w.isinstance_ext(it, v, cls, None))
        return VBool(False)
    w.spec_funcs["instance_of_ref"] = f_instance_of_ref

    def f_var_has_value(it, value_node, vv, fvv):
        """the variable named by value_node has an entry in the scoped coerced variable values"""
        from pyvc.refs import VRef, VOMap, OMAP_IDX, OMAP_LEN
        from pyvc.sym import VAtom, VOpaque
        if not isinstance(value_node, VRef):
            return VBool(False)
        name = it.getattr(it.getattr(value_node, "name", None), "value", None)
        kv = sym.as_view(name)

        def has(m):
            idx = OMAP_IDX(m.t, kv.arr, kv.hi)
            return z3.And(0 <= idx, idx < OMAP_LEN(m.t))

        def part(x, attr):
            if isinstance(x, VAtom):
                return None
            return it.getattr(x, attr, None)
        f_sources = part(fvv, "sources")
        f_coerced = part(fvv, "coerced")
        v_coerced = part(vv, "coerced")
        use_f = z3.BoolVal(False)
        if f_sources is not None:
            use_f = z3.And(OMAP_LEN(f_sources.t) > 0 if False else it.truth(fvv), has(f_sources))
        in_f = has(f_coerced) if f_coerced is not None else z3.BoolVal(False)
        in_v = has(v_coerced) if v_coerced is not None else z3.BoolVal(False)
        return VBool(z3.If(use_f, in_f, in_v))
    w.spec_funcs["var_has_value"] = f_var_has_value

    def f_same_str(it, a, b):
        from pyvc.sym import VStr
        if isinstance(a, VStr) and isinstance(b, VStr):
            va, vb = sym.as_view(a), sym.as_view(b)
            if a.lit is not None or b.lit is not None:
                return VBool(sym.str_eq(a, b))
            return VBool(z3.And(va.arr == vb.arr, z3.simplify(va.lo) == z3.simplify(vb.lo),
                                va.hi == vb.hi))
        return VBool(False)
    w.spec_funcs["same_str"] = f_same_str

    def f_key_is_out_name(it, key, arg_def, arg_name):
        """key == (arg_def.out_name or arg_name)"""
        from pyvc.codec import VOpt
        from pyvc.sym import VAtom
        on = it.getattr(arg_def, "out_name", None)
        if isinstance(on, VAtom):
            return f_same_str(it, key, arg_name)
        if isinstance(on, VOpt):
            use_name = z3.Or(on.is_none, on.val.length() == 0)
            return VBool(z3.If(use_name, f_same_str(it, key, arg_name).t,
                               f_same_str(it, key, on.val).t))
        return VBool(z3.If(on.length() == 0, f_same_str(it, key, arg_name).t,
                           f_same_str(it, key, on).t))
    w.spec_funcs["key_is_out_name"] = f_key_is_out_name

    NAMED_OF = z3.Function("named_type_of", refs.RefS, refs.RefS, G.TyS)
    NAMED_KNOWN = z3.Function("named_type_known", refs.RefS, refs.RefS, sym.B)

    def f_same_ty_opt(it, result, pair):
        """result (None | type) is the named type resolved for (schema, node) or None if unknown"""
        from pyvc.sym import VAtom
        from pyvc.codec import VOpt
        s, n = pair
        if not hasattr(s, "t") or not hasattr(n, "t") or s.t.sort() != refs.RefS or n.t.sort() != refs.RefS:
            raise Unsupported(f"named_type_of({s!r}, {n!r}): not a schema and a type node")
        known = NAMED_KNOWN(s.t, n.t)
        if isinstance(result, VAtom):
            return VBool(z3.Not(known))
        if isinstance(result, VOpt):
            return VBool(z3.If(result.is_none, z3.Not(known),
                               z3.And(known, result.val.t == NAMED_OF(s.t, n.t))))
        return VBool(z3.And(known, result.t == NAMED_OF(s.t, n.t)))
    w.spec_funcs["same_ty_opt"] = f_same_ty_opt
    w.spec_funcs["named_type_of"] = lambda it, s, n: (s, n)

    def f_cond_applies(it, schema, node, ty):
        from pyvc.refs import VRef
        from pyvc.codec import VOpt
        if isinstance(node, VOpt):
            node = node.val
        if not isinstance(node, VRef):
            return VBool(False)
        c = NAMED_OF(schema.t, node.t)
        known = NAMED_KNOWN(schema.t, node.t)
        abstract = z3.Or(G.tkind(c) == K["INTERFACE"], G.tkind(c) == K["UNION"])
        return VBool(z3.And(known, z3.Or(c == ty.t, z3.And(abstract, G.possible(schema.t, c, ty.t)))))
    w.spec_funcs["cond_applies"] = f_cond_applies

    NODE_SIZE = z3.Function("node_size", refs.RefS, sym.I)

    def f_node_size(it, n):
        """well-founded size of an AST value node (children are smaller): ghost measure"""
        it.sadd(NODE_SIZE(n.t) >= 0)
        return VInt(NODE_SIZE(n.t))
    w.spec_funcs["node_size"] = f_node_size

    def f_ty_name(it, t):
        return refs.read_attr(it, "Ty", t.t, G.TyS, "name", "str")
    w.spec_funcs["ty_name"] = f_ty_name
