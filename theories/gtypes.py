"""Theory of GraphQL type objects (DESIGN.md 3.5) and the specification's type relations.

Type objects are values of an uninterpreted sort Ty with
  tkind(t) in {NONNULL, LIST, SCALAR, OBJECT, INTERFACE, UNION, ENUM, INPUT_OBJECT}
  of_type(t): Ty   (meaningful for the two wrappers)
`is` is equality of Ty terms: two wrapper objects with the same of_type may be distinct (A7 only
says each object has exactly one kind and NonNull never wraps NonNull).

Spec relations, transcribed from the specification text (not from the code), as recursive
predicates whose defining equivalence is instantiated at the terms occurring in a query:
  EqT(A,B)            structural equality of wrappers over identical named types
  Sub(S,A,B)          IsValidImplementationFieldType / IsSubType   (covariant subtyping)
  Compat(A,B)         AreTypesCompatible (variable type vs location type)
  SameShapeW(A,B)     the wrapper/leaf part of SameResponseShape
  InputTy(A)/OutputTy(A)  IsInputType / IsOutputType
possible(S, abstract, t) is uninterpreted (union membership / interface implementation).
"""
import z3

from pyvc import sym
from pyvc.rec import _has_var
from pyvc.sym import V, VBool, VInt, VAtom, VObj, VOpaque, Unsupported, sand, sor

from pyvc.refs import RefS, VRef

TyS = z3.DeclareSort("Ty")
SchemaS = RefS   # a schema is an ordinary symbolic object
tkind = z3.Function("tkind", TyS, sym.I)
of_type = z3.Function("of_type", TyS, TyS)
possible = z3.Function("possible", SchemaS, TyS, TyS, sym.B)

K = {"NONNULL": 0, "LIST": 1, "SCALAR": 2, "OBJECT": 3, "INTERFACE": 4, "UNION": 5, "ENUM": 6,
     "INPUT_OBJECT": 7}

EQT = z3.Function("EqT", TyS, TyS, sym.B)
SUB = z3.Function("Sub", SchemaS, TyS, TyS, sym.B)
COMPAT = z3.Function("Compat", TyS, TyS, sym.B)
SHAPE = z3.Function("SameShapeW", TyS, TyS, sym.B)
INPUT = z3.Function("InputTy", TyS, sym.B)
OUTPUT = z3.Function("OutputTy", TyS, sym.B)
NAMEDOF = z3.Function("NamedOf", TyS, TyS)      # the named type under the wrappers (spec: "unwrapped")


class VTy(V):
    kind = "ty"

    def __init__(self, t):
        self.t = t

    def __repr__(self):
        return f"VTy({self.t})"


class VSchema(VRef):
    kind = "schema"

    def __init__(self, t):
        from graphql.type.schema import GraphQLSchema
        super().__init__(t, GraphQLSchema)


def nn(t):
    return tkind(t) == K["NONNULL"]


def lst(t):
    return tkind(t) == K["LIST"]


def named(t):
    return tkind(t) >= K["SCALAR"]


def leaf(t):
    return z3.Or(tkind(t) == K["SCALAR"], tkind(t) == K["ENUM"])


rank = z3.Function("ty_rank", TyS, sym.I)


def wf(t):
    """A7: one kind; NonNull never wraps NonNull; wrappers are well founded (rank)."""
    return z3.And(0 <= tkind(t), tkind(t) <= 7, rank(t) >= 0,
                  z3.Implies(nn(t), z3.Not(nn(of_type(t)))),
                  z3.Implies(z3.Or(nn(t), lst(t)), rank(t) == rank(of_type(t)) + 1),
                  z3.Implies(named(t), rank(t) == 0))


# ---- defining equivalences (from the specification) --------------------------------------------
def def_eqt(a, b):
    oa, ob = of_type(a), of_type(b)
    return EQT(a, b) == z3.If(z3.Or(nn(a), nn(b)), z3.And(nn(a), nn(b), EQT(oa, ob)),
                              z3.If(z3.Or(lst(a), lst(b)), z3.And(lst(a), lst(b), EQT(oa, ob)),
                                    a == b))


def is_sub_named(s, a, b):
    """IsSubType(possibleSubType, superType) on named types."""
    return z3.Or(
        a == b,
        z3.And(tkind(a) == K["OBJECT"], tkind(b) == K["UNION"], possible(s, b, a)),
        z3.And(z3.Or(tkind(a) == K["OBJECT"], tkind(a) == K["INTERFACE"]),
               tkind(b) == K["INTERFACE"], possible(s, b, a)))


def def_sub(s, a, b):
    """IsValidImplementationFieldType(fieldType=a, implementedFieldType=b)."""
    oa, ob = of_type(a), of_type(b)
    return SUB(s, a, b) == z3.If(
        nn(a), SUB(s, oa, z3.If(nn(b), ob, b)),
        z3.If(z3.And(lst(a), lst(b)), SUB(s, oa, ob), is_sub_named(s, a, b)))


def def_compat(a, b):
    """AreTypesCompatible(variableType=a, locationType=b)."""
    oa, ob = of_type(a), of_type(b)
    return COMPAT(a, b) == z3.If(
        nn(b), z3.And(nn(a), COMPAT(oa, ob)),
        z3.If(nn(a), COMPAT(oa, b),
              z3.If(lst(b), z3.And(lst(a), COMPAT(oa, ob)),
                    z3.If(lst(a), False, a == b))))


def def_shape(a, b):
    oa, ob = of_type(a), of_type(b)
    return SHAPE(a, b) == z3.If(
        z3.Or(nn(a), nn(b)), z3.And(nn(a), nn(b), SHAPE(oa, ob)),
        z3.If(z3.Or(lst(a), lst(b)), z3.And(lst(a), lst(b), SHAPE(oa, ob)),
              z3.If(z3.Or(leaf(a), leaf(b)), a == b, True)))


def def_input(a):
    return INPUT(a) == z3.If(z3.Or(nn(a), lst(a)), INPUT(of_type(a)),
                             z3.Or(tkind(a) == K["SCALAR"], tkind(a) == K["ENUM"],
                                   tkind(a) == K["INPUT_OBJECT"]))


def def_namedof(a):
    return z3.And(NAMEDOF(a) == z3.If(z3.Or(nn(a), lst(a)), NAMEDOF(of_type(a)), a),
                  named(NAMEDOF(a)))      # by induction on the rank (A7: wrappers are well founded)


def def_output(a):
    return OUTPUT(a) == z3.If(z3.Or(nn(a), lst(a)), OUTPUT(of_type(a)),
                              z3.And(named(a), tkind(a) != K["INPUT_OBJECT"]))


class TypesTheory:
    DEPTH = 2

    def reset(self, it):
        it._ty_done = set()
        it._ty_seen = set()
        it._ty_keep = []

    def snapshot(self, it):
        return (set(it._ty_done), set(it._ty_seen))

    def restore(self, it, snap):
        it._ty_done, it._ty_seen = snap

    def saturate(self, it, formulas):
        work = []
        added = []
        for f in formulas:
            if isinstance(f, tuple):
                if f[1] <= self.DEPTH:
                    self.collect(it, f[0], work, f[1])
            else:
                self.collect(it, f, work, 0)
        while work:
            name, args, depth = work.pop()
            key = (name,) + tuple(a.get_id() for a in args)
            if key in it._ty_done:
                continue
            it._ty_done.add(key)
            it._ty_keep.extend(args)
            new = []
            if name == "EqT":
                new.append(def_eqt(*args))
                new.append(z3.Implies(args[0] == args[1], EQT(*args)))      # reflexivity lemma
            elif name == "Sub":
                new.append(def_sub(*args))
                new.append(z3.Implies(args[1] == args[2], SUB(*args)))      # reflexivity lemma
            elif name == "Compat":
                new.append(def_compat(*args))
                new.append(z3.Implies(args[0] == args[1], COMPAT(*args)))
            elif name == "SameShapeW":
                new.append(def_shape(*args))
                new.append(z3.Implies(args[0] == args[1], SHAPE(*args)))
            elif name == "InputTy":
                new.append(def_input(*args))
            elif name == "OutputTy":
                new.append(def_output(*args))
            elif name == "NamedOf":
                new.append(def_namedof(*args))
            elif name in ("tkind", "of_type"):
                new.append(wf(args[0]))
                if name == "of_type":
                    new.append(wf(of_type(args[0])))
            for f in new:
                it.S.add(f)
                added.append((f, depth + 1))
                if depth < self.DEPTH:
                    self.collect(it, f, work, depth + 1)
        return added

    def collect(self, it, f, work, depth):
        stack = [f]
        seen = it._ty_seen
        while stack:
            e = stack.pop()
            i = e.get_id()
            if i in seen:
                continue
            seen.add(i)
            it._ty_keep.append(e)
            if z3.is_quantifier(e):
                stack.append(e.body())
                continue
            if not z3.is_app(e):
                continue
            nm = e.decl().name()
            if nm in ("EqT", "Sub", "Compat", "SameShapeW", "InputTy", "OutputTy", "NamedOf", "tkind",
                      "of_type") and not _has_var(e):
                work.append((nm, e.children(), depth))
            stack.extend(e.children())


def lemmas():
    """Induction steps of the reflexivity lemmas instantiated by TypesTheory."""
    a = z3.Const("a", TyS)
    s = z3.Const("s", SchemaS)
    oa = of_type(a)
    out = []
    out.append(("EqT_refl_step", z3.Implies(z3.And(wf(a), def_eqt(a, a), z3.Implies(z3.Or(nn(a), lst(a)), EQT(oa, oa))), EQT(a, a))))
    out.append(("Sub_refl_step", z3.Implies(z3.And(wf(a), wf(oa), def_sub(s, a, a), z3.Implies(z3.Or(nn(a), lst(a)), SUB(s, oa, oa))), SUB(s, a, a))))
    out.append(("Compat_refl_step", z3.Implies(z3.And(wf(a), def_compat(a, a), z3.Implies(z3.Or(nn(a), lst(a)), COMPAT(oa, oa))), COMPAT(a, a))))
    out.append(("NamedOf_named_step", z3.Implies(
        z3.And(wf(a), NAMEDOF(a) == z3.If(z3.Or(nn(a), lst(a)), NAMEDOF(oa), a),
               z3.Implies(z3.Or(nn(a), lst(a)), named(NAMEDOF(oa)))), named(NAMEDOF(a)))))
    out.append(("SameShapeW_refl_step", z3.Implies(z3.And(wf(a), def_shape(a, a), z3.Implies(z3.Or(nn(a), lst(a)), SHAPE(oa, oa))), SHAPE(a, a))))
    return out


def ty_chain(model, t):
    ev = lambda x: model.eval(x, model_completion=True)
    names = {c: n for n, c in K.items()}
    out = []
    for _ in range(5):
        k = ev(tkind(t)).as_long()
        out.append([names.get(k, str(k)), str(ev(t))])
        if k > 1:
            return out
        if k == 0 and len(out) >= 2 and out[-2][0] == "NONNULL":
            break
        t = of_type(t)
    # beyond the depth the query constrains, the model is arbitrary: close the chain
    if out and out[-1][0] == "NONNULL" and len(out) >= 2 and out[-2][0] == "NONNULL":
        out.pop()
    out.append(["SCALAR", "cut_" + out[-1][1]])
    return out


def install(w):
    w.theories.append(TypesTheory())
    from graphql.type import definition as D
    from graphql.type.schema import GraphQLSchema
    kind_of_class = {
        D.GraphQLNonNull: [K["NONNULL"]], D.GraphQLList: [K["LIST"]],
        D.GraphQLScalarType: [K["SCALAR"]], D.GraphQLObjectType: [K["OBJECT"]],
        D.GraphQLInterfaceType: [K["INTERFACE"]], D.GraphQLUnionType: [K["UNION"]],
        D.GraphQLEnumType: [K["ENUM"]], D.GraphQLInputObjectType: [K["INPUT_OBJECT"]],
        D.GraphQLWrappingType: [K["NONNULL"], K["LIST"]],
        D.GraphQLNamedType: [2, 3, 4, 5, 6, 7], D.GraphQLType: list(range(8)),
        object: list(range(8)),
    }

    prev_isinstance = w.isinstance_ext

    def isinstance_ext(it, v, k, node):
        if isinstance(v, VTy):
            if k in kind_of_class:
                return sor(*[tkind(v.t) == c for c in kind_of_class[k]])
            return z3.BoolVal(False)
        return prev_isinstance(it, v, k, node)
    w.isinstance_ext = isinstance_ext

    prev_getattr = w.getattr_ext

    def getattr_ext(it, v, attr, node):
        if isinstance(v, VTy):
            if attr == "of_type":
                it.guard(z3.Or(nn(v.t), lst(v.t)), AttributeError, node, "SAFE-Attr")
                return VTy(of_type(v.t))
            return w.type_attr(it, v, attr, node)
        return prev_getattr(it, v, attr, node)
    w.getattr_ext = getattr_ext

    def type_attr(it, v, attr, node):
        raise Unsupported(f"attribute {attr} of a GraphQL type")
    w.type_attr = type_attr

    def model_prefs(it):
        """Prefer counter-models with shallow types (tried in order; any may be infeasible)."""
        tys = [pv.t for pv in getattr(it, "param_syms", {}).values() if isinstance(pv, VTy)]
        if not tys:
            return []
        return [[rank(t) <= d for t in tys] for d in (1, 2, 3)]
    w.model_prefs_fns.append(model_prefs)

    prev_ident = getattr(w, "identical_ext", None)

    def identical_ext(it, a, b, node):
        if isinstance(a, VTy) and isinstance(b, VTy):
            return a.t == b.t
        if isinstance(a, VTy) != isinstance(b, VTy):
            return z3.BoolVal(False)
        return prev_ident(it, a, b, node) if prev_ident else None
    w.identical_ext = identical_ext

    prev_str_of = getattr(w, "str_of_ext", None)

    def str_of_ext(it, v, node):
        if isinstance(v, (VTy, VSchema)):
            w.trusted_used.add("str()/format of a GraphQL type object is total (its __str__ returns the name)")
            return True
        return prev_str_of(it, v, node) if prev_str_of else False
    w.str_of_ext = str_of_ext

    prev_equal = w.equal_ext

    def equal_ext_ty(it, a, b, node):
        # GraphQL type objects define no __eq__: == is identity
        if isinstance(a, VTy) and isinstance(b, VTy):
            return a.t == b.t
        return prev_equal(it, a, b, node)
    w.equal_ext = equal_ext_ty

    prev_fresh = getattr(w, "fresh_ext", None)

    def fresh_ext(it, spec, label):
        if spec == "ty":
            t = z3.Const(it.namer.fresh(label), TyS)
            it.sadd(wf(t))
            return VTy(t)
        if spec == "schema":
            return VSchema(z3.Const(it.namer.fresh(label), SchemaS))
        if spec == "opt:ty":
            if it.choose(2, "opt ty") == 0:
                return sym.atom(None)
            return fresh_ext(it, "ty", label)
        return prev_fresh(it, spec, label) if prev_fresh else None
    w.fresh_ext = fresh_ext

    prev_truth_ext = getattr(w, "truth_ext", None)
    w.truth_ext = lambda it, v: z3.BoolVal(True) if isinstance(v, (VTy, VSchema)) else (
        prev_truth_ext(it, v) if prev_truth_ext else None)

    prev_conc = w.concretize

    def concretize(model, v, it):
        if isinstance(v, VTy):
            return {"__type__": ty_chain(model, v.t)}
        if isinstance(v, VRef) and getattr(v.cls, "__name__", "") == "GraphQLSchema":
            ev = lambda t: model.eval(t, model_completion=True)
            tys = []
            for pv in getattr(it, "param_syms", {}).values():
                if isinstance(pv, VTy):
                    t = pv.t
                    for _ in range(8):
                        tys.append(t)
                        if ev(tkind(t)).as_long() > 1:
                            break
                        t = of_type(t)
            rel = []
            for a in tys:
                for b2 in tys:
                    if z3.is_true(ev(possible(v.t, a, b2))):
                        pair = [str(ev(a)), str(ev(b2))]
                        if pair not in rel:
                            rel.append(pair)
            return {"__schema__": True, "possible": rel}
        return prev_conc(model, v, it)
    w.concretize = concretize

    def p(fn):
        def h(it, *a):
            from pyvc.codec import VOpt
            conds = []
            a = list(a)
            for i, x in enumerate(a):
                if isinstance(x, VOpt):      # Optional[type]: the predicate holds of the type, if any
                    conds.append(z3.Not(x.is_none))
                    a[i] = x.val
            if not all(isinstance(x, (VTy, VRef)) for x in a):
                return VBool(False)   # not a type object (e.g. None): no type predicate holds
            return VBool(z3.And(*conds, fn(*[x.t for x in a])) if conds else fn(*[x.t for x in a]))
        return h

    def f_named_of(it, t):
        x = t.val if hasattr(t, "is_none") else t
        if not isinstance(x, VTy):          # None: no type (clauses guard this case themselves)
            return VTy(z3.Const(it.namer.fresh("no_type"), TyS))
        return VTy(NAMEDOF(x.t))

    def f_opt_is(it, o, t):
        """an Optional[type] value is (not None and) the given type object"""
        from pyvc.codec import VOpt
        if isinstance(o, VOpt) and isinstance(o.val, VTy) and isinstance(t, VTy):
            return VBool(z3.And(z3.Not(o.is_none), o.val.t == t.t))
        if isinstance(o, VTy) and isinstance(t, VTy):
            return VBool(o.t == t.t)
        return VBool(False)

    def f_kind_is(it, t, name):
        from pyvc.codec import VOpt
        if isinstance(t, VOpt) and isinstance(t.val, VTy):
            return VBool(z3.And(z3.Not(t.is_none), tkind(t.val.t) == K[name.lit]))
        if isinstance(t, VTy):
            return VBool(tkind(t.t) == K[name.lit])
        return VBool(False)   # None / other values have no kind
    w.spec_funcs.update({
        "EqT": p(EQT), "Sub": p(SUB), "Compat": p(COMPAT), "SameShapeW": p(SHAPE),
        "InputTy": p(INPUT), "OutputTy": p(OUTPUT),
        "NonNull": p(nn), "ListTy": p(lst), "NamedTy": p(named), "LeafTy": p(leaf),
        "possible": p(possible),
        "of": lambda it, t: VTy(of_type(t.t)),
        "NamedOf": f_named_of, "opt_is": f_opt_is,
        "ty_rank": lambda it, t: VInt(rank(t.t)),
        "kind_is": f_kind_is,
        "abstract_ty": p(lambda t: z3.Or(tkind(t) == K["INTERFACE"], tkind(t) == K["UNION"])),
        "composite_ty": p(lambda t: z3.Or(tkind(t) == K["OBJECT"], tkind(t) == K["INTERFACE"],
                                          tkind(t) == K["UNION"])),
    })
