"""Input validity (DESIGN.md 3.5): the specification's input coercion rules as predicates.

  Valid(v, T)  "v coerces to T"         Conf(r, T)  "r is a conforming coerced result for T"
unfolded once per type kind (term-driven):
  NonNull(T):    Valid(v,T) = v is neither None nor Undefined, and Valid(v, T.of_type)
  otherwise      v None/Undefined  =>  Valid
  List(T):       Valid(v,T) = ListOk(v, T.of_type, len(v)) if v is iterable else Valid(v, T.of_type)
                 (the "single item" rule); ListOk is the index-recursive "all items valid"
  leaf T:        Valid(v,T) = the leaf's input coercer returns a defined value without raising
                 = not leaf_raises(T,v) and leaf_val(T,v) is not Undefined
  input object:  ObjValid(v,T)   (uninterpreted at this stage: contracts that need it require NoObj)
Leaf coercers (also user supplied ones) are modelled as *functions* of their argument
(leaf_raises, leaf_gql, leaf_val): assumption A5'.
"""
import z3

from pyvc import sym
from pyvc.rec import IndexRec, RecTheory, _has_var
from pyvc.sym import VBool, VDyn, VInt, VFunc, VOpaque, Unsupported, TAGS as T
from theories import gtypes as G

ValS, TyS = sym.ValS, G.TyS
VALID = z3.Function("Valid", ValS, TyS, sym.B)
CONF = z3.Function("Conf", ValS, TyS, sym.B)
OBJVALID = z3.Function("ObjValid", ValS, TyS, sym.B)
OBJCONF = z3.Function("ObjConf", ValS, TyS, sym.B)
LEAF_RAISES = z3.Function("leaf_raises", TyS, ValS, sym.B)
LEAF_GQL = z3.Function("leaf_raises_graphql_error", TyS, ValS, sym.B)
LEAF_VAL = z3.Function("leaf_val", TyS, ValS, ValS)
LEAFCONF = z3.Function("LeafConf", TyS, ValS, sym.B)
ITERABLE = z3.Function("iterable_v", ValS, sym.B)
NOOBJ = z3.Function("NoObj", TyS, sym.B)

REC = RecTheory()
LISTOK = REC.add(IndexRec("ListOk", [ValS, TyS], sym.B,
                          base=lambda v, t: z3.BoolVal(True),
                          step=lambda v, t, i, prev: z3.And(prev, VALID(sym.v_item(v, i), t)),
                          kind="all"))
LISTCONF = REC.add(IndexRec("ListConf", [ValS, TyS], sym.B,
                            base=lambda v, t: z3.BoolVal(True),
                            step=lambda v, t, i, prev: z3.And(prev, CONF(sym.v_item(v, i), t)),
                            kind="all"))


def none(v):
    return sym.tag(v) == T["none"]


def undef(v):
    return sym.tag(v) == T["undefined"]


def def_valid(v, t):
    o = G.of_type(t)
    return VALID(v, t) == z3.If(
        G.nn(t), z3.And(z3.Not(none(v)), z3.Not(undef(v)), VALID(v, o)),
        z3.If(z3.Or(none(v), undef(v)), True,
              z3.If(G.lst(t), z3.If(ITERABLE(v), LISTOK(v, o, sym.v_len(v)), VALID(v, o)),
                    z3.If(G.tkind(t) == G.K["INPUT_OBJECT"], OBJVALID(v, t),
                          z3.And(z3.Not(LEAF_RAISES(t, v)), z3.Not(undef(LEAF_VAL(t, v))))))))


def def_conf(r, t):
    o = G.of_type(t)
    return CONF(r, t) == z3.If(
        G.nn(t), z3.And(z3.Not(none(r)), CONF(r, o)),
        z3.If(none(r), True,
              z3.If(G.lst(t), z3.And(sym.tag(r) == T["list"], all_conf(r, o)),
                    z3.If(G.tkind(t) == G.K["INPUT_OBJECT"], OBJCONF(r, t), LEAFCONF(t, r)))))


def all_conf(r, o):
    j = z3.Int("j!conf")
    return z3.ForAll([j], z3.Implies(z3.And(0 <= j, j < sym.v_len(r)), CONF(sym.v_item(r, j), o)),
                     patterns=[sym.v_item(r, j)])


def def_noobj(t):
    return NOOBJ(t) == z3.If(z3.Or(G.nn(t), G.lst(t)), NOOBJ(G.of_type(t)),
                             G.tkind(t) != G.K["INPUT_OBJECT"])


def iterable_facts(v):
    tg = sym.tag(v)
    return z3.And(
        z3.Implies(z3.Or(tg == T["list"], tg == T["tuple"], tg == T["set"]), ITERABLE(v)),
        z3.Implies(z3.Or(tg == T["str"], tg == T["dict"], tg == T["int"], tg == T["float"],
                         tg == T["bool"], tg == T["none"], tg == T["undefined"],
                         tg == T["bytes"], tg == T["atom"]), z3.Not(ITERABLE(v))))


class InputsTheory:
    DEPTH = 2

    def reset(self, it):
        it._in_done = set()
        it._in_seen = set()
        it._in_keep = []

    def snapshot(self, it):
        return (set(it._in_done), set(it._in_seen))

    def restore(self, it, snap):
        it._in_done, it._in_seen = snap

    def saturate(self, it, formulas):
        work = []
        added = []
        for f in formulas:
            if isinstance(f, tuple):
                if f[1] <= self.DEPTH:
                    self.collect(it, f[0], work, f[1])
            else:
                self.collect(it, f, work, 0)
        while work:
            name, args, depth = work.pop()
            key = (name,) + tuple(a.get_id() for a in args)
            if key in it._in_done:
                continue
            it._in_done.add(key)
            it._in_keep.extend(args)
            if name == "Valid":
                new = [def_valid(*args)]
            elif name == "Conf":
                new = [def_conf(*args)]
            elif name == "NoObj":
                new = [def_noobj(*args)]
            elif name == "iterable_v":
                new = [iterable_facts(*args)]
            elif name == "leaf_val":
                # a defined leaf result conforms to its type (definition of LeafConf on the image)
                t, v = args
                new = [z3.Implies(z3.Not(LEAF_RAISES(t, v)), z3.Or(undef(LEAF_VAL(t, v)),
                                                                   LEAFCONF(t, LEAF_VAL(t, v)))),
                       z3.Implies(LEAF_GQL(t, v), LEAF_RAISES(t, v)),
                       # A5': a leaf coercer does not turn a value into None
                       z3.Implies(z3.Not(none(v)), z3.Not(none(LEAF_VAL(t, v))))]
            else:
                continue
            for f in new:
                it.S.add(f)
                added.append((f, depth + 1))
                if depth < self.DEPTH:
                    self.collect(it, f, work, depth + 1)
        return added

    def collect(self, it, f, work, depth):
        stack = [f]
        seen = it._in_seen
        while stack:
            e = stack.pop()
            i = e.get_id()
            if i in seen:
                continue
            seen.add(i)
            it._in_keep.append(e)
            if z3.is_quantifier(e):
                stack.append(e.body())
                continue
            if not z3.is_app(e):
                continue
            nm = e.decl().name()
            if nm in ("Valid", "Conf", "NoObj", "iterable_v", "leaf_val") and not _has_var(e):
                work.append((nm, e.children(), depth))
            stack.extend(e.children())


def install(w):
    w.theories.append(REC)
    w.theories.append(InputsTheory())
    VTy = G.VTy

    def p(fn):
        return lambda it, *a: VBool(fn(*[x.t for x in a]))

    def dyn_t(it, v):
        return v.t if isinstance(v, VDyn) else w.to_dyn(it, v).t

    w.spec_funcs.update({
        "Valid": lambda it, v, t: VBool(VALID(dyn_t(it, v), t.t)),
        "Conf": lambda it, r, t: VBool(CONF(dyn_t(it, r), t.t)),
        "NoObj": p(NOOBJ),
        "ListOk": lambda it, v, t, i: VBool(LISTOK(dyn_t(it, v), t.t, it.as_int(i, None))),
        "ListConf": lambda it, v, t, i: VBool(LISTCONF(dyn_t(it, v), t.t, it.as_int(i, None))),
        "iterable_v": lambda it, v: VBool(ITERABLE(dyn_t(it, v))),
        "vlen": lambda it, v: VInt(sym.v_len(dyn_t(it, v))),
        "is_list": lambda it, v: VBool(sym.tag(dyn_t(it, v)) == T["list"]),
        "is_dict": lambda it, v: VBool(sym.tag(dyn_t(it, v)) == T["dict"]),
        "vitem": lambda it, v, j: VDyn(sym.v_item(dyn_t(it, v), it.as_int(j, None))),
    })

    # ---- iteration over a dynamic value ----------------------------------------------------------
    prev_seq = w.as_sequence_ext

    def as_sequence_ext(it, v, node):
        if isinstance(v, VDyn):
            from pyvc.world import Seq
            w.trusted_used.add("iterating a dynamic iterable yields item(v, 0..len(v)-1): iterables "
                               "are re-iterable collections with a fixed item sequence")
            it.guard(ITERABLE(v.t), TypeError, node, "SAFE-Type")
            return Seq(length=sym.v_len(v.t), item=lambda i: VDyn(sym.v_item(v.t, i)))
        return prev_seq(it, v, node)
    w.as_sequence_ext = as_sequence_ext

    # ---- lists built by the code: box as dyn with known items (for Conf of the result) ----------
    prev_to_dyn = w.to_dyn

    def to_dyn(it, v):
        from pyvc.sym import VList
        if isinstance(v, VList):
            L = it.st.lists[v.oid]
            d = it.fresh_dyn("boxlist")
            it.sadd(z3.And(sym.tag(d.t) == T["list"], sym.v_len(d.t) == L.len))
            if L.items is not None:
                for k, x in enumerate(L.items):
                    if isinstance(x, VDyn):
                        it.sadd(sym.v_item(d.t, k) == x.t)
            elif L.arrays is not None and L.spec == "dyn":
                j = z3.Int(it.namer.fresh("j"))
                it.sadd(z3.ForAll([j], sym.v_item(d.t, j) == z3.Select(L.arrays[0], j),
                                  patterns=[sym.v_item(d.t, j)]))
            return d
        return prev_to_dyn(it, v)
    w.to_dyn = to_dyn

    # ---- leaf types: the input coercer is a function of its argument (A5') -----------------------
    prev_type_attr = w.type_attr

    def type_attr(it, v, attr, node):
        if attr == "coerce_input_value":
            return VFunc(None, recv=v, builtin="leaf.coerce_input_value", name=attr)
        if attr == "coerce_output_value":
            return VFunc(None, recv=v, builtin="leaf.coerce_output_value", name=attr)
        if attr in ("coerce_input_literal", "parse_literal", "parse_value", "serialize",
                    "value_to_literal"):
            # user supplied (or default) callables of a leaf type; coerce_input_literal may be None
            from pyvc.sym import atom
            has = z3.Function("leaf_has_" + attr, TyS, sym.B)(v.t)
            fn = z3.Function("leaf_fn_" + attr, TyS, ValS)(v.t)
            it.sadd(z3.Implies(G.tkind(v.t) == G.K["ENUM"], has))   # enums always have one
            if attr in ("coerce_input_literal", "value_to_literal") and not it.decide(has):
                return atom(None)
            it.sadd(sym.tag(fn) == T["other"])
            return VDyn(fn)
        return prev_type_attr(it, v, attr, node)
    w.type_attr = type_attr

    def leaf_coerce(it, f, args, kw, node):
        ty = f.recv
        v = args[0]
        d = dyn_t(it, v)
        w.trusted_used.add("leaf_type.coerce_input_value(v) is a function of (type, v): it raises "
                           "GraphQLError, raises another Exception, or returns leaf_val(type, v) (A5')")
        from pyvc.interp import _Raise, VExc
        from graphql.error import GraphQLError
        k = it.choose(3, "leaf coercer outcome")
        if k == 0:
            it.assume(z3.Not(LEAF_RAISES(ty.t, d)))
            if not it.feasible():
                from pyvc.interp import _PathEnd
                raise _PathEnd()
            return VDyn(LEAF_VAL(ty.t, d))
        if k == 1:
            it.assume(z3.And(LEAF_RAISES(ty.t, d), LEAF_GQL(ty.t, d)))
            cls = GraphQLError
        else:
            it.assume(z3.And(LEAF_RAISES(ty.t, d), z3.Not(LEAF_GQL(ty.t, d))))
            cls = Exception
        if not it.feasible():
            from pyvc.interp import _PathEnd
            raise _PathEnd()
        raise _Raise(VExc(cls, origin="leaf coercer", okind="RAISES", exact=True,
                          lineno=getattr(node, "lineno", 0)))
    w.builtins["leaf.coerce_input_value"] = leaf_coerce

    LEAF_OUT = z3.Function("leaf_out", TyS, ValS, ValS)

    def leaf_coerce_output(it, f, args, kw, node):
        """A leaf type's output coercer: any value or any Exception (also user supplied ones)."""
        w.trusted_used.add("leaf_type.coerce_output_value(v): returns some value or raises some "
                           "Exception (A5); built-in scalars are verified separately (C16)")
        d = dyn_t(it, args[0])
        if it.choose(2, "leaf output coercer outcome") == 1:
            w.raise_any(it, node)
        return VDyn(LEAF_OUT(f.recv.t, d))
    w.builtins["leaf.coerce_output_value"] = leaf_coerce_output
