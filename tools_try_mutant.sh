#!/bin/sh
# usage: tools_try_mutant.sh <patch.diff> <runner patterns...>   (scratch worktree /tmp/scratch)
P="$1"; shift
git -C /tmp/scratch checkout -q -- . && git -C /tmp/scratch apply "$P" || exit 9
cd /verif && VERIF_REPO=/tmp/scratch PYTHONPATH=/tmp/scratch/src python3-vt -m pyvc.runner "$@" 2>&1 | cut -c1-420
git -C /tmp/scratch checkout -q -- .
