#!/usr/bin/env python3
"""Regenerates MANIFEST.json from the property modules (run by hand after adding a check)."""
import importlib, json, os, sys
ROOT = os.path.dirname(os.path.abspath(__file__))
sys.path.insert(0, ROOT)
props = [json.loads(l) for l in open(os.path.join(ROOT, "properties.jsonl"))]
NA = {
 "C04": "relation between a payload stream produced under every completion order and a second execution, through async IncrementalExecutor/WorkQueue/Publisher: no contract on a synchronous function expresses it (DESIGN.md 4, C04)",
 "C05": "whole-history protocol property of an event-driven async state machine (exactly-once announce/complete, ordering): needs a trace invariant over asyncio callbacks, outside contract-based function verification (DESIGN.md 4, C05)",
 "C06": "liveness, event-loop quiescence, task lifetimes and exactly-once finalisation under cancellation at every await point: none is a postcondition of a function (DESIGN.md 4, C06)",
 "C07": "ordering/termination of an async generator over a user-supplied async iterator; per-event equality would need C02 in full (DESIGN.md 4, C07)",
 "C17": "end-to-end algebraic law build(print(s)) == s over ~3500 lines of object construction with thunks/cached_property/match; no function postcondition carries it and the subset cannot encode the chain (DESIGN.md 4, C17-C19)",
 "C18": "end-to-end law client(introspect(s)) == s through the executor and the introspection resolvers; same reason as C17 (DESIGN.md 4, C17-C19)",
 "C19": "algebraic laws (extend == build, sort idempotent, diff reflexive) over whole schemas; same reason as C17 (DESIGN.md 4, C17-C19)",
}
checks, na = [], []
for p in props:
    pid = p["id"]
    try:
        m = importlib.import_module(f"props.{pid}")
    except ImportError:
        m = None
    if m is None or getattr(m, "DISABLED", False):
        na.append({"property_id": pid, "reason": NA.get(pid) or getattr(m, "NA_REASON", "check not built yet; see DESIGN.md section 0")})
        continue
    level = getattr(m, "LEVEL", "other")
    checks.append({
        "property_id": pid,
        "quick_cmd": f"./check {pid} --tier quick",
        "thorough_cmd": f"./check {pid} --tier thorough",
        "evidence_file": f"/verif/evidence/{pid}.json",
        "replay_cmd_template": f"./check {pid} --replay {{path}}",
        "engine": "pyvc",
        "level_claimed": {"category": level, "text": m.EXPLANATION, "design_ref": f"DESIGN.md section 4, {pid}"},
        "level_note": "Trusted base: the pyvc VC generator and its models of Python built-ins (listed per run in the evidence file), z3 5.1; assumptions: " + "; ".join(getattr(m, "ASSUMPTIONS", [])) + ". Not decided: " + "; ".join(getattr(m, "UNVERIFIED", [])),
        "technique": getattr(m, "TECHNIQUE", "contract-based deductive verification: side-car contracts on the real functions, VCs generated from the current source by symbolic execution (pyvc), discharged by z3"),
    })
man = {
 "version": 1,
 "setup_cmd": "python3-vt -m compileall -q pyvc contracts theories props >/dev/null && PYTHONPATH=/repo/src:/verif python3-vt -m pyvc.selfcheck",
 "hooks": {"guard": "GRAPHQL_CORE_VERIF", "enable": "no hooks: contracts are side-car files under /verif/contracts; /repo is read (ast) and imported, never instrumented", "baseline_off_cmd": "cd /repo && /venv/bin/python -m pytest -ra -q -p no:cacheprovider --timeout=900", "source_commits": [], "add_only": True},
 "engines": [{"name": "pyvc", "path": "/verif/pyvc", "serves_properties": [c["property_id"] for c in checks], "kind_free_text": "deductive verifier for a Python subset: ast of the real source -> symbolic execution -> VCs -> z3; contracts in /verif/contracts, ghost theories in /verif/theories"}],
 "checks": checks,
 "notes": "Exit codes of ./check: 0 held, 1 VIOLATION (replayed counter-model, or regressed baseline obligation marked no-failing-input-found), 2 undecided (solver unknown / construct outside the subset / obligation not regenerated), 3 checker error. Fix commits made in /repo are listed in KNOWN_FINDINGS.json.",
 "not_applicable": na,
}
json.dump(man, open(os.path.join(ROOT, "MANIFEST.json"), "w"), indent=1)
print("checks:", [c["property_id"] for c in checks])
