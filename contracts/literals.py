"""Side-car contracts for coerce_input_literal / validate_input_literal_impl (C15): one-sided
(necessary-condition) contracts on the decisions both functions must agree on."""

CV = "graphql.utilities.coerce_input_value"
VV = "graphql.utilities.validate_input_value"


def install(w):
    import graphql.language.ast as A
    for n in ("ObjectValueNode", "ObjectFieldNode", "ListValueNode", "NullValueNode", "VariableNode",
              "ValueNode"):
        w.class_aliases[n] = getattr(A, n)
    w.shape("ValueNode", fields=("list", "ref:ObjectFieldNode"), values=("list", "ref:ValueNode"),
            name="ref:NameNode", kind="str", loc="opaque")
    w.shape("ObjectFieldNode", name="ref:NameNode", value="ref:ValueNode", kind="str", loc="opaque")

    w.contract(f"{CV}.get_coerced_variable_value",
               params={"variable_node": "ref:ValueNode", "variable_values": "opaque",
                       "fragment_variable_values": "opaque"}, returns="dyn", ensures=[],
               assumed=True)
    w.contract(f"{CV}._is_missing_variable",
               params={"variable_node": "ref:ValueNode", "variable_values": "opaque",
                       "fragment_variable_values": "opaque"}, returns="bool", ensures=[],
               assumed=True)
    w.contract(f"{CV}._variable_value_is_null",
               params={"variable_node": "ref:ValueNode", "variable_values": "opaque",
                       "fragment_variable_values": "opaque"}, returns="bool", ensures=[],
               assumed=True)
    w.contract(f"{CV}.coerce_default_value", params={"input_value": "ref:GraphQLInputField"},
               # raises TypeError only for an invalid default (excluded by schema validity, A7)
               returns="dyn", ensures=[], raises=[], assumed=True)
    w.contract("graphql.utilities.replace_variables.replace_variables",
               params={"value_node": "ref:ValueNode", "variable_values": "opaque",
                       "fragment_variable_values": "opaque"}, returns="ref:ValueNode", ensures=[],
               assumed=True)

    w.define("RequiredField", "f", "NonNull(f.type) and f.default is None and is_undefined(f.default_value)")
    w.define("IsVar", "n", "instance_of_ref(n, 'VariableNode')")
    w.define("IsNull", "n", "instance_of_ref(n, 'NullValueNode')")
    w.define("IsObj", "n", "instance_of_ref(n, 'ObjectValueNode')")
    LIT = {"value_node": "ref:ValueNode", "type_": "ty", "variable_values": "opt:ref:VariableValues",
           "fragment_variable_values": "opt:ref:FragmentVariableValues"}
    w.contract(f"{CV}.coerce_input_literal", params=LIT, returns="dyn",
               requires=["InputTy(type_)"],
               ensures=[
                   # null literal under non-null
                   "implies(not IsVar(value_node) and NonNull(type_) and IsNull(value_node), is_undefined(result))",
                   "implies(not IsVar(value_node) and not NonNull(type_) and IsNull(value_node), is_none(result))",
                   # input object types need an object literal
                   "implies(not IsVar(value_node) and not IsNull(value_node) and kind_is(type_, 'INPUT_OBJECT')"
                   " and not IsObj(value_node), is_undefined(result))",
                   # OneOf: exactly one field entry (entries, not distinct names)
                   "implies(not IsVar(value_node) and not IsNull(value_node) and kind_is(type_, 'INPUT_OBJECT')"
                   " and IsObj(value_node) and type_.is_one_of and len(value_node.fields) != 1,"
                   " is_undefined(result))",
               ],
               # the only exceptions are those of a user supplied out_type (A5)
               raises=["Exception"], modifies=[], valid_schema=True,
               ghost_calls=["literal_coerced"],
               # the field loop of the input-object branch: a field without an entry makes the
               # literal invalid exactly when the field is required (non-null and no default of
               # either kind); otherwise its default, if any, is used
               # the recursion descends with the right operands: the wrapped type for non-null
               # and list types (a non-list literal for a list type is coerced against the ITEM type,
               # so nested lists wrap recursively), the field's own type for input object fields
               call_pre={
                   "coerce_input_literal#1": ["arg_type_ is of(type_)", "arg_value_node is value_node"],
                   "coerce_input_literal#2": ["arg_type_ is of(type_)", "arg_value_node is value_node"],
                   "coerce_input_literal#3": ["arg_type_ is of(type_)", "arg_value_node is item_node"],
                   "coerce_input_literal#4": ["arg_type_ is field.type",
                                              "arg_value_node is field_node.value"]},
               loops={2: {"return_post": [
                              "implies(field_node is None and is_undefined(result), RequiredField(field))"],
                          "step_post": [
                              "implies(field_node is None, not RequiredField(field))"]}},
               props={"C15", "C13"})


def install_validate_literal(w):
    w.alias("LitValidationContext", f"{VV}.ValidationContext")
    CTX = ("tuple", "bool", ("callback", "errs"), "opt:ref:VariableValues",
           "opt:ref:FragmentVariableValues")
    w.contract(f"{VV}.report_invalid_literal",
               params={"on_error": ("callback", "errs"), "message": "str", "value_node": "opaque",
                       "path": "opt:ntuple:Path", "original_error": "opaque"},
               ensures=["ghost('errs') == old(ghost('errs')) + 1"], raises=["Exception"],
               ghost_modifies=["errs"], modifies=[], props={"C15"})
    w.contract(f"{VV}.get_scoped_variable_values",
               params={"context": "opaque", "value_node": "ref:ValueNode"},
               returns="opt:ref:VariableValues", ensures=[], assumed=True)
    w.contract(f"{VV}.get_one_of_input_object_error_message", params={"type_": "ty"},
               returns="str", ensures=[], assumed=True)
    w.contract("graphql.pyutils.did_you_mean.did_you_mean", params={"suggestions": "opaque"},
               returns="str", ensures=[], assumed=True)
    w.contract("graphql.pyutils.suggestion_list.suggestion_list",
               params={"input_": "str", "options": "opaque"}, returns=("list", "str"), ensures=[],
               assumed=True)
    w.contract(f"{VV}.validate_input_literal_impl",
               params={"context": "lit_ctx", "value_node": "ref:ValueNode", "type_": "ty",
                       "hide_suggestions": "bool", "path": "opt:ntuple:Path"},
               requires=["InputTy(type_)"],
               ensures=[
                   "ghost('errs') >= old(ghost('errs'))",
                   # a null literal under non-null is reported
                   "implies(not IsVar(value_node) and NonNull(type_) and IsNull(value_node),"
                   " ghost('errs') > old(ghost('errs')))",
                   # an input object type needs an object literal
                   "implies(not IsVar(value_node) and not IsNull(value_node) and kind_is(type_, 'INPUT_OBJECT')"
                   " and not IsObj(value_node), ghost('errs') > old(ghost('errs')))",
                   # OneOf: anything but exactly one field entry is reported
                   "implies(not IsVar(value_node) and not IsNull(value_node) and kind_is(type_, 'INPUT_OBJECT')"
                   " and IsObj(value_node) and type_.is_one_of and len(value_node.fields) != 1,"
                   " ghost('errs') > old(ghost('errs')))",
               ],
               raises=["Exception"], ghost_modifies=["errs"], modifies=[], valid_schema=True,
               locals={"known_fields": ("list", "ref:ObjectFieldNode")},
               call_pre={
                   "validate_input_literal_impl#1": ["arg_type_ is of(type_)", "arg_value_node is value_node"],
                   "validate_input_literal_impl#2": ["arg_type_ is of(type_)", "arg_value_node is value_node"],
                   "validate_input_literal_impl#3": ["arg_type_ is of(type_)", "arg_value_node is item_node"],
                   "validate_input_literal_impl#4": ["arg_type_ is field.type",
                                                     "arg_value_node is field_value_node"]},
               loop_all=["ghost('errs') >= old(ghost('errs'))"],
               loops={2: {"iter_post": [
                   # a field without an entry is reported exactly when it is required
                   "implies(field_node is None and RequiredField(field),"
                   " ghost('errs') > at_iter_start(ghost('errs')))",
                   "implies(field_node is None and not RequiredField(field),"
                   " ghost('errs') == at_iter_start(ghost('errs')))"]},
                      3: {"invariant": [
                   "ghost('errs') >= old(ghost('errs'))",
                   # every entry seen so far is known, or an unknown field has been reported
                   "ghost('errs') > old(ghost('errs')) or len(known_fields) == _i"]}},
               props={"C15", "C20"})


_lit_prev = install


def install(w):   # noqa: F811
    _lit_prev(w)
    install_validate_literal(w)


def install_value_to_literal(w):
    VL = "graphql.utilities.value_to_literal"
    w.contract(f"{VL}.default_scalar_value_to_literal", params={"value": "dyn"},
               returns="opt:ref:ValueNode", ensures=[], raises=["Exception"], assumed=True)
    w.contract(f"{VL}.value_to_literal", params={"value": "dyn", "type_": "ty"},
               returns="opt:ref:ValueNode", requires=["InputTy(type_)"], ensures=[],
               raises=["Exception"], modifies=[], valid_schema=True,
               locals={"fields": ("list", "ref:ObjectFieldNode"), "values": ("list", "ref:ValueNode")},
               loops={2: {"step_post": [
                   # every provided field (None included) gets a field entry in the literal;
                   # only Undefined ones are left out
                   "len(fields) == at_iter_start(len(fields)) + ite(is_undefined(field_value), 0, 1)"]}},
               props={"C15"})


_lit_prev2 = install


def install(w):   # noqa: F811
    _lit_prev2(w)
    install_value_to_literal(w)
