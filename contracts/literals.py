"""Side-car contracts for coerce_input_literal / validate_input_literal_impl (C15): one-sided
(necessary-condition) contracts on the decisions both functions must agree on."""

CV = "graphql.utilities.coerce_input_value"
VV = "graphql.utilities.validate_input_value"


def install(w):
    import graphql.language.ast as A
    for n in ("ObjectValueNode", "ObjectFieldNode", "ListValueNode", "NullValueNode", "VariableNode",
              "ValueNode"):
        w.class_aliases[n] = getattr(A, n)
    w.shape("ValueNode", fields=("list", "ref:ObjectFieldNode"), values=("list", "ref:ValueNode"),
            name="ref:NameNode", kind="str", loc="opaque")
    w.shape("ObjectFieldNode", name="ref:NameNode", value="ref:ValueNode", kind="str", loc="opaque")

    # the scope of a variable is decided by `sources` (a fragment variable that is declared shadows
    # the operation variable of the same name even when it has no value), the value comes from
    # `coerced` of that scope: the same rule as get_scoped_variable_values on the validation side
    w.contract(f"{CV}.get_coerced_variable_value",
               params={"variable_node": "ref:ValueNode", "variable_values": "opt:ref:VariableValues",
                       "fragment_variable_values": "opt:ref:FragmentVariableValues"}, returns="dyn",
               # (the converse needs "no stored value is Undefined", an invariant of the variable
               # coercion that is not in reach here)
               ensures=["implies(not var_has_value(variable_node, variable_values, fragment_variable_values),"
                        " is_undefined(result))"],
               raises=[], modifies=[], props={"C15", "C13", "C02"})
    w.contract(f"{CV}._is_missing_variable",
               params={"variable_node": "ref:ValueNode", "variable_values": "opaque",
                       "fragment_variable_values": "opaque"}, returns="bool", ensures=[],
               assumed=True)
    w.contract(f"{CV}._variable_value_is_null",
               params={"variable_node": "ref:ValueNode", "variable_values": "opaque",
                       "fragment_variable_values": "opaque"}, returns="bool", ensures=[],
               assumed=True)
    w.contract("graphql.utilities.replace_variables.replace_variables",
               params={"value_node": "ref:ValueNode", "variable_values": "opaque",
                       "fragment_variable_values": "opaque"}, returns="ref:ValueNode", ensures=[],
               assumed=True)

    w.define("RequiredField", "f", "NonNull(f.type) and f.default is None and is_undefined(f.default_value)")
    w.define("IsVar", "n", "instance_of_ref(n, 'VariableNode')")
    w.define("IsNull", "n", "instance_of_ref(n, 'NullValueNode')")
    w.define("IsObj", "n", "instance_of_ref(n, 'ObjectValueNode')")
    LIT = {"value_node": "ref:ValueNode", "type_": "ty", "variable_values": "opt:ref:VariableValues",
           "fragment_variable_values": "opt:ref:FragmentVariableValues"}
    w.contract(f"{CV}.coerce_input_literal", params=LIT, returns="dyn",
               requires=["InputTy(type_)"],
               ensures=[
                   # null literal under non-null
                   "implies(not IsVar(value_node) and NonNull(type_) and IsNull(value_node), is_undefined(result))",
                   "implies(not IsVar(value_node) and not NonNull(type_) and IsNull(value_node), is_none(result))",
                   # input object types need an object literal
                   "implies(not IsVar(value_node) and not IsNull(value_node) and kind_is(type_, 'INPUT_OBJECT')"
                   " and not IsObj(value_node), is_undefined(result))",
                   # OneOf: exactly one field entry (entries, not distinct names)
                   "implies(not IsVar(value_node) and not IsNull(value_node) and kind_is(type_, 'INPUT_OBJECT')"
                   " and IsObj(value_node) and type_.is_one_of and len(value_node.fields) != 1,"
                   " is_undefined(result))",
               ],
               # the only exceptions are those of a user supplied out_type (A5)
               raises=["Exception"], modifies=[], valid_schema=True,
               ghost_calls=["literal_coerced"],
               # the field loop of the input-object branch: a field without an entry makes the
               # literal invalid exactly when the field is required (non-null and no default of
               # either kind); otherwise its default, if any, is used
               # the recursion descends with the right operands: the wrapped type for non-null
               # and list types (a non-list literal for a list type is coerced against the ITEM type,
               # so nested lists wrap recursively), the field's own type for input object fields
               call_pre={
                   "coerce_input_literal#1": ["arg_type_ is of(type_)", "arg_value_node is value_node"],
                   "coerce_input_literal#2": ["arg_type_ is of(type_)", "arg_value_node is value_node"],
                   "coerce_input_literal#3": ["arg_type_ is of(type_)", "arg_value_node is item_node"],
                   "coerce_input_literal#4": ["arg_type_ is field.type",
                                              "arg_value_node is field_node.value"]},
               loops={2: {"return_post": [
                              "implies(field_node is None and is_undefined(result), RequiredField(field))"],
                          "step_post": [
                              "implies(field_node is None, not RequiredField(field))"]}},
               props={"C15", "C13", "C02"})


def install_validate_literal(w):
    w.alias("LitValidationContext", f"{VV}.ValidationContext")
    CTX = ("tuple", "bool", ("callback", "errs"), "opt:ref:VariableValues",
           "opt:ref:FragmentVariableValues")
    w.contract(f"{VV}.report_invalid_literal",
               params={"on_error": ("callback", "errs"), "message": "str", "value_node": "opaque",
                       "path": "opt:ntuple:Path", "original_error": "opaque"},
               ensures=["ghost('errs') == old(ghost('errs')) + 1"], raises=["Exception"],
               ghost_modifies=["errs"], modifies=[], props={"C15"})
    w.contract(f"{VV}.get_scoped_variable_values",
               params={"context": "opaque", "value_node": "ref:ValueNode"},
               returns="opt:ref:VariableValues", ensures=[], assumed=True)
    w.contract(f"{VV}.get_one_of_input_object_error_message", params={"type_": "ty"},
               returns="str", ensures=[], assumed=True)
    w.contract("graphql.pyutils.did_you_mean.did_you_mean", params={"suggestions": "opaque"},
               returns="str", ensures=[], assumed=True)
    w.contract("graphql.pyutils.suggestion_list.suggestion_list",
               params={"input_": "str", "options": "opaque"}, returns=("list", "str"), ensures=[],
               assumed=True)
    w.contract(f"{VV}.validate_input_literal_impl",
               params={"context": "lit_ctx", "value_node": "ref:ValueNode", "type_": "ty",
                       "hide_suggestions": "bool", "path": "opt:ntuple:Path"},
               requires=["InputTy(type_)"],
               ensures=[
                   "ghost('errs') >= old(ghost('errs'))",
                   # a null literal under non-null is reported
                   "implies(not IsVar(value_node) and NonNull(type_) and IsNull(value_node),"
                   " ghost('errs') > old(ghost('errs')))",
                   # an input object type needs an object literal
                   "implies(not IsVar(value_node) and not IsNull(value_node) and kind_is(type_, 'INPUT_OBJECT')"
                   " and not IsObj(value_node), ghost('errs') > old(ghost('errs')))",
                   # OneOf: anything but exactly one field entry is reported
                   "implies(not IsVar(value_node) and not IsNull(value_node) and kind_is(type_, 'INPUT_OBJECT')"
                   " and IsObj(value_node) and type_.is_one_of and len(value_node.fields) != 1,"
                   " ghost('errs') > old(ghost('errs')))",
               ],
               raises=["Exception"], ghost_modifies=["errs"], modifies=[], valid_schema=True,
               locals={"known_fields": ("list", "ref:ObjectFieldNode")},
               call_pre={
                   "validate_input_literal_impl#1": ["arg_type_ is of(type_)", "arg_value_node is value_node"],
                   "validate_input_literal_impl#2": ["arg_type_ is of(type_)", "arg_value_node is value_node"],
                   "validate_input_literal_impl#3": ["arg_type_ is of(type_)", "arg_value_node is item_node"],
                   "validate_input_literal_impl#4": ["arg_type_ is field.type",
                                                     "arg_value_node is field_value_node"]},
               loop_all=["ghost('errs') >= old(ghost('errs'))"],
               loops={2: {"iter_post": [
                   # a field without an entry is reported exactly when it is required
                   "implies(field_node is None and RequiredField(field),"
                   " ghost('errs') > at_iter_start(ghost('errs')))",
                   "implies(field_node is None and not RequiredField(field),"
                   " ghost('errs') == at_iter_start(ghost('errs')))"]},
                      3: {"invariant": [
                   "ghost('errs') >= old(ghost('errs'))",
                   # every entry seen so far is known, or an unknown field has been reported
                   "ghost('errs') > old(ghost('errs')) or len(known_fields) == _i"]}},
               props={"C15", "C20", "C13"})


_lit_prev = install


def install(w):   # noqa: F811
    _lit_prev(w)
    install_validate_literal(w)


def install_value_to_literal(w):
    VL = "graphql.utilities.value_to_literal"
    w.contract(f"{VL}.default_scalar_value_to_literal", params={"value": "dyn"},
               returns="opt:ref:ValueNode", ensures=[], raises=["Exception"], assumed=True)
    w.contract(f"{VL}.value_to_literal", params={"value": "dyn", "type_": "ty"},
               returns="opt:ref:ValueNode", requires=["InputTy(type_)"], ensures=[],
               raises=["Exception"], modifies=[], valid_schema=True,
               locals={"fields": ("list", "ref:ObjectFieldNode"), "values": ("list", "ref:ValueNode")},
               loops={2: {"step_post": [
                   # every provided field (None included) gets a field entry in the literal;
                   # only Undefined ones are left out
                   "len(fields) == at_iter_start(len(fields)) + ite(is_undefined(field_value), 0, 1)"]}},
               props={"C15"})


_lit_prev2 = install


def install(w):   # noqa: F811
    _lit_prev2(w)
    install_value_to_literal(w)


def install_default_memo(w):
    """coerce_default_value memoises the coerced default on the GraphQLDefaultInput object, which can
    be shared by fields of different types (a schema and its extension, list wrappers of one named
    type).  The memo is verified against a specification function: CD(default, T) = the coercion of
    the default's literal (or value) for type T, where coerce_input_literal / coerce_input_value
    are taken to be functions of their arguments (assumed_ensures: purity, not proved).
      requires  the memo holds nothing, or a pair (T0, CD(default, T0))
      ensures   result == CD(default, input_value.type), and the memo again holds such a pair
    so a memo that is read for another type than it was filled for, or filled under another key
    than the type coerced for, fails."""
    import z3
    from pyvc import sym
    from pyvc.sym import VDyn, VBool
    from pyvc.refs import RefS
    from theories import gtypes as G
    from theories.val import TY_BOX, TY_UNBOX
    CILF = z3.Function("coerced_literal", RefS, G.TyS, sym.ValS)
    CIVF = z3.Function("coerced_value", sym.ValS, G.TyS, sym.ValS)

    def dyn(it, v):
        return v.t if isinstance(v, VDyn) else w.to_dyn(it, v).t
    def f_cil(it, n, t):
        from pyvc.codec import VOpt
        from pyvc.sym import VAtom, VOpaque
        if isinstance(n, VOpt):
            n = n.val
        if isinstance(n, (VAtom, VOpaque)):
            return it.fresh_dyn("undef")      # no literal: undefined operand of a guarded clause
        return VDyn(CILF(n.t, t.t))
    w.spec_funcs["CIL"] = f_cil
    w.spec_funcs["CIV"] = lambda it, v, t: VDyn(CIVF(dyn(it, v), t.t))
    w.spec_funcs["unbox_ty"] = lambda it, v: G.VTy(TY_UNBOX(dyn(it, v)))
    w.spec_funcs["is_boxed_ty"] = lambda it, v: VBool(TY_BOX(TY_UNBOX(dyn(it, v))) == dyn(it, v))
    w.mutable_ref_fields[("GraphQLDefaultInput", "_memoized_coerced_value")] = True
    w.contracts[f"{CV}.coerce_input_literal"].assumed_ensures = [
        "implies(variable_values is None and fragment_variable_values is None,"
        " same(result, CIL(value_node, type_)))"]
    w.contracts[f"{CV}.coerce_input_value"].assumed_ensures = [
        "same(result, CIV(input_value, type_))"]
    w.define("CD", "d, t", "ite_val(d.literal is not None, CIL(d.literal, t), CIV(d.value, t))")
    w.define("MemoOK", "d",
             "is_undefined(d._memoized_coerced_value) or (is_tuple(d._memoized_coerced_value)"
             " and vlen(d._memoized_coerced_value) == 2"
             " and is_boxed_ty(vitem(d._memoized_coerced_value, 0))"
             " and InputTy(unbox_ty(vitem(d._memoized_coerced_value, 0)))"
             " and same(vitem(d._memoized_coerced_value, 1),"
             " CD(d, unbox_ty(vitem(d._memoized_coerced_value, 0)))))")
    w.contract(f"{CV}.coerce_default_value", params={"input_value": "ref:GraphQLInputField"},
               returns="dyn",
               requires=["InputTy(input_value.type)"],
               # class invariant of GraphQLDefaultInput: set up by its constructor (memo Undefined),
               # kept by this function - the only other writer (finite check in props/C15.py)
               class_invariants=["implies(input_value.default is not None, MemoOK(input_value.default))"],
               ensures=["implies(input_value.default is not None,"
                        " same(result, CD(input_value.default, input_value.type)))",
                        "implies(input_value.default is not None, MemoOK(input_value.default))",
                        "implies(input_value.default is None, same(result, input_value.default_value))"],
               raises=["TypeError", "Exception"],
               on_raise={"TypeError": ["input_value.default is not None",
                                       "is_undefined(CD(input_value.default, input_value.type))"]},
               modifies=["self._memoized_coerced_value"], valid_schema=True,
               props={"C15", "C02", "C13"})


_lit_prev3 = install


def install(w):   # noqa: F811
    _lit_prev3(w)
    install_default_memo(w)
