"""Side-car contracts for graphql/type/scalars.py (C16, C15)."""

M = "graphql.type.scalars"
IN32 = "-2147483648 <= {0} <= 2147483647"


def install(w):
    # graphql.pyutils.inspect is used only to build messages: assumed total (returns a str)
    w.contract("graphql.pyutils.inspect.inspect", params={"value": "dyn"}, returns="str",
               ensures=[], assumed=True)
    w.contract("graphql.language.printer.print_ast", params={"ast": "dyn"}, returns="str",
               ensures=[], assumed=True)

    w.define("Numeric", "v", "is_int(v) or is_bool(v) or is_float(v)")
    w.define("IntLike32", "v",
             "(is_int(v) and -2147483648 <= int_of(v) <= 2147483647)"
             " or (is_integral_float(v) and -2147483648 <= float_int_of(v) <= 2147483647)")

    INT_POST = ["is_int(result)", IN32.format("int_of(result)")]
    # ---- Int -------------------------------------------------------------------------------
    w.contract(f"{M}.coerce_int_from_number", params={"value": "dyn"}, returns="int",
               requires=["Numeric(value)"],
               ensures=INT_POST + ["num_eq(result, value)"],
               raises=["GraphQLError"],
               on_raise={"GraphQLError": ["not IntLike32(value)"]},
               props={"C16", "C15"})
    w.contract(f"{M}.coerce_int_from_string", params={"value": "str"}, returns="int",
               ensures=INT_POST, raises=["GraphQLError"], props={"C16"})
    w.contract(f"{M}.serialize_int", params={"output_value": "dyn"}, returns="int",
               ensures=INT_POST + ["implies(Numeric(output_value), num_eq(result, output_value))"],
               raises=["GraphQLError"], props={"C16"})
    w.contract(f"{M}.coerce_int", params={"input_value": "dyn"}, returns="int",
               ensures=INT_POST + ["num_eq(result, input_value)",
                                   "is_int(input_value) or is_float(input_value)"],
               raises=["GraphQLError"],
               on_raise={"GraphQLError": ["not IntLike32(input_value)"]},
               props={"C16", "C15"})

    # ---- Float -----------------------------------------------------------------------------
    FLOAT_POST = ["is_finite_float(result)"]
    w.contract(f"{M}.coerce_float_from_number", params={"value": "dyn"}, returns="dyn",
               requires=["is_float(value)"],
               ensures=FLOAT_POST + ["num_eq(result, value)"], raises=["GraphQLError"],
               on_raise={"GraphQLError": ["not is_finite_float(value)"]},
               props={"C16", "C15"})
    w.contract(f"{M}.coerce_float_from_int", params={"value": "dyn"}, returns="dyn",
               requires=["is_int(value) or is_bool(value)"],
               # exactness: an int never comes out as a different number
               ensures=FLOAT_POST + ["num_eq(result, value)"], raises=["GraphQLError"],
               on_raise={"GraphQLError": ["not (-9007199254740992 <= int_of(value) <= 9007199254740992) or is_bool(value)"]},
               props={"C16", "C15"})
    w.contract(f"{M}.coerce_float_from_string", params={"value": "str"}, returns="dyn",
               ensures=FLOAT_POST, raises=["GraphQLError"], props={"C16"})
    w.contract(f"{M}.serialize_float", params={"output_value": "dyn"}, returns="dyn",
               ensures=["is_finite_float(result) or (is_bool(output_value) and is_int(result)"
                        " and 0 <= int_of(result) <= 1)",
                        "implies(Numeric(output_value), num_eq(result, output_value))"],
               raises=["GraphQLError"], props={"C16"})
    w.contract(f"{M}.coerce_float", params={"input_value": "dyn"}, returns="dyn",
               ensures=FLOAT_POST + ["num_eq(result, input_value)"], raises=["GraphQLError"],
               on_raise={"GraphQLError": [
                   "not (is_finite_float(input_value) or (is_int(input_value) and"
                   " -9007199254740992 <= int_of(input_value) <= 9007199254740992))"]},
               props={"C16", "C15"})

    # ---- String / Boolean / ID ---------------------------------------------------------------
    w.contract(f"{M}.coerce_string_from_number", params={"value": "dyn"}, returns="str",
               requires=["is_float(value)"], ensures=["is_str(result)"], raises=["GraphQLError"],
               props={"C16"})
    w.contract(f"{M}.serialize_string", params={"output_value": "dyn"}, returns="dyn",
               ensures=["is_str(result)", "implies(is_str(output_value), same(result, output_value))"],
               raises=["ValueError", "Exception"], props={"C16"})
    w.contract(f"{M}.coerce_string", params={"input_value": "dyn"}, returns="dyn",
               ensures=["is_str(result)", "same(result, input_value)"], raises=["GraphQLError"],
               on_raise={"GraphQLError": ["not is_str(input_value)"]}, props={"C16", "C15"})
    w.contract(f"{M}.coerce_boolean_from_number", params={"value": "dyn"}, returns="bool",
               requires=["is_float(value)"], ensures=["is_bool(result)"], raises=["GraphQLError"],
               props={"C16"})
    w.contract(f"{M}.serialize_boolean", params={"output_value": "dyn"}, returns="dyn",
               ensures=["is_bool(result)",
                        "implies(is_bool(output_value), same(result, output_value))"],
               raises=["GraphQLError"], props={"C16"})
    w.contract(f"{M}.coerce_boolean", params={"input_value": "dyn"}, returns="dyn",
               ensures=["is_bool(result)", "same(result, input_value)"], raises=["GraphQLError"],
               on_raise={"GraphQLError": ["not is_bool(input_value)"]}, props={"C16", "C15"})
    w.contract(f"{M}.coerce_id_from_number", params={"value": "dyn"}, returns="str",
               requires=["Numeric(value)"], ensures=["is_str(result)"],
               # str(int) raises ValueError above the interpreter's digit limit
               raises=["GraphQLError", "ValueError"], props={"C16", "C15"})
    w.contract(f"{M}.serialize_id", params={"output_value": "dyn"}, returns="dyn",
               ensures=["is_str(result)", "implies(is_str(output_value), same(result, output_value))"],
               raises=["ValueError", "Exception"], props={"C16"})
    w.contract(f"{M}.coerce_id", params={"input_value": "dyn"}, returns="dyn",
               ensures=["is_str(result)", "implies(is_str(input_value), same(result, input_value))"],
               raises=["ValueError", "Exception"],
               on_raise={"Exception": ["not is_str(input_value)"], "ValueError": ["not is_str(input_value)"]},
               props={"C16", "C15"})

    # ---- output -> input round trip (ghost functions over the contracts above) ---------------------
    G = "theories.ghost_c16"
    for name in ("roundtrip_int", "roundtrip_float", "roundtrip_string", "roundtrip_boolean",
                 "roundtrip_id"):
        w.contract(f"{G}.{name}", params={"v": "dyn"}, returns="bool", ensures=["result"],
                   raises=[], props={"C16"})
