"""Side-car contracts for graphql/type/scalars.py (C16, C15)."""

M = "graphql.type.scalars"
IN32 = "-2147483648 <= {0} <= 2147483647"


def install(w):
    # graphql.pyutils.inspect is used only to build messages: assumed total (returns a str)
    w.contract("graphql.pyutils.inspect.inspect", params={"value": "dyn"}, returns="str",
               ensures=[], assumed=True)
    w.contract("graphql.language.printer.print_ast", params={"ast": "dyn"}, returns="str",
               ensures=[], assumed=True)

    w.define("Numeric", "v", "is_int(v) or is_bool(v) or is_float(v)")
    w.define("IntLike32", "v",
             "(is_int(v) and -2147483648 <= int_of(v) <= 2147483647)"
             " or (is_integral_float(v) and -2147483648 <= float_int_of(v) <= 2147483647)")

    INT_POST = ["is_int(result)", IN32.format("int_of(result)")]
    # ---- Int -------------------------------------------------------------------------------
    w.contract(f"{M}.coerce_int_from_number", params={"value": "dyn"}, returns="int",
               requires=["Numeric(value)"],
               ensures=INT_POST + ["num_eq(result, value)"],
               raises=["GraphQLError"],
               on_raise={"GraphQLError": ["not IntLike32(value)"]},
               props={"C16", "C15", "C02", "C13"})
    w.contract(f"{M}.coerce_int_from_string", params={"value": "str"}, returns="int",
               ensures=INT_POST + ["is_int_str(value)", "int_of(result) == int_of_str(value)"],
               raises=["GraphQLError"],
               # rejects only texts that are no integer or lie outside 32 bits
               on_raise={"GraphQLError": ["not (is_int_str(value) and " + IN32.format("int_of_str(value)") + ")"]},
               props={"C16", "C02"})
    # literal coercion of Int: an IntValue whose text is a 32-bit integer, nothing else
    w.alias("IntValueNode", "graphql.language.ast.IntValueNode")
    w.shape("ValueNode", value="dyn")    # str for Int/Float/String/Enum values, bool for Boolean
    # well-formed AST (field types as annotated): the text of an IntValue is a str
    LIT_WF = ["implies(isinstance(value_node, IntValueNode), is_str(value_node.value))"]
    INT_LIT_OK = ("isinstance(value_node, IntValueNode) and is_int_str(value_node.value) and "
                  + IN32.format("int_of_str(value_node.value)"))
    w.contract(f"{M}.parse_int_literal", params={"value_node": "ref:ValueNode", "_variables": "dyn"},
               returns="int", requires=LIT_WF,
               ensures=[INT_LIT_OK, "result == int_of_str(value_node.value)"],
               raises=["GraphQLError", "ValueError"],
               on_raise={"GraphQLError": [f"not ({INT_LIT_OK})"],
                         "ValueError": ["isinstance(value_node, IntValueNode)",
                                        "not is_int_str(value_node.value)"]},
               props={"C15", "C16"})
    w.contract(f"{M}.serialize_int", params={"output_value": "dyn"}, returns="int",
               ensures=INT_POST + ["implies(Numeric(output_value), num_eq(result, output_value))"],
               raises=["GraphQLError"], props={"C16", "C02", "C13"})
    w.contract(f"{M}.coerce_int", params={"input_value": "dyn"}, returns="int",
               ensures=INT_POST + ["num_eq(result, input_value)",
                                   "is_int(input_value) or is_float(input_value)"],
               raises=["GraphQLError"],
               on_raise={"GraphQLError": ["not IntLike32(input_value)"]},
               props={"C16", "C15", "C13"})

    # ---- Float -----------------------------------------------------------------------------
    FLOAT_POST = ["is_finite_float(result)"]
    w.contract(f"{M}.coerce_float_from_number", params={"value": "dyn"}, returns="dyn",
               requires=["is_float(value)"],
               ensures=FLOAT_POST + ["num_eq(result, value)"], raises=["GraphQLError"],
               on_raise={"GraphQLError": ["not is_finite_float(value)"]},
               props={"C16", "C15", "C02", "C13"})
    w.contract(f"{M}.coerce_float_from_int", params={"value": "dyn"}, returns="dyn",
               requires=["is_int(value) or is_bool(value)"],
               # exactness: an int never comes out as a different number
               ensures=FLOAT_POST + ["num_eq(result, value)"], raises=["GraphQLError"],
               on_raise={"GraphQLError": ["not (-9007199254740992 <= int_of(value) <= 9007199254740992) or is_bool(value)"]},
               props={"C16", "C15", "C02"})
    w.contract(f"{M}.coerce_float_from_string", params={"value": "str"}, returns="dyn",
               ensures=FLOAT_POST, raises=["GraphQLError"], props={"C16", "C02"})
    w.contract(f"{M}.serialize_float", params={"output_value": "dyn"}, returns="dyn",
               ensures=["is_finite_float(result) or (is_bool(output_value) and is_int(result)"
                        " and 0 <= int_of(result) <= 1)",
                        "implies(Numeric(output_value), num_eq(result, output_value))"],
               raises=["GraphQLError"], props={"C16", "C02", "C13"})
    w.contract(f"{M}.coerce_float", params={"input_value": "dyn"}, returns="dyn",
               ensures=FLOAT_POST + ["num_eq(result, input_value)"], raises=["GraphQLError"],
               on_raise={"GraphQLError": [
                   "not (is_finite_float(input_value) or (is_int(input_value) and"
                   " -9007199254740992 <= int_of(input_value) <= 9007199254740992))"]},
               props={"C16", "C15", "C13"})

    # literal coercion of Float: an Int or Float token whose text denotes a finite double
    for n_ in ("FloatValueNode", "StringValueNode", "BooleanValueNode"):
        w.alias(n_, f"graphql.language.ast.{n_}")
    FL_WF = ["implies(isinstance(value_node, (FloatValueNode, IntValueNode)), is_str(value_node.value))"]
    FL_NODE = "isinstance(value_node, (FloatValueNode, IntValueNode))"
    w.contract(f"{M}.parse_float_literal", params={"value_node": "ref:ValueNode", "_variables": "dyn"},
               returns="dyn", requires=FL_WF,
               ensures=[FL_NODE, "is_finite_float(result)", "float_of_str_eq(result, value_node.value)"],
               raises=["GraphQLError", "ValueError"],
               on_raise={"GraphQLError": [f"not ({FL_NODE} and is_float_str(value_node.value)"
                                          " and float_str_finite(value_node.value))"],
                         "ValueError": [FL_NODE, "not is_float_str(value_node.value)"]},
               props={"C15", "C16"})
    w.contract(f"{M}.parse_string_literal", params={"value_node": "ref:ValueNode", "_variables": "dyn"},
               returns="dyn",
               ensures=["isinstance(value_node, StringValueNode)", "same(result, value_node.value)"],
               raises=["GraphQLError"],
               on_raise={"GraphQLError": ["not isinstance(value_node, StringValueNode)"]},
               props={"C15"})
    w.contract(f"{M}.parse_boolean_literal", params={"value_node": "ref:ValueNode", "_variables": "dyn"},
               returns="dyn",
               ensures=["isinstance(value_node, BooleanValueNode)", "same(result, value_node.value)"],
               raises=["GraphQLError"],
               on_raise={"GraphQLError": ["not isinstance(value_node, BooleanValueNode)"]},
               props={"C15"})
    w.contract(f"{M}.parse_id_literal", params={"value_node": "ref:ValueNode", "_variables": "dyn"},
               returns="dyn",
               ensures=["isinstance(value_node, (StringValueNode, IntValueNode))",
                        "same(result, value_node.value)"],
               raises=["GraphQLError"],
               on_raise={"GraphQLError": ["not isinstance(value_node, (StringValueNode, IntValueNode))"]},
               props={"C15"})

    # ---- String / Boolean / ID ---------------------------------------------------------------
    w.contract(f"{M}.coerce_string_from_number", params={"value": "dyn"}, returns="str",
               requires=["is_float(value)"], ensures=["is_str(result)"], raises=["GraphQLError"],
               props={"C16", "C02"})
    w.contract(f"{M}.serialize_string", params={"output_value": "dyn"}, returns="dyn",
               ensures=["is_str(result)", "implies(is_str(output_value), same(result, output_value))"],
               raises=["ValueError", "Exception"], props={"C16", "C02"})
    w.contract(f"{M}.coerce_string", params={"input_value": "dyn"}, returns="dyn",
               ensures=["is_str(result)", "same(result, input_value)"], raises=["GraphQLError"],
               on_raise={"GraphQLError": ["not is_str(input_value)"]}, props={"C16", "C15"})
    w.contract(f"{M}.coerce_boolean_from_number", params={"value": "dyn"}, returns="bool",
               requires=["is_float(value)"], ensures=["is_bool(result)"], raises=["GraphQLError"],
               props={"C16", "C02"})
    w.contract(f"{M}.serialize_boolean", params={"output_value": "dyn"}, returns="dyn",
               ensures=["is_bool(result)",
                        "implies(is_bool(output_value), same(result, output_value))"],
               raises=["GraphQLError"], props={"C16", "C02"})
    w.contract(f"{M}.coerce_boolean", params={"input_value": "dyn"}, returns="dyn",
               ensures=["is_bool(result)", "same(result, input_value)"], raises=["GraphQLError"],
               on_raise={"GraphQLError": ["not is_bool(input_value)"]}, props={"C16", "C15"})
    w.contract(f"{M}.coerce_id_from_number", params={"value": "dyn"}, returns="str",
               requires=["Numeric(value)"],
               # exact: the decimal text of the integer itself (no detour through a double)
               ensures=["is_str(result)",
                        "implies(is_int(value), result == str_of_int(int_of(value)))",
                        "implies(is_integral_float(value), result == str_of_int(float_int_of(value)))"],
               # str(int) raises ValueError above the interpreter's digit limit
               raises=["GraphQLError", "ValueError"], props={"C16", "C15", "C02"})
    w.contract(f"{M}.serialize_id", params={"output_value": "dyn"}, returns="dyn",
               ensures=["is_str(result)", "implies(is_str(output_value), same(result, output_value))"],
               raises=["ValueError", "Exception"], props={"C16", "C02"})
    w.contract(f"{M}.coerce_id", params={"input_value": "dyn"}, returns="dyn",
               ensures=["is_str(result)", "implies(is_str(input_value), same(result, input_value))"],
               raises=["ValueError", "Exception"],
               on_raise={"Exception": ["not is_str(input_value)"], "ValueError": ["not is_str(input_value)"]},
               props={"C16", "C15"})

    # value -> literal for ID: a literal exists for exactly the kinds of value that coerce_id accepts
    # (a string, or a number that is not a bool); for numbers the same helper decides
    w.contract(f"{M}.id_value_to_literal", params={"value": "dyn"}, returns="opt:ref:ValueNode",
               ensures=["(result is None) == (not (is_str(value) or is_int(value) or is_float(value)))"],
               raises=["GraphQLError", "ValueError"],
               on_raise={"GraphQLError": ["is_int(value) or is_float(value)"],
                         "ValueError": ["is_int(value) or is_float(value)"]},
               props={"C15"})

    # ---- output -> input round trip (ghost functions over the contracts above) ---------------------
    G = "theories.ghost_c16"
    for name in ("roundtrip_int", "roundtrip_float", "roundtrip_string", "roundtrip_boolean",
                 "roundtrip_id"):
        w.contract(f"{G}.{name}", params={"v": "dyn"}, returns="bool", ensures=["result"],
                   raises=[], props={"C16"})
