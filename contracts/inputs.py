"""Side-car contracts for coerce_input_value / validate_input_value (C15), stage 1: types
without input objects (NoObj): non-null, list (incl. the single-item rule) and leaf branches."""

CV = "graphql.utilities.coerce_input_value"
VV = "graphql.utilities.validate_input_value"


def install(w):
    w.contract("graphql.pyutils.is_iterable.is_iterable", params={"value": "dyn"},
               returns="bool", ensures=["result == iterable_v(value)"], assumed=True)
    w.contract("graphql.type.definition.assert_leaf_type", params={"type_": "ty"}, returns="ty",
               requires=[], ensures=["result is type_", "LeafTy(type_)"], raises=["TypeError"],
               on_raise={"TypeError": ["not LeafTy(type_)"]}, assumed=True)

    w.contract(f"{CV}.coerce_input_value", params={"input_value": "dyn", "type_": "ty"},
               returns="dyn",
               requires=["InputTy(type_)"],
               # both members of the pair are verified against the same Valid(v, T); stage 1: the
               # equivalences are claimed for types without input objects (NoObj), the input-object
               # branch is verified for its exception frame and its calls only
               ensures=["implies(NoObj(type_), is_undefined(result) == (not Valid(input_value, type_)))",
                        "implies(NoObj(type_) and not is_undefined(result), Conf(result, type_))",
                        "implies(NoObj(type_) and not is_none(input_value) and not is_undefined(input_value),"
                        " not is_none(result))"],
               # a user supplied out_type may raise (A5) - and nothing else: whatever the coerce function
               # of a leaf type raises is turned into "invalid" (C01: a custom scalar cannot crash a request)
               raises=["Exception"], on_raise={"Exception": ["not NoObj(type_)"]},
               modifies=[], locals={"coerced_list": ("list", "dyn")},
               valid_schema=True, decreases_when="not kind_is(type_, 'INPUT_OBJECT')",
               call_pre={
                   "coerce_input_value#1": ["arg_type_ is of(type_)", "same(arg_input_value, input_value)"],
                   "coerce_input_value#2": ["arg_type_ is of(type_)", "same(arg_input_value, input_value)"],
                   "coerce_input_value#3": ["arg_type_ is of(type_)", "same(arg_input_value, item_value)"],
                   "coerce_input_value#4": ["arg_type_ is field.type"]},
               decreases="ty_rank(type_)",
               loops={1: {"invariant": ["implies(NoObj(type_), ListOk(input_value, item_type, _i))",
                                        "implies(NoObj(type_), forall(j, 0, _i, Conf(coerced_list[j], item_type)))",
                                        "len(coerced_list) == _i"]},
                      # input-object branch: a field without a (defined) value makes the value invalid
                      # exactly when the field is required
                      3: {"return_post": [
                              "implies(is_undefined(field_value) and is_undefined(result),"
                              " RequiredField(field))"],
                          "step_post": [
                              "implies(is_undefined(field_value), not RequiredField(field))"]}},
               props={"C15", "C13", "C02", "C01"})

    # ---- validation side: ghost counter 'errs' of on_error calls -----------------------------------
    w.alias("Path", "graphql.pyutils.path.Path")
    w.contract("graphql.pyutils.path.Path.as_list", returns=("list", "dyn"), ensures=[],
               assumed=True)
    CB = ("callback", "errs")
    w.contract(f"{VV}.report_invalid_value",
               params={"on_error": CB, "message": "str", "path": "opt:ntuple:Path",
                       "original_error": "opaque"},
               ensures=["ghost('errs') == old(ghost('errs')) + 1"], raises=["Exception"],
               ghost_modifies=["errs"], modifies=[], props={"C15"})
    w.contract(f"{VV}.validate_input_value_impl",
               params={"input_value": "dyn", "type_": "ty", "on_error": CB,
                       "hide_suggestions": "bool", "path": "opt:ntuple:Path"},
               requires=["InputTy(type_)"],
               ensures=["ghost('errs') >= old(ghost('errs'))",
                        "implies(NoObj(type_),"
                        " (ghost('errs') > old(ghost('errs'))) == (not Valid(input_value, type_)))"],
               raises=["Exception"], ghost_modifies=["errs"], modifies=[],
               ghost_calls=["val_rec"],     # recursive calls made by one activation
               valid_schema=True, decreases_when="not kind_is(type_, 'INPUT_OBJECT')",
               # field_name was taken from input_value.items() a few lines above, so this lookup
               # cannot fail; which keys a dynamic dict holds is not tracked by the engine
               waive=["from `input_value[field_name]`"],
               loop_all=["ghost('errs') >= old(ghost('errs'))"],
               call_pre={
                   "validate_input_value_impl#1": ["arg_type_ is of(type_)", "same(arg_input_value, input_value)"],
                   "validate_input_value_impl#2": ["arg_type_ is of(type_)", "same(arg_input_value, input_value)"],
                   "validate_input_value_impl#3": ["arg_type_ is of(type_)", "same(arg_input_value, item_value)"],
                   "validate_input_value_impl#4": ["arg_type_ is field.type",
                                                   "same(arg_input_value, field_value)"]},
               decreases="ty_rank(type_)",
               loops={1: {"invariant": [
                   "ghost('errs') >= old(ghost('errs'))",
                   "implies(NoObj(type_),"
                   " (ghost('errs') > old(ghost('errs'))) == (not ListOk(input_value, item_type, _i)))"]},
                      # input-object branch: a field without a (defined) value is reported exactly
                      # when it is required
                      2: {"iter_post": [
                          "implies(is_undefined(field_value) and RequiredField(field),"
                          " ghost('errs') > at_iter_start(ghost('errs')))",
                          "implies(is_undefined(field_value) and not RequiredField(field),"
                          " ghost('errs') == at_iter_start(ghost('errs')))",
                          # every field that has a value - None included - is validated against
                          # the field's type (a null for a non-null field with a default is invalid)
                          "implies(not is_undefined(field_value),"
                          " ghost('val_rec') == at_iter_start(ghost('val_rec')) + 1)"]}},
               props={"C15", "C13", "C02", "C20"})


def install_variables(w):
    """get_variable_values (C15, C01): either the coerced values or a non-empty list of errors; with
    an error limit n at most n errors plus the abort notice (the callback invariant is carried over
    the call of coerce_variable_values by rely/guarantee: nothing else holds `errors`)."""
    VAL = "graphql.execution.values"
    w.alias("VariableValues", f"{VAL}.VariableValues")
    # coerce_variable_values: for every variables mapping (any keys, any values) nothing leaves but
    # what the error callback raises - every lookup, call and conversion of its own is safe
    GVS = "graphql.execution.get_variable_signature"
    w.alias("GraphQLVariableSignature", f"{GVS}.GraphQLVariableSignature")
    w.shape("GraphQLVariableSignature", name="str", type="ty",
            default="opt:ref:GraphQLDefaultInput", default_value="dyn")
    w.contract(f"{GVS}.get_variable_signature", params={"schema": "dyn", "var_def_node": "dyn"},
               returns=("union", "exc:GraphQLError", "ntuple:GraphQLVariableSignature"),
               # a signature is only returned for an input type (else the error is returned)
               ensures=["implies(not isinstance(result, GraphQLError), InputTy(result.type))"],
               raises=[], modifies=[], assumed=True)
    w.contract(f"{VAL}.coerce_variable_values",
               params={"schema": "dyn", "var_def_nodes": ("list", "dyn"), "inputs": "dyn",
                       # a callback that raises nothing but GraphQLError (the caller's closure is
                       # checked against this: RELY-RAISES of get_variable_values)
                       "on_error": ("callback", "verrs", "GraphQLError"), "hide_suggestions": "bool"},
               returns="ntuple:VariableValues", requires=["is_dict(inputs)"], ensures=[],
               # GraphQLError: the callback; Exception: only what a user supplied out_type / scalar
               # coercer raises inside coerce_input_value / validate_input_value (A5) - exceptions of
               # this function's own operations are not covered by the blanket and none is declared
               raises=["GraphQLError", "Exception"], modifies=[], valid_schema=True,
               # `inputs` is the caller's variables mapping: a dict (the public API's type); that it
               # has .get is not re-proved
               waive=["call of a non-callable"],
               props={"C01", "C15"})
    w.contract(f"{VAL}.get_variable_values",
               params={"schema": "dyn", "var_def_nodes": "dyn", "inputs": "dyn",
                       "max_errors": "opt:int", "hide_suggestions": "bool"},
               returns="dyn", requires=["is_dict(inputs)"], ensures=[],
               raises=["Exception"],     # only a user supplied out_type / coercer (A5), see below
               never_raises=["GraphQLError"],   # every GraphQLError becomes an entry of the error list
               modifies=[],
               # (the callee's own contract is verified above; here only GraphQLError is expected from
               # it because on_error raises nothing else)
               rely={"coerce_variable_values": {
                   "closure": "on_error", "raises": ["GraphQLError"],
                   "inv": ["implies(max_errors is not None and max_errors >= 0,"
                           " len(errors) <= max_errors)"]}},
               exit_post=[
                   # values are returned only when nothing was reported
                   "implies(result is not errors, len(errors) == 0)",
                   "implies(result is errors, len(errors) >= 1)",
                   "implies(result is errors and max_errors is not None and max_errors >= 0,"
                   " len(errors) <= max_errors + 1)"],
               props={"C15", "C01"})


_inputs_prev = install


def install(w):   # noqa: F811
    _inputs_prev(w)
    install_variables(w)
