"""Side-car contracts for coerce_input_value / validate_input_value (C15), stage 1: types
without input objects (NoObj): non-null, list (incl. the single-item rule) and leaf branches."""

CV = "graphql.utilities.coerce_input_value"
VV = "graphql.utilities.validate_input_value"


def install(w):
    w.contract("graphql.pyutils.is_iterable.is_iterable", params={"value": "dyn"},
               returns="bool", ensures=["result == iterable_v(value)"], assumed=True)
    w.contract("graphql.type.definition.assert_leaf_type", params={"type_": "ty"}, returns="ty",
               requires=[], ensures=["result is type_", "LeafTy(type_)"], raises=["TypeError"],
               on_raise={"TypeError": ["not LeafTy(type_)"]}, assumed=True)

    w.contract(f"{CV}.coerce_input_value", params={"input_value": "dyn", "type_": "ty"},
               returns="dyn",
               requires=["InputTy(type_)", "NoObj(type_)"],
               # both members of the pair are verified against the same Valid(v, T)
               ensures=["is_undefined(result) == (not Valid(input_value, type_))",
                        "implies(not is_undefined(result), Conf(result, type_))",
                        "implies(not is_none(input_value) and not is_undefined(input_value),"
                        " not is_none(result))"],
               raises=[], modifies=[], locals={"coerced_list": ("list", "dyn")},
               call_pre={
                   "coerce_input_value#1": ["arg_type_ is of(type_)", "same(arg_input_value, input_value)"],
                   "coerce_input_value#2": ["arg_type_ is of(type_)", "same(arg_input_value, input_value)"],
                   "coerce_input_value#3": ["arg_type_ is of(type_)", "same(arg_input_value, item_value)"],
                   "coerce_input_value#4": ["arg_type_ is field.type"]},
               decreases="ty_rank(type_)",
               loops={1: {"invariant": ["ListOk(input_value, item_type, _i)",
                                        "forall(j, 0, _i, Conf(coerced_list[j], item_type))",
                                        "len(coerced_list) == _i"]}},
               props={"C15"})

    # ---- validation side: ghost counter 'errs' of on_error calls -----------------------------------
    w.alias("Path", "graphql.pyutils.path.Path")
    w.contract("graphql.pyutils.path.Path.as_list", returns=("list", "dyn"), ensures=[],
               assumed=True)
    CB = ("callback", "errs")
    w.contract(f"{VV}.report_invalid_value",
               params={"on_error": CB, "message": "str", "path": "opt:ntuple:Path",
                       "original_error": "opaque"},
               ensures=["ghost('errs') == old(ghost('errs')) + 1"], raises=["Exception"],
               ghost_modifies=["errs"], modifies=[], props={"C15"})
    w.contract(f"{VV}.validate_input_value_impl",
               params={"input_value": "dyn", "type_": "ty", "on_error": CB,
                       "hide_suggestions": "bool", "path": "opt:ntuple:Path"},
               requires=["InputTy(type_)", "NoObj(type_)"],
               ensures=["ghost('errs') >= old(ghost('errs'))",
                        "(ghost('errs') > old(ghost('errs'))) == (not Valid(input_value, type_))"],
               raises=["Exception"], ghost_modifies=["errs"], modifies=[],
               call_pre={
                   "validate_input_value_impl#1": ["arg_type_ is of(type_)", "same(arg_input_value, input_value)"],
                   "validate_input_value_impl#2": ["arg_type_ is of(type_)", "same(arg_input_value, input_value)"],
                   "validate_input_value_impl#3": ["arg_type_ is of(type_)", "same(arg_input_value, item_value)"],
                   "validate_input_value_impl#4": ["arg_type_ is field.type"]},
               decreases="ty_rank(type_)",
               loops={1: {"invariant": [
                   "ghost('errs') >= old(ghost('errs'))",
                   "(ghost('errs') > old(ghost('errs'))) == (not ListOk(input_value, item_type, _i))"]}},
               props={"C15"})


def install_variables(w):
    """get_variable_values (C15, C01): either the coerced values or a non-empty list of errors; with
    an error limit n at most n errors plus the abort notice (the callback invariant is carried over
    the call of coerce_variable_values by rely/guarantee: nothing else holds `errors`)."""
    VAL = "graphql.execution.values"
    w.alias("VariableValues", f"{VAL}.VariableValues")
    # assumed here: only the GraphQLError of the callback leaves coerce_variable_values
    w.contract(f"{VAL}.coerce_variable_values",
               params={"schema": "dyn", "var_def_nodes": "dyn", "inputs": "dyn",
                       "on_error": "opaque", "hide_suggestions": "bool"},
               returns="ntuple:VariableValues", ensures=[], raises=["GraphQLError"], modifies=[],
               assumed=True)
    w.contract(f"{VAL}.get_variable_values",
               params={"schema": "dyn", "var_def_nodes": "dyn", "inputs": "dyn",
                       "max_errors": "opt:int", "hide_suggestions": "bool"},
               returns="dyn", ensures=[], raises=[], modifies=[],
               rely={"coerce_variable_values": {
                   "closure": "on_error",
                   "inv": ["implies(max_errors is not None and max_errors >= 0,"
                           " len(errors) <= max_errors)"]}},
               exit_post=[
                   # values are returned only when nothing was reported
                   "implies(result is not errors, len(errors) == 0)",
                   "implies(result is errors, len(errors) >= 1)",
                   "implies(result is errors and max_errors is not None and max_errors >= 0,"
                   " len(errors) <= max_errors + 1)"],
               props={"C15", "C01"})


_inputs_prev = install


def install(w):   # noqa: F811
    _inputs_prev(w)
    install_variables(w)
