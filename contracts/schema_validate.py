"""Side-car contracts for graphql/type/validate.py (C20): schema validation never raises, for any
schema object graph of the declared shapes (attributes havocked), and the loop-free rules report
exactly when the rule is violated (ghost counter 'errs' of report_error calls)."""

V = "graphql.type.validate"
CTX = f"{V}.SchemaValidationContext"


def install(w):

    # the reserved-name rule exempts exactly the eight introspection types of the specification
    # (by name), not every name that starts with two underscores
    NAMES = ("__Schema", "__Directive", "__DirectiveLocation", "__Type", "__Field", "__InputValue",
             "__EnumValue", "__TypeKind")
    w.contract("graphql.type.introspection.is_introspection_type", params={"type_": "ty"},
               returns="bool", requires=["NamedTy(type_)"],
               ensures=["result == (" + " or ".join(f"same_str(type_.name, '{n}')" for n in NAMES) + ")"],
               raises=[], modifies=[], props={"C20"})
    w.shape("SchemaValidationContext", errors=("list", "opaque"), schema="ref:GraphQLSchema")

    # report_error appends one GraphQLError; nodes may be a node, None or a collection with Nones
    w.contract(f"{CTX}.report_error", params={"message": "str", "nodes": "opaque"},
               ensures=["ghost('errs') == old(ghost('errs')) + 1"], ghost_modifies=["errs"],
               modifies=["self.errors"], assumed=True)

    NEVER = dict(raises=[], ghost_modifies=["errs"], modifies=["self.errors"],
                 loop_all=["ghost('errs') >= old(ghost('errs'))"])
    # the non-null cycle search: a DFS that follows exactly the fields whose type is NonNull(InputObject)
    # - whether or not the field has a default value (a default does not make the cycle breakable
    # for a client that provides the field) - enters a type once, restores its path index on exit and
    # terminates (measure: input object types not yet visited)
    NN = f"{V}.InputObjectNonNullCircularRefsValidator"
    w.alias("InputObjectNonNullCircularRefsValidator", NN)
    w.alias("SchemaValidationContext", CTX)
    w.shape("InputObjectNonNullCircularRefsValidator", context="obj:SchemaValidationContext",
            visited_types=("nameset", "circ_unvisited"), field_path=("list", ("tuple", "str", "dyn")),
            field_path_index_by_type_name=("map", "int"))
    w.contract(f"{NN}.__call__", params={"input_obj": "ty"},
               requires=["kind_is(input_obj, 'INPUT_OBJECT')",
                         "not mhas(self.field_path_index_by_type_name, input_obj.name)"],
               ensures=["ghost('errs') >= old(ghost('errs'))",
                        "ghost('circ_unvisited') <= old(ghost('circ_unvisited'))", "ghost('circ_unvisited') >= 0",
                        "forall_int(k, mhas(self.field_path_index_by_type_name, k)"
                        " == old(mhas(self.field_path_index_by_type_name, k)))"],
               raises=[], modifies=None, ghost_modifies=["errs", "circ_unvisited"], ghost_calls=["circ_calls"],
               modifies_maps=True, decreases=["ghost('circ_unvisited')"],
               loops={1: {"invariant": [
                   "ghost('errs') >= old(ghost('errs'))",
                   "ghost('circ_unvisited') <= old(ghost('circ_unvisited')) - 1", "ghost('circ_unvisited') >= 0",
                   "forall_int(k, mhas(self.field_path_index_by_type_name, k) =="
                   " (old(mhas(self.field_path_index_by_type_name, k)) or k == mkey(name)))"],
                   "step_post": [
                   # every non-null input-object edge is followed (or closes a cycle that is reported)
                   "implies(NonNull(field.type) and kind_is(of(field.type), 'INPUT_OBJECT'),"
                   " ghost('circ_calls') == at_iter_start(ghost('circ_calls')) + 1"
                   " or (ghost('circ_calls') == at_iter_start(ghost('circ_calls'))"
                   " and ghost('errs') == at_iter_start(ghost('errs')) + 1))",
                   "implies(not (NonNull(field.type) and kind_is(of(field.type), 'INPUT_OBJECT')),"
                   " ghost('circ_calls') == at_iter_start(ghost('circ_calls'))"
                   " and ghost('errs') == at_iter_start(ghost('errs')))",
                   ]}},
               props={"C20"})
    w.contract(f"{NN}.__init__", params={"context": "opaque"},
               ensures=["forall_int(k, not mhas(self.field_path_index_by_type_name, k))"], raises=[], assumed=True)
    for cls in ("InputObjectDefaultValueCircularRefsValidator",):
        w.contract(f"{V}.{cls}.__call__", params={"input_obj": "ty"},
                   requires=["kind_is(input_obj, 'INPUT_OBJECT')"],
                   ensures=["ghost('errs') >= old(ghost('errs'))"], raises=[],
                   ghost_modifies=["errs"], ghost_calls=["dcirc_calls"], assumed=True)
        w.contract(f"{V}.{cls}.__init__", params={"context": "opaque"}, ensures=[], raises=[],
                   assumed=True)
    MONO = ["ghost('errs') >= old(ghost('errs'))"]

    w.contract(f"{CTX}.validate_name", params={"node": "ref:GraphQLDirective", "name": "opt:str"},
               # reserved names: exactly a name that begins with two underscores is reported
               ensures=MONO + [
                   "(ghost('errs') == old(ghost('errs')) + ite(name.startswith('__'), 1, 0)) if name else True",
                   "(ghost('errs') == old(ghost('errs')) + ite(node.name.startswith('__'), 1, 0))"
                   " if name is None else True"],
               ghost_calls=["name_calls"], props={"C20"}, **NEVER)
    w.contract(f"{CTX}.validate_one_of_input_object_field",
               params={"type_": "ty", "field_name": "str", "field": "ref:GraphQLInputField"},
               ensures=MONO + [
                   # reports exactly when the OneOf restrictions are violated
                   "(ghost('errs') > old(ghost('errs'))) == (NonNull(field.type)"
                   " or field.default is not None or not is_undefined(field.default_value))",
                   # one report per violated restriction
                   "ghost('errs') == old(ghost('errs')) + ite(NonNull(field.type), 1, 0)"
                   " + ite(field.default is not None or not is_undefined(field.default_value), 1, 0)"],
               props={"C20"}, **NEVER)
    w.contract(f"{CTX}.validate_default_value",
               params={"input_value": "ref:GraphQLArgument", "arg_str": "str"},
               # nothing is reported for a position without a default value
               ensures=MONO + ["implies(input_value.default is None, ghost('errs') == old(ghost('errs')))"],
               ghost_calls=["dv_calls"], props={"C20"}, **NEVER)
    w.contract(f"{V}.validate_default_input",
               params={"default_input": "ref:GraphQLDefaultInput", "input_type": "ty",
                       "on_error": ("callback", "cb"), "hide_suggestions": "bool"},
               # raises nothing when on_error does not raise (here: a lambda appending to a list);
               # relies on the C15 contracts of validate_input_value / validate_input_literal
               requires=["InputTy(input_type)"], ensures=[], raises=[],
               ghost_modifies=["cb"], assumed=True)
    w.contract(f"{V}.uncoerce_default_value", params={"value": "dyn", "type_": "ty"},
               returns="dyn", requires=["InputTy(type_)"], ensures=[], raises=["Exception"],
               assumed=True)
    w.contract("graphql.utilities.validate_input_value.validate_input_value",
               params={"input_value": "dyn", "type_": "ty", "on_error": ("callback", "cb"),
                       "hide_suggestions": "bool"},
               requires=["InputTy(type_)"], ensures=[], raises=["Exception"],
               ghost_modifies=["cb"], assumed=True)
    w.contract("graphql.pyutils.print_path_list.print_path_list", params={"path": "opaque"},
               returns="str", ensures=[], assumed=True)

    for m, params in (
        ("validate_fields", {"type_": "ty"}),
        ("validate_input_fields", {"input_obj": "ty"}),
        ("validate_interfaces", {"type_": "ty"}),
        ("validate_type_implements_interface", {"type_": "ty", "iface": "ty"}),
        ("validate_type_implements_ancestors", {"type_": "ty", "iface": "ty"}),
        ("validate_union_members", {"union": "ty"}),
        ("validate_enum_values", {"enum_type": "ty"}),
        ("validate_root_types", {}),
        ("validate_directives", {}),
        ("validate_types", {}),
    ):
        req = {
            "validate_fields": ["kind_is(type_, 'OBJECT') or kind_is(type_, 'INTERFACE')"],
            "validate_input_fields": ["kind_is(input_obj, 'INPUT_OBJECT')"],
            "validate_interfaces": ["kind_is(type_, 'OBJECT') or kind_is(type_, 'INTERFACE')"],
            "validate_type_implements_interface": [
                "kind_is(type_, 'OBJECT') or kind_is(type_, 'INTERFACE')",
                "kind_is(iface, 'INTERFACE')"],
            "validate_type_implements_ancestors": [
                "kind_is(type_, 'OBJECT') or kind_is(type_, 'INTERFACE')",
                "kind_is(iface, 'INTERFACE')"],
            "validate_union_members": ["kind_is(union, 'UNION')"],
            "validate_enum_values": ["kind_is(enum_type, 'ENUM')"],
        }.get(m, [])
        extra = {}
        if m == "validate_type_implements_interface":
            # per-iteration contracts of the two argument loops (reports <=> the rule is violated)
            SUBT = "ite(not Sub(self.schema, type_field.type, iface_field.type), 1, 0)"
            DEPR = ("ite(type_field.deprecation_reason is not None"
                    " and iface_field.deprecation_reason is None, 1, 0)")
            E_, E0_ = "ghost('errs')", "at_iter_start(ghost('errs'))"
            extra["loops"] = {
                # per interface field: a missing field is reported (once, nothing else); a present
                # field is reported when its type is no subtype (covariance) and when it is
                # deprecated while the interface field is not - in addition to the argument rules
                1: {"iter_post": [
                    f"implies(not omap_has(type_fields, field_name), {E_} == {E0_} + 1)",
                    f"implies(omap_has(type_fields, field_name), {E_} >= {E0_} + {SUBT} + {DEPR})"]},
                2: {"invariant": [f"{E_} >= {E0_} + {SUBT}"],
                    "step_post": [
                    # an interface argument must exist on the field with an equal type
                    "ghost('errs') == at_iter_start(ghost('errs')) + ite("
                    "not omap_has(type_field.args, arg_name)"
                    " or not EqT(iface_arg.type, omap_at(type_field.args, arg_name).type), 1, 0)"]},
                3: {"invariant": [f"{E_} >= {E0_} + {SUBT}"],
                    "step_post": [
                    # an additional argument must not be required
                    "ghost('errs') == at_iter_start(ghost('errs')) + ite("
                    "not omap_has(iface_field.args, arg_name) and Required(type_arg), 1, 0)"]},
            }
        E, E0 = "ghost('errs')", "at_iter_start(ghost('errs'))"
        NAME1 = "ite({0}.startswith('__'), 1, 0)"
        ARG_STEP = ("ite(not InputTy(arg.type), 1, 0)"
                    " + ite(Required(arg) and arg.deprecation_reason is not None, 1, 0)")
        if m == "validate_fields":
            # per field: the name rule, the output-type rule; per argument: the name rule, the
            # input-type rule, "a required argument cannot be deprecated", and the default value is
            # validated (one call); without a default the count is exact, with one it is a lower bound
            extra["loops"] = {
                1: {"invariant": [f"{E} >= old({E}) + ite(len(fields) == 0, 1, 0)"],
                    "step_post": [
                        f"{E} >= {E0} + " + NAME1.format("field_name") + " + ite(not OutputTy(field.type), 1, 0)",
                        "ghost('name_calls') >= at_iter_start(ghost('name_calls')) + 1"]},
                2: {"invariant": [
                        f"{E} >= {E0} + " + NAME1.format("field_name") + " + ite(not OutputTy(field.type), 1, 0)",
                        "ghost('name_calls') >= at_iter_start(ghost('name_calls')) + 1"],
                    "step_post": [
                        f"{E} >= {E0} + " + NAME1.format("arg_name") + " + " + ARG_STEP,
                        f"implies(arg.default is None and len(arg_name) > 0, {E} == {E0} + " + NAME1.format("arg_name") + " + " + ARG_STEP + ")",
                        "ghost('dv_calls') == at_iter_start(ghost('dv_calls')) + 1"]}}
        if m == "validate_input_fields":
            FIELD_STEP = ("ite(not InputTy(field.type), 1, 0)"
                          " + ite(RequiredField(field) and field.deprecation_reason is not None, 1, 0)")
            ONE_OF = ("ite(input_obj.is_one_of and NonNull(field.type), 1, 0)"
                      " + ite(input_obj.is_one_of and (field.default is not None"
                      " or not is_undefined(field.default_value)), 1, 0)")
            extra["loops"] = {1: {
                "invariant": [f"{E} >= old({E}) + ite(len(fields) == 0, 1, 0)"],
                "step_post": [
                    f"{E} >= {E0} + " + NAME1.format("field_name") + " + " + FIELD_STEP + " + " + ONE_OF,
                    f"implies(field.default is None and len(field_name) > 0, {E} == {E0} + "
                    + NAME1.format("field_name") + " + " + FIELD_STEP + " + " + ONE_OF + ")",
                    "ghost('dv_calls') == at_iter_start(ghost('dv_calls')) + 1"]}}
        if m == "validate_enum_values":
            extra["loops"] = {1: {
                "invariant": [f"{E} >= old({E}) + ite(len(enum_values) == 0, 1, 0)"],
                "step_post": [f"implies(len(value_name) > 0, {E} == {E0} + " + NAME1.format("value_name") + ")"]}}
        if m == "validate_directives":
            extra["loops"] = {
                # every directive of the schema (the specified ones included: a schema may redefine
                # them) goes through the checks: asserted on every way out of the iteration
                1: {"iter_post": [
                    f"{E} >= {E0} + " + NAME1.format("directive.name") + " + ite(len(directive.locations) == 0, 1, 0)"]},
                2: {"invariant": [
                    f"{E} >= {E0} + " + NAME1.format("directive.name") + " + ite(len(directive.locations) == 0, 1, 0)"],
                    "step_post": [
                        f"{E} >= {E0} + " + NAME1.format("arg_name") + " + " + ARG_STEP,
                        f"implies(arg.default is None and len(arg_name) > 0, {E} == {E0} + "
                        + NAME1.format("arg_name") + " + " + ARG_STEP + ")",
                        "ghost('dv_calls') == at_iter_start(ghost('dv_calls')) + 1"]}}
        if m == "validate_interfaces":
            # per listed interface: a non-interface is reported; implementing itself is reported; a
            # repeated interface is reported; otherwise the two conformance checks are made once each
            extra["locals"] = {"iface_type_names": ("nameset", "iface_names")}
            SEEN = "at_iter_start(ns_has(iface_type_names, iface.name))"
            extra["loops"] = {1: {"iter_post": [
                f"implies(not kind_is(iface, 'INTERFACE'), {E} == {E0} + 1)",
                f"implies(kind_is(iface, 'INTERFACE') and {SEEN}, {E} == {E0} + 1 + ite(type_ is iface, 1, 0))",
                f"implies(kind_is(iface, 'INTERFACE') and not {SEEN}, {E} >= {E0} + ite(type_ is iface, 1, 0)"
                " and ghost('anc_calls') == at_iter_start(ghost('anc_calls')) + 1"
                " and ghost('impl_calls') == at_iter_start(ghost('impl_calls')) + 1"
                " and ns_has(iface_type_names, iface.name))",
                "forall_int(k, ns_has_key(iface_type_names, k) == (at_iter_start("
                "ns_has_key(iface_type_names, k)) or (kind_is(iface, 'INTERFACE')"
                " and k == mkey(iface.name))))"]}}
        for mm, gg in (("validate_fields", "vf_calls"), ("validate_interfaces", "vi_calls"),
                       ("validate_union_members", "vu_calls"), ("validate_enum_values", "ve_calls"),
                       ("validate_input_fields", "vif_calls")):
            if m == mm:
                extra["ghost_calls"] = [gg]
        if m == "validate_root_types":
            # a missing query root is reported; every root that is given but is not an object type
            # is reported (the "roots must differ" rule goes through an abstracted multimap: not decided)
            ROOTS = " + ".join(
                f"ite(truthy(self.schema.get_root_type(OperationType.{r})) and not kind_is("
                f"self.schema.get_root_type(OperationType.{r}), 'OBJECT'), 1, 0)"
                for r in ("QUERY", "MUTATION", "SUBSCRIPTION"))
            LOWER = f"{E} >= old({E}) + ite(not truthy(self.schema.query_type), 1, 0) + " + ROOTS
            extra["ensures_extra"] = [LOWER]
            extra["loops"] = {2: {"invariant": [LOWER]}}
        if m == "validate_type_implements_ancestors":
            extra["ghost_calls"] = ["anc_calls"]
            # every interface of the interface must be listed by the type itself
            extra["loops"] = {1: {"step_post": [
                "ghost('errs') == at_iter_start(ghost('errs')) + ite("
                "exists(j, 0, len(type_interfaces), type_interfaces[j] is transitive), 0, 1)"]}}
        if m == "validate_type_implements_interface":
            extra["ghost_calls"] = ["impl_calls"]
        if m == "validate_union_members":
            # one report per member that is not an object type or that names an object type already
            # included; nothing else is reported in the loop; the set of included names grows by
            # exactly the object member's name (so, by induction over the loop, it is the set of
            # names of the object members seen so far)
            extra["locals"] = {"included_type_names": ("nameset", "union_names")}
            extra["loops"] = {1: {"step_post": [
                "ghost('errs') == at_iter_start(ghost('errs')) + ite(not kind_is(member_type, 'OBJECT')"
                " or at_iter_start(ns_has(included_type_names, member_type.name)), 1, 0)",
                "implies(kind_is(member_type, 'OBJECT'), ns_has(included_type_names, member_type.name))",
                "forall_int(k, ns_has_key(included_type_names, k) == (at_iter_start("
                "ns_has_key(included_type_names, k)) or (kind_is(member_type, 'OBJECT')"
                " and k == mkey(member_type.name))))"]}}
        if m == "validate_types":
            # the non-null cycle search starts every top-level call with an empty path index
            # (created empty, restored by every call)
            def CNT(g, n=1):
                return f"ghost('{g}') == at_iter_start(ghost('{g}')) + {n}"
            extra["loops"] = {1: {"invariant": MONO + [
                "forall_int(k, not mhas(validate_input_object_non_null_circular_refs."
                "field_path_index_by_type_name, k))"],
                # the dispatch: every kind of type gets exactly its validators, once each; something
                # that is not a named type is reported and nothing else is done with it
                "iter_post": [
                    f"implies(not NamedTy(type_), {E} == {E0} + 1)",
                    "implies(kind_is(type_, 'OBJECT') or kind_is(type_, 'INTERFACE'), "
                    + CNT("vf_calls") + " and " + CNT("vi_calls") + ")",
                    "implies(kind_is(type_, 'UNION'), " + CNT("vu_calls") + ")",
                    "implies(kind_is(type_, 'ENUM'), " + CNT("ve_calls") + ")",
                    "implies(kind_is(type_, 'INPUT_OBJECT'), " + CNT("vif_calls") + " and " + CNT("dcirc_calls")
                    + " and ghost('circ_calls') >= at_iter_start(ghost('circ_calls')) + 1)",
                    "implies(NamedTy(type_) and not (" + " or ".join(f"same_str(type_.name, '{n}')" for n in NAMES)
                    + "), ghost('name_calls') >= at_iter_start(ghost('name_calls')) + 1)"]}}
            extra["modifies_maps"] = True
        w.contract(f"{CTX}.{m}", params=params, requires=req,
                   ensures=MONO + extra.pop("ensures_extra", []), props={"C20"},
                   **dict(NEVER, **({"ghost_modifies": ["errs", "circ_unvisited"]} if m == "validate_types" else {})),
                   **extra)

    for h, params, ret in (
        ("get_operation_type_node", {"schema": "ref:GraphQLSchema", "operation": "atom:OperationType"},
         "opt:ref:NamedTypeNode"),
        ("get_all_implements_interface_nodes", {"type_": "ty", "iface": "ty"}, ("list", "ref:NamedTypeNode")),
        ("get_union_member_type_nodes", {"union": "ty", "type_name": "str"}, ("list", "ref:NamedTypeNode")),
        ("get_deprecated_directive_node", {"definition_node": "opt:ref:InputValueDefinitionNode"},
         "opt:ref:DirectiveNode"),
    ):
        req = {"get_all_implements_interface_nodes": [
                   "kind_is(type_, 'OBJECT') or kind_is(type_, 'INTERFACE')"],
               "get_union_member_type_nodes": ["kind_is(union, 'UNION')"]}.get(h, [])
        w.contract(f"{V}.{h}", params=params, returns=ret, requires=req, ensures=[], raises=[],
                   modifies=[], props={"C20"})
