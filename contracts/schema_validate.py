"""Side-car contracts for graphql/type/validate.py (C20): schema validation never raises, for any
schema object graph of the declared shapes (attributes havocked), and the loop-free rules report
exactly when the rule is violated (ghost counter 'errs' of report_error calls)."""

V = "graphql.type.validate"
CTX = f"{V}.SchemaValidationContext"


def install(w):

    # the reserved-name rule exempts exactly the eight introspection types of the specification
    # (by name), not every name that starts with two underscores
    NAMES = ("__Schema", "__Directive", "__DirectiveLocation", "__Type", "__Field", "__InputValue",
             "__EnumValue", "__TypeKind")
    w.contract("graphql.type.introspection.is_introspection_type", params={"type_": "ty"},
               returns="bool", requires=["NamedTy(type_)"],
               ensures=["result == (" + " or ".join(f"same_str(type_.name, '{n}')" for n in NAMES) + ")"],
               raises=[], modifies=[], props={"C20"})
    w.shape("SchemaValidationContext", errors=("list", "opaque"), schema="ref:GraphQLSchema")

    # report_error appends one GraphQLError; nodes may be a node, None or a collection with Nones
    w.contract(f"{CTX}.report_error", params={"message": "str", "nodes": "opaque"},
               ensures=["ghost('errs') == old(ghost('errs')) + 1"], ghost_modifies=["errs"],
               modifies=["self.errors"], assumed=True)

    NEVER = dict(raises=[], ghost_modifies=["errs"], modifies=["self.errors"],
                 loop_all=["ghost('errs') >= old(ghost('errs'))"])
    # the non-null cycle search: a DFS that follows exactly the fields whose type is NonNull(InputObject)
    # - whether or not the field has a default value (a default does not make the cycle breakable
    # for a client that provides the field) - enters a type once, restores its path index on exit and
    # terminates (measure: input object types not yet visited)
    NN = f"{V}.InputObjectNonNullCircularRefsValidator"
    w.alias("InputObjectNonNullCircularRefsValidator", NN)
    w.alias("SchemaValidationContext", CTX)
    w.shape("InputObjectNonNullCircularRefsValidator", context="obj:SchemaValidationContext",
            visited_types=("nameset", "circ_unvisited"), field_path=("list", ("tuple", "str", "dyn")),
            field_path_index_by_type_name=("map", "int"))
    w.contract(f"{NN}.__call__", params={"input_obj": "ty"},
               requires=["kind_is(input_obj, 'INPUT_OBJECT')",
                         "not mhas(self.field_path_index_by_type_name, input_obj.name)"],
               ensures=["ghost('errs') >= old(ghost('errs'))",
                        "ghost('circ_unvisited') <= old(ghost('circ_unvisited'))", "ghost('circ_unvisited') >= 0",
                        "forall_int(k, mhas(self.field_path_index_by_type_name, k)"
                        " == old(mhas(self.field_path_index_by_type_name, k)))"],
               raises=[], modifies=None, ghost_modifies=["errs", "circ_unvisited"], ghost_calls=["circ_calls"],
               modifies_maps=True, decreases=["ghost('circ_unvisited')"],
               loops={1: {"invariant": [
                   "ghost('errs') >= old(ghost('errs'))",
                   "ghost('circ_unvisited') <= old(ghost('circ_unvisited')) - 1", "ghost('circ_unvisited') >= 0",
                   "forall_int(k, mhas(self.field_path_index_by_type_name, k) =="
                   " (old(mhas(self.field_path_index_by_type_name, k)) or k == mkey(name)))"],
                   "step_post": [
                   # every non-null input-object edge is followed (or closes a cycle that is reported)
                   "implies(NonNull(field.type) and kind_is(of(field.type), 'INPUT_OBJECT'),"
                   " ghost('circ_calls') == at_iter_start(ghost('circ_calls')) + 1"
                   " or (ghost('circ_calls') == at_iter_start(ghost('circ_calls'))"
                   " and ghost('errs') == at_iter_start(ghost('errs')) + 1))",
                   "implies(not (NonNull(field.type) and kind_is(of(field.type), 'INPUT_OBJECT')),"
                   " ghost('circ_calls') == at_iter_start(ghost('circ_calls'))"
                   " and ghost('errs') == at_iter_start(ghost('errs')))",
                   ]}},
               props={"C20"})
    w.contract(f"{NN}.__init__", params={"context": "opaque"},
               ensures=["forall_int(k, not mhas(self.field_path_index_by_type_name, k))"], raises=[], assumed=True)
    for cls in ("InputObjectDefaultValueCircularRefsValidator",):
        w.contract(f"{V}.{cls}.__call__", params={"input_obj": "ty"},
                   requires=["kind_is(input_obj, 'INPUT_OBJECT')"],
                   ensures=["ghost('errs') >= old(ghost('errs'))"], raises=[],
                   ghost_modifies=["errs"], assumed=True)
        w.contract(f"{V}.{cls}.__init__", params={"context": "opaque"}, ensures=[], raises=[],
                   assumed=True)
    MONO = ["ghost('errs') >= old(ghost('errs'))"]

    w.contract(f"{CTX}.validate_name", params={"node": "ref:GraphQLDirective", "name": "opt:str"},
               ensures=MONO, props={"C20"}, **NEVER)
    w.contract(f"{CTX}.validate_one_of_input_object_field",
               params={"type_": "ty", "field_name": "str", "field": "ref:GraphQLInputField"},
               ensures=MONO + [
                   # reports exactly when the OneOf restrictions are violated
                   "(ghost('errs') > old(ghost('errs'))) == (NonNull(field.type)"
                   " or field.default is not None or not is_undefined(field.default_value))"],
               props={"C20"}, **NEVER)
    w.contract(f"{CTX}.validate_default_value",
               params={"input_value": "ref:GraphQLArgument", "arg_str": "str"},
               ensures=MONO, props={"C20"}, **NEVER)
    w.contract(f"{V}.validate_default_input",
               params={"default_input": "ref:GraphQLDefaultInput", "input_type": "ty",
                       "on_error": ("callback", "cb"), "hide_suggestions": "bool"},
               # raises nothing when on_error does not raise (here: a lambda appending to a list);
               # relies on the C15 contracts of validate_input_value / validate_input_literal
               requires=["InputTy(input_type)"], ensures=[], raises=[],
               ghost_modifies=["cb"], assumed=True)
    w.contract(f"{V}.uncoerce_default_value", params={"value": "dyn", "type_": "ty"},
               returns="dyn", requires=["InputTy(type_)"], ensures=[], raises=["Exception"],
               assumed=True)
    w.contract("graphql.utilities.validate_input_value.validate_input_value",
               params={"input_value": "dyn", "type_": "ty", "on_error": ("callback", "cb"),
                       "hide_suggestions": "bool"},
               requires=["InputTy(type_)"], ensures=[], raises=["Exception"],
               ghost_modifies=["cb"], assumed=True)
    w.contract("graphql.pyutils.print_path_list.print_path_list", params={"path": "opaque"},
               returns="str", ensures=[], assumed=True)

    for m, params in (
        ("validate_fields", {"type_": "ty"}),
        ("validate_input_fields", {"input_obj": "ty"}),
        ("validate_interfaces", {"type_": "ty"}),
        ("validate_type_implements_interface", {"type_": "ty", "iface": "ty"}),
        ("validate_type_implements_ancestors", {"type_": "ty", "iface": "ty"}),
        ("validate_union_members", {"union": "ty"}),
        ("validate_enum_values", {"enum_type": "ty"}),
        ("validate_root_types", {}),
        ("validate_directives", {}),
        ("validate_types", {}),
    ):
        req = {
            "validate_fields": ["kind_is(type_, 'OBJECT') or kind_is(type_, 'INTERFACE')"],
            "validate_input_fields": ["kind_is(input_obj, 'INPUT_OBJECT')"],
            "validate_interfaces": ["kind_is(type_, 'OBJECT') or kind_is(type_, 'INTERFACE')"],
            "validate_type_implements_interface": [
                "kind_is(type_, 'OBJECT') or kind_is(type_, 'INTERFACE')",
                "kind_is(iface, 'INTERFACE')"],
            "validate_type_implements_ancestors": [
                "kind_is(type_, 'OBJECT') or kind_is(type_, 'INTERFACE')",
                "kind_is(iface, 'INTERFACE')"],
            "validate_union_members": ["kind_is(union, 'UNION')"],
            "validate_enum_values": ["kind_is(enum_type, 'ENUM')"],
        }.get(m, [])
        extra = {}
        if m == "validate_type_implements_interface":
            # per-iteration contracts of the two argument loops (reports <=> the rule is violated)
            extra["loops"] = {
                2: {"step_post": [
                    # an interface argument must exist on the field with an equal type
                    "ghost('errs') == at_iter_start(ghost('errs')) + ite("
                    "not omap_has(type_field.args, arg_name)"
                    " or not EqT(iface_arg.type, omap_at(type_field.args, arg_name).type), 1, 0)"]},
                3: {"step_post": [
                    # an additional argument must not be required
                    "ghost('errs') == at_iter_start(ghost('errs')) + ite("
                    "not omap_has(iface_field.args, arg_name) and Required(type_arg), 1, 0)"]},
            }
        if m == "validate_types":
            # the non-null cycle search starts every top-level call with an empty path index
            # (created empty, restored by every call)
            extra["loops"] = {1: {"invariant": MONO + [
                "forall_int(k, not mhas(validate_input_object_non_null_circular_refs."
                "field_path_index_by_type_name, k))"]}}
            extra["modifies_maps"] = True
        w.contract(f"{CTX}.{m}", params=params, requires=req, ensures=MONO, props={"C20"},
                   **dict(NEVER, **({"ghost_modifies": ["errs", "circ_unvisited"]} if m == "validate_types" else {})),
                   **extra)

    for h, params, ret in (
        ("get_operation_type_node", {"schema": "ref:GraphQLSchema", "operation": "atom:OperationType"},
         "opt:ref:NamedTypeNode"),
        ("get_all_implements_interface_nodes", {"type_": "ty", "iface": "ty"}, ("list", "ref:NamedTypeNode")),
        ("get_union_member_type_nodes", {"union": "ty", "type_name": "str"}, ("list", "ref:NamedTypeNode")),
        ("get_deprecated_directive_node", {"definition_node": "opt:ref:InputValueDefinitionNode"},
         "opt:ref:DirectiveNode"),
    ):
        req = {"get_all_implements_interface_nodes": [
                   "kind_is(type_, 'OBJECT') or kind_is(type_, 'INTERFACE')"],
               "get_union_member_type_nodes": ["kind_is(union, 'UNION')"]}.get(h, [])
        w.contract(f"{V}.{h}", params=params, returns=ret, requires=req, ensures=[], raises=[],
                   modifies=[], props={"C20"})
