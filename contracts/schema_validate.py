"""Side-car contracts for graphql/type/validate.py (C20): schema validation never raises, for any
schema object graph of the declared shapes (attributes havocked), and the loop-free rules report
exactly when the rule is violated (ghost counter 'errs' of report_error calls)."""

V = "graphql.type.validate"
CTX = f"{V}.SchemaValidationContext"


def install(w):
    w.shape("SchemaValidationContext", errors=("list", "opaque"), schema="ref:GraphQLSchema")

    # report_error appends one GraphQLError; nodes may be a node, None or a collection with Nones
    w.contract(f"{CTX}.report_error", params={"message": "str", "nodes": "opaque"},
               ensures=["ghost('errs') == old(ghost('errs')) + 1"], ghost_modifies=["errs"],
               modifies=["self.errors"], assumed=True)

    NEVER = dict(raises=[], ghost_modifies=["errs"], modifies=["self.errors"],
                 loop_all=["ghost('errs') >= old(ghost('errs'))"])
    for cls in ("InputObjectNonNullCircularRefsValidator",
                "InputObjectDefaultValueCircularRefsValidator"):
        w.contract(f"{V}.{cls}.__call__", params={"input_obj": "ty"},
                   requires=["kind_is(input_obj, 'INPUT_OBJECT')"],
                   ensures=["ghost('errs') >= old(ghost('errs'))"], raises=[],
                   ghost_modifies=["errs"], assumed=True)
        w.contract(f"{V}.{cls}.__init__", params={"context": "opaque"}, ensures=[], raises=[],
                   assumed=True)
    MONO = ["ghost('errs') >= old(ghost('errs'))"]

    w.contract(f"{CTX}.validate_name", params={"node": "ref:GraphQLDirective", "name": "opt:str"},
               ensures=MONO, props={"C20"}, **NEVER)
    w.contract(f"{CTX}.validate_one_of_input_object_field",
               params={"type_": "ty", "field_name": "str", "field": "ref:GraphQLInputField"},
               ensures=MONO + [
                   # reports exactly when the OneOf restrictions are violated
                   "(ghost('errs') > old(ghost('errs'))) == (NonNull(field.type)"
                   " or field.default is not None or not is_undefined(field.default_value))"],
               props={"C20"}, **NEVER)
    w.contract(f"{CTX}.validate_default_value",
               params={"input_value": "ref:GraphQLArgument", "arg_str": "str"},
               ensures=MONO, props={"C20"}, **NEVER)
    w.contract(f"{V}.validate_default_input",
               params={"default_input": "ref:GraphQLDefaultInput", "input_type": "ty",
                       "on_error": ("callback", "cb"), "hide_suggestions": "bool"},
               # raises nothing when on_error does not raise (here: a lambda appending to a list);
               # relies on the C15 contracts of validate_input_value / validate_input_literal
               requires=["InputTy(input_type)"], ensures=[], raises=[],
               ghost_modifies=["cb"], assumed=True)
    w.contract(f"{V}.uncoerce_default_value", params={"value": "dyn", "type_": "ty"},
               returns="dyn", requires=["InputTy(type_)"], ensures=[], raises=["Exception"],
               assumed=True)
    w.contract("graphql.utilities.validate_input_value.validate_input_value",
               params={"input_value": "dyn", "type_": "ty", "on_error": ("callback", "cb"),
                       "hide_suggestions": "bool"},
               requires=["InputTy(type_)"], ensures=[], raises=["Exception"],
               ghost_modifies=["cb"], assumed=True)
    w.contract("graphql.pyutils.print_path_list.print_path_list", params={"path": "opaque"},
               returns="str", ensures=[], assumed=True)

    for m, params in (
        ("validate_fields", {"type_": "ty"}),
        ("validate_input_fields", {"input_obj": "ty"}),
        ("validate_interfaces", {"type_": "ty"}),
        ("validate_type_implements_interface", {"type_": "ty", "iface": "ty"}),
        ("validate_type_implements_ancestors", {"type_": "ty", "iface": "ty"}),
        ("validate_union_members", {"union": "ty"}),
        ("validate_enum_values", {"enum_type": "ty"}),
        ("validate_root_types", {}),
        ("validate_directives", {}),
        ("validate_types", {}),
    ):
        req = {
            "validate_fields": ["kind_is(type_, 'OBJECT') or kind_is(type_, 'INTERFACE')"],
            "validate_input_fields": ["kind_is(input_obj, 'INPUT_OBJECT')"],
            "validate_interfaces": ["kind_is(type_, 'OBJECT') or kind_is(type_, 'INTERFACE')"],
            "validate_type_implements_interface": [
                "kind_is(type_, 'OBJECT') or kind_is(type_, 'INTERFACE')",
                "kind_is(iface, 'INTERFACE')"],
            "validate_type_implements_ancestors": [
                "kind_is(type_, 'OBJECT') or kind_is(type_, 'INTERFACE')",
                "kind_is(iface, 'INTERFACE')"],
            "validate_union_members": ["kind_is(union, 'UNION')"],
            "validate_enum_values": ["kind_is(enum_type, 'ENUM')"],
        }.get(m, [])
        extra = {}
        if m == "validate_type_implements_interface":
            # per-iteration contracts of the two argument loops (reports <=> the rule is violated)
            extra["loops"] = {
                2: {"step_post": [
                    # an interface argument must exist on the field with an equal type
                    "ghost('errs') == at_iter_start(ghost('errs')) + ite("
                    "not omap_has(type_field.args, arg_name)"
                    " or not EqT(iface_arg.type, omap_at(type_field.args, arg_name).type), 1, 0)"]},
                3: {"step_post": [
                    # an additional argument must not be required
                    "ghost('errs') == at_iter_start(ghost('errs')) + ite("
                    "not omap_has(iface_field.args, arg_name) and Required(type_arg), 1, 0)"]},
            }
        w.contract(f"{CTX}.{m}", params=params, requires=req, ensures=MONO, props={"C20"},
                   **NEVER, **extra)

    for h, params, ret in (
        ("get_operation_type_node", {"schema": "ref:GraphQLSchema", "operation": "atom:OperationType"},
         "opt:ref:NamedTypeNode"),
        ("get_all_implements_interface_nodes", {"type_": "ty", "iface": "ty"}, ("list", "ref:NamedTypeNode")),
        ("get_union_member_type_nodes", {"union": "ty", "type_name": "str"}, ("list", "ref:NamedTypeNode")),
        ("get_deprecated_directive_node", {"definition_node": "opt:ref:InputValueDefinitionNode"},
         "opt:ref:DirectiveNode"),
    ):
        req = {"get_all_implements_interface_nodes": [
                   "kind_is(type_, 'OBJECT') or kind_is(type_, 'INTERFACE')"],
               "get_union_member_type_nodes": ["kind_is(union, 'UNION')"]}.get(h, [])
        w.contract(f"{V}.{h}", params=params, returns=ret, requires=req, ensures=[], raises=[],
                   modifies=[], props={"C20"})
