"""Side-car contracts for block_string.py / print_string.py (C08)."""

B = "graphql.language.block_string"


def install(w):
    w.define("WS", "c", "c == 32 or c == 9")
    # lws(s): the number of leading WhiteSpace characters of s - an uninterpreted function whose
    # three defining facts are added whenever a term is built
    import z3
    from pyvc import sym
    from pyvc.sym import VInt, VStr
    LWS = z3.Function("lws", sym.ArrS, sym.I, sym.I)

    def f_lws(it, s_):
        from theories.val import canon_str
        from pyvc.sym import VOpaque, VAtom
        if isinstance(s_, (VOpaque, VAtom)):
            return it.fresh_int("undef")      # undefined operand inside a guarded clause
        arr, n = canon_str(it, s_) if not isinstance(s_, VStr) else _canon(it, s_)
        r = LWS(arr, n)
        bound = getattr(it, "bound_vars", [])
        if not _mentions(r, bound):
            # the three defining facts, for ground terms (instances under a quantifier of a clause
            # get none: the proofs need them for the current line only)
            k = z3.Int(it.namer.fresh("k"))
            ws = lambda c: z3.Or(c == 32, c == 9)   # noqa: E731
            it.sadd(z3.And(0 <= r, r <= n))
            it.sadd(z3.ForAll([k], z3.Implies(z3.And(0 <= k, k < r), ws(z3.Select(arr, k)))))
            it.sadd(z3.Or(r == n, z3.Not(ws(z3.Select(arr, r)))))
        return VInt(r)

    def _mentions(t, consts):
        if not consts:
            return False
        ids = {c.get_id() for c in consts}
        todo, seen = [t], set()
        while todo:
            x = todo.pop()
            i = x.get_id()
            if i in ids:
                return True
            if i in seen:
                continue
            seen.add(i)
            if z3.is_app(x):
                todo.extend(x.children())
            elif z3.is_quantifier(x):
                todo.append(x.body())
        return False

    def _canon(it, s_):
        vv = sym.as_view(s_)
        if z3.eq(z3.simplify(vv.lo), z3.IntVal(0)):
            return vv.arr, vv.hi
        j = z3.Int(it.namer.fresh("j"))
        return z3.Lambda([j], z3.Select(vv.arr, vv.lo + j)), z3.simplify(vv.hi - vv.lo)
    w.spec_funcs["lws"] = f_lws
    w.define("NB", "s", "lws(s) < len(s)")      # a line that is not blank
    # WhiteSpace of the spec is space and tab only: the common indentation of BlockStringValue counts
    # exactly the maximal run of those at the start of a line
    w.contract(f"{B}.leading_white_space", params={"s": "str"}, returns="int",
               ensures=["0 <= result <= len(s)",
                        "forall(i, 0, result, WS(cp(s, i)))",
                        "result == len(s) or not WS(cp(s, result))",
                        "result == lws(s)"],
               raises=[], modifies=[],
               loops={1: {"invariant": ["i == _i", "forall(k, 0, _i, WS(cp(s, k)))"]}},
               props={"C08", "C09"})
    # BlockStringValue(rawValue) of the specification, on the list of raw lines:
    #   commonIndent = the smallest indentation of the non-blank lines after the first (if any),
    #   removed from every line but the first; then leading and trailing blank lines are dropped
    w.contract(f"{B}.dedent_block_string_lines", params={"lines": ("list", "str")},
               returns=("list", "str"), ensures=[], raises=[], modifies=[],
               locals={"first_non_empty_line": "opt:int"},
               loops={1: {"invariant": [
                   "forall(j, 1, _i, implies(NB(lines[j]), common_indent <= lws(lines[j])))",
                   "common_indent == maxsize"
                   " or exists(j, 1, _i, NB(lines[j]) and lws(lines[j]) == common_indent)",
                   "implies(first_non_empty_line is None, forall(j, 0, _i, not NB(lines[j])))",
                   "implies(first_non_empty_line is not None, 0 <= first_non_empty_line"
                   " and first_non_empty_line < _i)",
                   "implies(first_non_empty_line is not None, NB(lines[first_non_empty_line]))",
                   "implies(first_non_empty_line is not None,"
                   " forall(j, 0, first_non_empty_line, not NB(lines[j])))",
                   "-1 <= last_non_empty_line and last_non_empty_line < _i",
                   "implies(last_non_empty_line >= 0, NB(lines[last_non_empty_line]))",
                   "forall(j, last_non_empty_line + 1, _i, not NB(lines[j]))",
                   "(last_non_empty_line == -1) == (first_non_empty_line is None)"]}},
               exit_post=[
                   # the three quantities the result is cut with
                   "forall(j, 1, len(lines), implies(NB(lines[j]), common_indent <= lws(lines[j])))",
                   "common_indent == maxsize"
                   " or exists(j, 1, len(lines), NB(lines[j]) and lws(lines[j]) == common_indent)",
                   # (that every line before first_non_empty_line is blank is loop invariant 5 at
                   # exit, where _i == len(lines); restating it here only costs solver time)
                   "forall(j, last_non_empty_line + 1, len(lines), not NB(lines[j]))",
                   "implies(last_non_empty_line >= 0, NB(lines[last_non_empty_line])"
                   " and NB(lines[first_non_empty_line]))",
                   "implies(last_non_empty_line == -1, first_non_empty_line == 0)",
                   # the result: lines first..last, every line but line 0 without the common indent
                   "len(result) == max(last_non_empty_line - first_non_empty_line + 1, 0)",
                   "forall(k, 0, len(result), result[k] == ite(first_non_empty_line + k > 0,"
                   " lines[first_non_empty_line + k][common_indent:], lines[first_non_empty_line + k]))",
               ],
               props={"C08", "C09", "C01"})
    # decisions of print_block_string that a print -> lex round trip needs (stated over the
    # function's own line split, which the regex model ties to the lexer's line terminators):
    w.contract(f"{B}.print_block_string", params={"value": "str", "minimize": "bool"},
               returns="str", ensures=[], raises=[],
               exit_post=[
                   # the printer splits on exactly the lexer's line terminators
                   "len(lines) == 1 + count_lt(escaped_value)",
                   # a single line starting with white space must not get a leading new line
                   # (BlockStringValue would strip that white space as common indentation)
                   "implies(len(lines) == 1 and len(value) > 0 and WS(cp(value, 0)), before == '')",
                   # if every later line is blank or starts with white space, the first line must
                   # be protected by a leading new line
                   "implies(len(lines) > 1 and forall(j, 1, len(lines), len(lines[j]) == 0"
                   " or WS(cp(lines[j], 0))), before == '\\n')",
                   # a trailing quote or backslash needs a trailing new line
                   "implies(len(value) > 0 and cp(value, len(value) - 1) == 92, after == '\\n')",
                   "implies(len(value) > 0 and cp(value, len(value) - 1) == 34"
                   " and not ends_with_escaped_triple(escaped_value), after == '\\n')",
                   "before == '' or before == '\\n'", "after == '' or after == '\\n'",
               ],
               props={"C08", "C09"})
