"""Side-car contracts for block_string.py / print_string.py (C08)."""

B = "graphql.language.block_string"


def install(w):
    w.define("WS", "c", "c == 32 or c == 9")
    # WhiteSpace of the spec is space and tab only: the common indentation of BlockStringValue counts
    # exactly the maximal run of those at the start of a line
    w.contract(f"{B}.leading_white_space", params={"s": "str"}, returns="int",
               ensures=["0 <= result <= len(s)",
                        "forall(i, 0, result, WS(cp(s, i)))",
                        "result == len(s) or not WS(cp(s, result))"],
               raises=[], modifies=[],
               loops={1: {"invariant": ["i == _i", "forall(k, 0, _i, WS(cp(s, k)))"]}},
               props={"C08", "C09"})
    # decisions of print_block_string that a print -> lex round trip needs (stated over the
    # function's own line split, which the regex model ties to the lexer's line terminators):
    w.contract(f"{B}.print_block_string", params={"value": "str", "minimize": "bool"},
               returns="str", ensures=[], raises=[],
               exit_post=[
                   # the printer splits on exactly the lexer's line terminators
                   "len(lines) == 1 + count_lt(escaped_value)",
                   # a single line starting with white space must not get a leading new line
                   # (BlockStringValue would strip that white space as common indentation)
                   "implies(len(lines) == 1 and len(value) > 0 and WS(cp(value, 0)), before == '')",
                   # if every later line is blank or starts with white space, the first line must
                   # be protected by a leading new line
                   "implies(len(lines) > 1 and forall(j, 1, len(lines), len(lines[j]) == 0"
                   " or WS(cp(lines[j], 0))), before == '\\n')",
                   # a trailing quote or backslash needs a trailing new line
                   "implies(len(value) > 0 and cp(value, len(value) - 1) == 92, after == '\\n')",
                   "implies(len(value) > 0 and cp(value, len(value) - 1) == 34"
                   " and not ends_with_escaped_triple(escaped_value), after == '\\n')",
                   "before == '' or before == '\\n'", "after == '' or after == '\\n'",
               ],
               props={"C08", "C09"})
