"""Side-car contracts for source.py, location.py, print_location.py (C10)."""

S = "graphql.language.source"
L = "graphql.language.location"
P = "graphql.language.print_location"


def install(w):
    # a copied token (copy / deepcopy of an AST or of a schema with AST nodes) reports the same
    # offsets, line and column as the original
    w.contract("graphql.language.ast.Token.__copy__", returns="obj:Token",
               ensures=["result.start == self.start", "result.end == self.end", "result.line == self.line",
                        "result.column == self.column", "result.kind == self.kind"],
               raises=[], modifies=[], props={"C10"})
    w.alias("Location", "graphql.language.ast.Location")
    w.shape("Location", start="int", end="int", source="obj:Source",
            start_token="obj:Token", end_token="obj:Token")

    # the property statement itself: line = 1 + #terminators before the offset,
    # column = 1 + distance from the end of the last one (offsets inside a CR LF pair excluded)
    LOC_POST = [
        "result.line == 1 + nlt(self.body, min(position, len(self.body)))",
        "implies(not midCRLF(self.body, position),"
        " result.column == position + 1 - lls(self.body, min(position, len(self.body))))",
        "result.line >= 1",
        "result.line <= 1 + nlt(self.body, len(self.body))",
    ]
    w.contract(f"{S}.Source.get_location", params={"position": "int"},
               returns="ntuple:SourceLocation",
               requires=["0 <= position",
                         # assumed link between the regex match sequence and nlt/lls (lines.py)
                         "match_link(self.body, min(position, len(self.body)))"],
               ensures=LOC_POST, modifies=[],
               loops={1: {"invariant": [
                   "line == 1 + _i",
                   "0 <= last_line_start",
                   "implies(_i == 0, last_line_start == 0)",
                   "implies(_i > 0, last_line_start == match_end(self.body, _i - 1))",
                   "implies(_i > 0, match_start(self.body, _i - 1) < position)"]}},
               props={"C10"})
    w.contract(f"{L}.get_location", params={"source": "obj:Source", "position": "int"},
               returns="ntuple:SourceLocation",
               requires=["0 <= position",
                         "match_link(source.body, min(position, len(source.body)))"],
               ensures=[c.replace("self.body", "source.body") for c in LOC_POST],
               modifies=[], props={"C10"})

    w.contract(f"{P}.print_prefixed_lines",
               params={"lines": ("list", ("tuple", "str", "opt:str"))}, returns="str",
               requires=["exists(i, 0, len(lines), lines[i][1] is not None)"],
               ensures=[], modifies=[], props={"C10"})
    w.contract(f"{P}.print_source_location",
               params={"source": "obj:Source", "source_location": "ntuple:SourceLocation"},
               returns="str",
               requires=["1 <= source_location.line",
                         "source_location.line <= 1 + nlt(source.body, len(source.body))",
                         "1 <= source_location.column",
                         "source.location_offset.line >= 1", "source.location_offset.column >= 1"],
               ensures=[], modifies=[],
               # a configured location offset: the rendered line is shifted by the offset's line, the
               # rendered column by the offset's column on the first line OF THE SOURCE only
               exit_post=["line_num == source_location.line + source.location_offset.line - 1",
                          "column_num == source_location.column + ite(source_location.line == 1,"
                          " source.location_offset.column - 1, 0)"],
               props={"C10"})
    w.contract(f"{P}.print_location", params={"location": "obj:Location"}, returns="str",
               requires=["0 <= location.start",
                         "not midCRLF(location.source.body, location.start)",
                         "match_link(location.source.body, min(location.start, len(location.source.body)))",
                         "location.source.location_offset.line >= 1",
                         "location.source.location_offset.column >= 1"],
               ensures=[], modifies=[], props={"C10"})
