"""Side-car contracts for the recursions that follow fragment spreads (C01: the pipeline is total -
a cyclic fragment must not send validation into unbounded recursion).

Termination is a VARIANT obligation: every recursive call lowers the lexicographic measure
    ( number of fragment names of the document that are not yet in the visited set ,  ast_size of the selection set ).
The first component is the ghost 'unvisited' maintained by the name-set model (pyvc/namesets.py) from
the code's own `name in visited` tests and `visited.add(name)` calls; the second needs A_AST (syntax
trees are finite trees).  A spread may be followed only after its name went into the set, an inline
fragment or field descends into a strictly smaller node with the set not smaller."""

DSR = "graphql.validation.rules.defer_stream_directive_on_root_field"


def install(w):
    from graphql.language import ast as A
    for n in ("FragmentDefinitionNode", "SelectionSetNode", "InlineFragmentNode", "FragmentSpreadNode",
              "FieldNode", "DirectiveNode", "NameNode"):
        w.class_aliases.setdefault(n, getattr(A, n))
    w.shape("FragmentDefinitionNode", selection_set="ref:SelectionSetNode", name="ref:NameNode")
    w.shape("FragmentSpreadNode", name="ref:NameNode")
    w.shape("InlineFragmentNode", selection_set="ref:SelectionSetNode")
    w.shape("DirectiveNode", arguments=("list", "ref:ArgumentNode"), name="ref:NameNode")
    w.contract(f"{DSR}.get_directive", params={"node": "ref:SelectionNode", "name": "str"},
               returns="opt:ref:DirectiveNode", ensures=[], raises=[], modifies=[], props={"C01"})
    w.contract("graphql.validation.rules.ASTValidationRule.report_error", params={"error": "opaque"},
               ensures=[], raises=["GraphQLError"], modifies=[], assumed=True)
    w.contract(f"{DSR}.DeferStreamDirectiveOnRootField.forbid_defer_stream",
               params={"operation_type": "dyn", "root_type": "ty",
                       "fragments": ("namemap", "ref:FragmentDefinitionNode"),
                       "selection_set": "ref:SelectionSetNode",
                       "visited_fragments": ("nameset", "unvisited")},
               requires=["kind_is(root_type, 'OBJECT')"],
               ensures=["ghost('unvisited') <= old(ghost('unvisited'))", "ghost('unvisited') >= 0"],
               raises=["GraphQLError"], modifies=[], ghost_modifies=["unvisited"],
               decreases=["ghost('unvisited')", "ast_size(selection_set)"],
               loops={1: {"invariant": ["ghost('unvisited') <= old(ghost('unvisited'))",
                                        "ghost('unvisited') >= 0"]}},
               props={"C01"})

    DVO = "graphql.validation.rules.defer_stream_directive_on_valid_operations_rule"
    w.contract(f"{DVO}.get_directive", params={"node": "ref:SelectionNode", "name": "str"},
               returns="opt:ref:DirectiveNode", ensures=[], raises=[], modifies=[], props={"C01"})
    for fn in ("if_argument_can_be_false", "can_be_skipped_via_skip_directive",
               "can_be_skipped_via_include_directive"):
        w.contract(f"{DVO}.{fn}", params={"node": "ref:DirectiveNode"}, returns="bool", ensures=[],
                   raises=[], modifies=[], props={"C01"})
    w.contract(f"{DVO}.get_if_argument", params={"node": "ref:DirectiveNode"},
               returns="opt:ref:ArgumentNode", ensures=[], raises=[], modifies=[], props={"C01"})
    w.contract(f"{DVO}.DeferStreamDirectiveOnValidOperationsRule.forbid_unconditional_defer_stream",
               params={"fragments": ("namemap", "ref:FragmentDefinitionNode"),
                       "selection_set": "ref:SelectionSetNode",
                       "parent_nodes": ("list", "ref:FragmentSpreadNode"),
                       "visited_fragments": ("nameset", "unvisited2")},
               ensures=["ghost('unvisited2') <= old(ghost('unvisited2'))", "ghost('unvisited2') >= 0"],
               raises=["GraphQLError"], modifies=[], ghost_modifies=["unvisited2"],
               decreases=["ghost('unvisited2')", "ast_size(selection_set)"],
               loops={1: {"invariant": ["ghost('unvisited2') <= old(ghost('unvisited2'))",
                                        "ghost('unvisited2') >= 0"]}},
               props={"C01"})

    # ---- NoFragmentCyclesRule: DFS over the spread graph; a fragment is entered once --------------
    NFC = "graphql.validation.rules.no_fragment_cycles"
    VC = "graphql.validation.validation_context"
    w.alias("NoFragmentCyclesRule", f"{NFC}.NoFragmentCyclesRule")
    w.shape("NoFragmentCyclesRule", visited_frags=("nameset", "nfc_unvisited"),
            spread_path=("list", "ref:FragmentSpreadNode"), spread_path_index_by_name=("map", "int"),
            context="obj:ValidationContext")
    w.contract(f"{NFC}.NoFragmentCyclesRule.detect_cycle_recursive",
               params={"fragment": "ref:FragmentDefinitionNode"},
               # the fragment is one of the document's definitions (get_fragment found it / the
               # traversal entered it)
               # and it is not on the current spread path (its name has no path index)
               requires=["ns_universe(fragment.name.value)",
                         "not mhas(self.spread_path_index_by_name, fragment.name.value)"],
               ensures=["ghost('nfc_unvisited') <= old(ghost('nfc_unvisited'))", "ghost('nfc_unvisited') >= 0",
                        # the path index is restored: exactly the names on the caller's path
                        "forall_int(k, mhas(self.spread_path_index_by_name, k)"
                        " == old(mhas(self.spread_path_index_by_name, k)))"],
               raises=["GraphQLError"], modifies=None, ghost_modifies=["nfc_unvisited"], modifies_maps=True,
               decreases=["ghost('nfc_unvisited')"],
               loops={1: {"invariant": ["ghost('nfc_unvisited') <= old(ghost('nfc_unvisited')) - 1",
                                        "ghost('nfc_unvisited') >= 0",
                                        "forall_int(k, mhas(spread_path_index, k) =="
                                        " (old(mhas(self.spread_path_index_by_name, k)) or k == mkey(fragment_name)))"]}},
               props={"C01"})

    # ---- MaxIntrospectionDepthRule._check_depth: fragments are marked while they are on the current
    # path and unmarked afterwards; measure (fragments not on the path, size of the node) -------------
    MID = "graphql.validation.rules.max_introspection_depth_rule"
    w.alias("MaxIntrospectionDepthRule", f"{MID}.MaxIntrospectionDepthRule")
    w.shape("MaxIntrospectionDepthRule", _visited_fragments=("nameset", "mid_unvisited"),
            # set to context.get_fragment by __init__ (not under contract): a lookup in the document's
            # fragment table
            _get_fragment=("name_lookup", "ref:FragmentDefinitionNode"), context="obj:ValidationContext")
    w.contract(f"{MID}.MaxIntrospectionDepthRule._check_depth",
               # called with fields, inline fragments, spreads and fragment definitions: the shape of a
               # selection (name, selection_set) covers what the body reads
               params={"node": "ref:SelectionNode", "depth": "int"}, returns="bool",
               ensures=["ghost('mid_unvisited') == old(ghost('mid_unvisited'))",
                        "forall_int(k, ns_has_key(self._visited_fragments, k) == old(ns_has_key(self._visited_fragments, k)))"],
               raises=[], modifies=None, ghost_modifies=["mid_unvisited"],
               decreases=["ghost('mid_unvisited')", "ast_size(node)"],
               loops={1: {"invariant": [
                   "ghost('mid_unvisited') == old(ghost('mid_unvisited'))",
                   "forall_int(k, ns_has_key(self._visited_fragments, k) == old(ns_has_key(self._visited_fragments, k)))"]}},
               props={"C01"})
