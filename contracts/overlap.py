"""Side-car contracts for the orchestration functions of the overlapping-fields rule (C14).

FieldsInSetCanMerge quantifies over every pair of fields of a selection set with fragments
expanded.  The rule decomposes that pair space: within one field map; a field map against each
fragment spread; spread against spread; and, for the sub-selections of two fields, side 1 against
side 2 in the same three ways.  What is decided here, for every activation of each of the five
functions and for every list length, is the *wiring* of that decomposition:

  * every call passes the operands the decomposition needs (call-site assertions: which field map,
    which spread of which side, the exclusivity flag unchanged, the shared tables passed through);
  * every element of a spread list is handed to exactly one call per iteration (ghost call counts).

The callees' own effects are assumed frames (they only append to `conflicts` or report); the
induction over the fragment graph that turns this wiring into "no pair is missed" is not mechanised
(props/C14.py, unverified)."""

OF = "graphql.validation.rules.overlapping_fields_can_be_merged"
D = "dyn"
SHARED = {"context": D, "conflicts": ("list", D), "cached_fields_and_fragment_spreads": D,
          "compared_fields_and_fragment_pairs": D, "compared_fragment_pairs": D}
PASS = ["same(arg_context, context)", "arg_conflicts is conflicts",
        "same(arg_cached_fields_and_fragment_spreads, cached_fields_and_fragment_spreads)",
        "same(arg_compared_fields_and_fragment_pairs, compared_fields_and_fragment_pairs)",
        "same(arg_compared_fragment_pairs, compared_fragment_pairs)"]
PASS_GET = ["same(arg_context, context)",
            "same(arg_cached_fields_and_fragment_spreads, cached_fields_and_fragment_spreads)"]
RAISES = ["Exception"]      # context.report_error may abort validation (error limit)
# context and the two pair tables are library objects (ValidationContext, OrderedPairSet, PairSet)
# created by the rule; in these contracts they are dynamic values, so that their methods exist and
# are callable is not re-proved here (PairSet / OrderedPairSet themselves: contracts/pairset.py)
WAIVE = ["call of a non-callable"]


def member(lst, x):
    return f"exists(j, 0, len({lst}), same({lst}[j], {x}))"


def install(w):
    PAIR = ("tuple", D, ("list", D))
    # ---- leaves of the orchestration: assumed frames with ghost call counters ------------------
    w.contract(f"{OF}.get_fields_and_fragment_spreads",
               params={"context": D, "cached_fields_and_fragment_spreads": D, "parent_type": D,
                       "selection_set": D, "var_map": D},
               returns=PAIR, ensures=[], raises=[], modifies=[], assumed=True)
    w.contract(f"{OF}.get_referenced_fields_and_fragment_spreads",
               params={"context": D, "cached_fields_and_fragment_spreads": D, "fragment": D,
                       "var_map": D},
               returns=PAIR, ensures=[], raises=[], modifies=[], assumed=True)
    w.contract(f"{OF}.collect_conflicts_within", params=dict(SHARED, field_map=D),
               ensures=[], raises=RAISES, modifies=[], ghost_calls=["within_calls"], assumed=True)
    w.contract(f"{OF}.collect_conflicts_between",
               params=dict(SHARED, parent_fields_are_mutually_exclusive="bool", field_map1=D,
                           var_map1=D, field_map2=D, var_map2=D),
               ensures=[], raises=RAISES, modifies=[], ghost_calls=["between_calls"], assumed=True)
    w.contract(f"{OF}.same_arguments", params={"args1": D, "var_map1": D, "args2": D, "var_map2": D},
               returns="bool", ensures=[], raises=[], modifies=[], assumed=True)

    # ---- within one selection set ------------------------------------------------------------------
    w.contract(f"{OF}.find_conflicts_within_selection_set",
               params={"context": D, "cached_fields_and_fragment_spreads": D,
                       "compared_fields_and_fragment_pairs": D, "compared_fragment_pairs": D,
                       "parent_type": D, "selection_set": D},
               returns=("list", D), ensures=[], raises=RAISES, modifies=[],
               locals={"conflicts": ("list", D)},
               call_pre={
                   "get_fields_and_fragment_spreads#1": PASS_GET + [
                       "same(arg_parent_type, parent_type)", "same(arg_selection_set, selection_set)",
                       "is_none(arg_var_map)"],
                   "collect_conflicts_within#1": PASS + ["same(arg_field_map, field_map)"],
                   # fields of the set against every spread, never exclusive
                   "collect_conflicts_between_fields_and_fragment#1": PASS + [
                       "not arg_are_mutually_exclusive", "same(arg_field_map, field_map)",
                       member("fragment_spreads", "arg_fragment_spread"),
                       "same(arg_fragment_spread, fragment_spread)"],
                   # every unordered pair of spreads: spread i against each later one
                   "collect_conflicts_between_fragments#1": PASS + [
                       "not arg_are_mutually_exclusive",
                       "same(arg_fragment_spread1, fragment_spread)",
                       "same(arg_fragment_spread2, other_fragment_spread)"]},
               loops={1: {"step_post": [
                   "ghost('ff_calls') == at_iter_start(ghost('ff_calls')) + 1"]},
                      2: {"step_post": [
                   "ghost('frag_calls') == at_iter_start(ghost('frag_calls')) + 1"]}},
               props={"C14", "C13"})

    # ---- a field map against a spread (and, recursively, the spreads it references) ----------------
    w.contract(f"{OF}.collect_conflicts_between_fields_and_fragment",
               params=dict(SHARED, are_mutually_exclusive="bool", field_map=D, fragment_spread=D),
               ensures=[], raises=RAISES, modifies=[], ghost_calls=["ff_calls"], waive=WAIVE,
               call_pre={
                   "get_referenced_fields_and_fragment_spreads#1": PASS_GET + [
                       # an unknown fragment name must have been filtered out before
                       "truthy(arg_fragment)", "same(arg_fragment, fragment)",
                       "same(arg_var_map, fragment_spread.var_map)"],
                   "collect_conflicts_between#1": PASS + [
                       "arg_parent_fields_are_mutually_exclusive == are_mutually_exclusive",
                       "same(arg_field_map1, field_map)", "is_none(arg_var_map1)",
                       "same(arg_field_map2, field_map2)",
                       "same(arg_var_map2, fragment_spread.var_map)"],
                   "collect_conflicts_between_fields_and_fragment#1": PASS + [
                       "arg_are_mutually_exclusive == are_mutually_exclusive",
                       "same(arg_field_map, field_map)",
                       "same(arg_fragment_spread, referenced_fragment_spread)"]},
               loops={1: {"step_post": [
                   "ghost('ff_calls') == at_iter_start(ghost('ff_calls')) + 1"]}},
               props={"C14", "C01", "C13"})

    # ---- spread against spread ---------------------------------------------------------------------
    w.contract(f"{OF}.collect_conflicts_between_fragments",
               params=dict(SHARED, are_mutually_exclusive="bool", fragment_spread1=D,
                           fragment_spread2=D),
               ensures=[], raises=RAISES, modifies=[], ghost_calls=["frag_calls"], waive=WAIVE,
               call_pre={
                   "same_arguments#1": [],
                   "get_referenced_fields_and_fragment_spreads#1": PASS_GET + [
                       "truthy(arg_fragment)", "same(arg_fragment, fragment1)",
                       "same(arg_var_map, fragment_spread1.var_map)"],
                   "get_referenced_fields_and_fragment_spreads#2": PASS_GET + [
                       "truthy(arg_fragment)", "same(arg_fragment, fragment2)",
                       "same(arg_var_map, fragment_spread2.var_map)"],
                   "collect_conflicts_between#1": PASS + [
                       "arg_parent_fields_are_mutually_exclusive == are_mutually_exclusive",
                       "same(arg_field_map1, field_map1)", "same(arg_field_map2, field_map2)",
                       "same(arg_var_map1, fragment_spread1.var_map)",
                       "same(arg_var_map2, fragment_spread2.var_map)"],
                   # spread 1 against what spread 2 references, and what spread 1 references
                   # against spread 2
                   "collect_conflicts_between_fragments#1": PASS + [
                       "arg_are_mutually_exclusive == are_mutually_exclusive",
                       "same(arg_fragment_spread1, fragment_spread1)",
                       "same(arg_fragment_spread2, referenced_fragment_spread2)",
                       member("referenced_fragment_spreads2", "arg_fragment_spread2")],
                   "collect_conflicts_between_fragments#2": PASS + [
                       "arg_are_mutually_exclusive == are_mutually_exclusive",
                       "same(arg_fragment_spread1, referenced_fragment_spread1)",
                       member("referenced_fragment_spreads1", "arg_fragment_spread1"),
                       "same(arg_fragment_spread2, fragment_spread2)"]},
               loops={1: {"step_post": [
                   "ghost('frag_calls') == at_iter_start(ghost('frag_calls')) + 1"],
                          "invariant": ["ghost('frag_calls') == old(ghost('frag_calls')) + _i",
                                        "ghost('between_calls') == old(ghost('between_calls')) + 1"]},
                      2: {"step_post": [
                   "ghost('frag_calls') == at_iter_start(ghost('frag_calls')) + 1"],
                          "invariant": ["ghost('frag_calls') == old(ghost('frag_calls'))"
                                        " + len(referenced_fragment_spreads2) + _i",
                                        "ghost('between_calls') == old(ghost('between_calls')) + 1"]}},
               # once both fragments are found and their field maps collected, nothing is skipped:
               # the two field maps meet once (F) and every nested spread of either side meets the
               # other spread once (G) - whatever the field maps contain
               exit_post=["implies(same(field_map2, field_map2),"
                          " ghost('between_calls') == old(ghost('between_calls')) + 1"
                          " and ghost('frag_calls') == old(ghost('frag_calls'))"
                          " + len(referenced_fragment_spreads2) + len(referenced_fragment_spreads1))"],
               props={"C14", "C01", "C13"})

    # ---- the sub-selections of two fields: side 1 against side 2 -----------------------------------
    w.contract(f"{OF}.find_conflicts_between_sub_selection_sets",
               params={"context": D, "cached_fields_and_fragment_spreads": D,
                       "compared_fields_and_fragment_pairs": D, "compared_fragment_pairs": D,
                       "are_mutually_exclusive": "bool", "parent_type1": D, "selection_set1": D,
                       "var_map1": D, "parent_type2": D, "selection_set2": D, "var_map2": D},
               returns=("list", D), ensures=[], raises=RAISES, modifies=[],
               locals={"conflicts": ("list", D)},
               call_pre={
                   "get_fields_and_fragment_spreads#1": PASS_GET + [
                       "same(arg_parent_type, parent_type1)", "same(arg_selection_set, selection_set1)",
                       "same(arg_var_map, var_map1)"],
                   "get_fields_and_fragment_spreads#2": PASS_GET + [
                       "same(arg_parent_type, parent_type2)", "same(arg_selection_set, selection_set2)",
                       "same(arg_var_map, var_map2)"],
                   "collect_conflicts_between#1": PASS + [
                       "arg_parent_fields_are_mutually_exclusive == are_mutually_exclusive",
                       "same(arg_field_map1, field_map1)", "same(arg_var_map1, var_map1)",
                       "same(arg_field_map2, field_map2)", "same(arg_var_map2, var_map2)"],
                   # the fields of one side against every spread of the OTHER side
                   "collect_conflicts_between_fields_and_fragment#1": PASS + [
                       "arg_are_mutually_exclusive == are_mutually_exclusive",
                       "same(arg_field_map, field_map1)",
                       member("fragment_spreads2", "arg_fragment_spread")],
                   "collect_conflicts_between_fields_and_fragment#2": PASS + [
                       "arg_are_mutually_exclusive == are_mutually_exclusive",
                       "same(arg_field_map, field_map2)",
                       member("fragment_spreads1", "arg_fragment_spread")],
                   # every spread of side 1 against every spread of side 2
                   "collect_conflicts_between_fragments#1": PASS + [
                       "arg_are_mutually_exclusive == are_mutually_exclusive",
                       member("fragment_spreads1", "arg_fragment_spread1"),
                       member("fragment_spreads2", "arg_fragment_spread2"),
                       "same(arg_fragment_spread1, fragment_spread1)",
                       "same(arg_fragment_spread2, fragment_spread2)"]},
               loops={1: {"step_post": ["ghost('ff_calls') == at_iter_start(ghost('ff_calls')) + 1"]},
                      2: {"step_post": ["ghost('ff_calls') == at_iter_start(ghost('ff_calls')) + 1"]},
                      4: {"step_post": [
                          "ghost('frag_calls') == at_iter_start(ghost('frag_calls')) + 1"]}},
               props={"C14", "C13"})


def install_sort(w):
    """sort_value_node normalises argument values before same_arguments compares their printed
    form: every nested value must be normalised (objects inside lists inside objects included).
    Decided: sort_field hands the value of the field - whatever its kind - to sort_value_node,
    exactly once (call-site assertion and ghost call count); the list branch and the field sort
    itself are not under contract."""
    SV = "graphql.utilities.sort_value_node"
    w.contract(f"{SV}.sort_value_node", params={"value_node": D}, returns=D, ensures=[],
               raises=["Exception"], modifies=[], ghost_calls=["svn_calls"], assumed=True)
    w.contract(f"{SV}.sort_field", params={"field": D}, returns=D,
               ensures=["ghost('svn_calls') == old(ghost('svn_calls')) + 1"],
               raises=["Exception"], modifies=[],
               call_pre={"sort_value_node#1": ["same(arg_value_node, field.value)"]},
               havoc_stmts=["values = {k: getattr(field, k) for k in field.keys}"],
               waive=WAIVE, props={"C14", "C13"})


_install_overlap = install


def install(w):   # noqa: F811
    _install_overlap(w)
    install_sort(w)


def install_find_conflict(w):
    """find_conflict: the pairwise rule of FieldsInSetCanMerge / SameResponseShape for two fields
    with the same response name.  Decided (given pure, assumed helpers same_arguments / same_streams /
    subfield_conflicts and the verified do_types_conflict):
      * the two fields may differ in name and arguments only when their parents are known to be
        mutually exclusive: the flag handed down, or two DIFFERENT OBJECT parent types;
      * differing names / arguments / stream directives / response shapes each give a conflict;
      * no conflict is returned only if none of these holds and the sub-selections have none;
      * the sub-selections are compared with the same exclusivity, the named return types as parents
        and each side's own selection set and variable map."""
    import z3
    from pyvc import sym
    from pyvc.sym import VBool
    SA = z3.Function("same_args", sym.ValS, sym.ValS, sym.ValS, sym.ValS, sym.B)
    SS = z3.Function("same_streams", sym.ValS, sym.ValS, sym.B)

    def dyn(it, v):
        return w.to_dyn(it, v).t
    w.spec_funcs["SameArgs"] = lambda it, a, b, c, d: VBool(SA(dyn(it, a), dyn(it, b), dyn(it, c), dyn(it, d)))
    def same_ty_optional(it, a, b):
        """identity of two optional type objects"""
        from pyvc.sym import VAtom
        from pyvc.codec import VOpt
        if isinstance(a, VOpt) or isinstance(b, VOpt):
            raise sym.Unsupported("SameTyOpt of an unresolved optional")
        if isinstance(a, VAtom) or isinstance(b, VAtom):
            return VBool(isinstance(a, VAtom) and isinstance(b, VAtom))
        return VBool(a.t == b.t)
    w.spec_funcs["SameTyOpt"] = same_ty_optional
    w.spec_funcs["SameStreams"] = lambda it, a, b: VBool(SS(dyn(it, a), dyn(it, b)))
    w.contracts[f"{OF}.same_arguments"].ensures = ["result == SameArgs(args1, var_map1, args2, var_map2)"]
    w.contract(f"{OF}.same_streams", params={"directives1": D, "directives2": D}, returns="bool",
               ensures=["result == SameStreams(directives1, directives2)"], raises=[], modifies=[],
               assumed=True)
    w.contract(f"{OF}.subfield_conflicts",
               params={"conflicts": ("list", D), "response_name": "str", "node1": D, "node2": D},
               returns="opt:dyn", ensures=["(result is None) == (len(conflicts) == 0)"], raises=[],
               modifies=[], assumed=True)
    w.shape("FieldNode", arguments=D, directives=D, selection_set=D)
    FIELD = ("tuple", "opt:ty", "ref:FieldNode", "opt:ref:GraphQLField")
    EXCL = ("(parent_fields_are_mutually_exclusive or (field1[0] is not None and field2[0] is not None"
            " and not SameTyOpt(field1[0], field2[0]) and kind_is(field1[0], 'OBJECT')"
            " and kind_is(field2[0], 'OBJECT')))")
    NAMES = "field1[1].name.value == field2[1].name.value"
    ARGS = "SameArgs(field1[1].arguments, var_map1, field2[1].arguments, var_map2)"
    STREAMS = "SameStreams(field1[1].directives, field2[1].directives)"
    SHAPES = ("(field1[2] is None or field2[2] is None"
              " or SameShapeW(field1[2].type, field2[2].type))")
    w.contract(f"{OF}.find_conflict",
               params={"context": D, "cached_fields_and_fragment_spreads": D,
                       "compared_fields_and_fragment_pairs": D, "compared_fragment_pairs": D,
                       "parent_fields_are_mutually_exclusive": "bool", "response_name": "str",
                       "field1": FIELD, "var_map1": D, "field2": FIELD, "var_map2": D},
               returns="opt:dyn",
               requires=["implies(field1[2] is not None, OutputTy(field1[2].type))",
                         "implies(field2[2] is not None, OutputTy(field2[2].type))"],
               ensures=[
                   f"implies(not {EXCL} and not ({NAMES}), result is not None)",
                   f"implies(not {EXCL} and not {ARGS}, result is not None)",
                   f"implies(not {STREAMS}, result is not None)",
                   f"implies(not {SHAPES}, result is not None)",
                   f"implies(result is None, ({EXCL} or (({NAMES}) and {ARGS})) and {STREAMS} and {SHAPES})",
               ],
               raises=RAISES, modifies=[], waive=WAIVE,
               call_pre={
                   "same_arguments#1": ["same(arg_args1, field1[1].arguments)", "same(arg_var_map1, var_map1)",
                                        "same(arg_args2, field2[1].arguments)", "same(arg_var_map2, var_map2)"],
                   "same_streams#1": ["same(arg_directives1, field1[1].directives)",
                                      "same(arg_directives2, field2[1].directives)"],
                   "find_conflicts_between_sub_selection_sets#1": PASS_GET + [
                       "same(arg_compared_fields_and_fragment_pairs, compared_fields_and_fragment_pairs)",
                       "same(arg_compared_fragment_pairs, compared_fragment_pairs)",
                       f"arg_are_mutually_exclusive == {EXCL}",
                       "same(arg_selection_set1, field1[1].selection_set)",
                       "same(arg_selection_set2, field2[1].selection_set)",
                       "same(arg_var_map1, var_map1)", "same(arg_var_map2, var_map2)"]},
               props={"C14", "C13"})


_install_overlap2 = install


def install(w):   # noqa: F811
    _install_overlap2(w)
    install_find_conflict(w)


def install_pair_loops(w):
    """collect_conflicts_within / collect_conflicts_between: the pair space of one response name.
    Within one field map every unordered pair of fields sharing a response name is compared once
    (field i against each later one, never exclusive, no variable maps); between two maps every field
    of the first with every field of the second under the same response name, with the flag and each
    side's variable map; a conflict found is recorded, nothing else is."""
    FIELD = ("tuple", "opt:ty", "ref:FieldNode", "opt:ref:GraphQLField")
    FMAP = ("omap", ("list", FIELD))
    FC_PASS = ["same(arg_context, context)",
               "same(arg_cached_fields_and_fragment_spreads, cached_fields_and_fragment_spreads)",
               "same(arg_compared_fields_and_fragment_pairs, compared_fields_and_fragment_pairs)",
               "same(arg_compared_fragment_pairs, compared_fragment_pairs)",
               "arg_response_name == response_name"]
    w.contracts[f"{OF}.find_conflict"].ghost_calls = ["fc_calls"]
    REC = ["len(conflicts) == at_iter_start(len(conflicts)) + ite(truthy(conflict), 1, 0)",
           "ghost('fc_calls') == at_iter_start(ghost('fc_calls')) + 1"]
    w.contract(f"{OF}.collect_conflicts_within", params=dict(SHARED, field_map=FMAP),
               ensures=[], raises=RAISES, modifies=[], ghost_calls=["within_calls"],
               valid_schema=True,
               call_pre={"find_conflict#1": FC_PASS + [
                   "not arg_parent_fields_are_mutually_exclusive",
                   "arg_field1[1] is field[1]", "arg_field2[1] is other_field[1]",
                   "is_none(arg_var_map1)", "is_none(arg_var_map2)"]},
               loops={3: {"step_post": REC}},
               override=True, props={"C14", "C13"})
    w.contract(f"{OF}.collect_conflicts_between",
               params=dict(SHARED, parent_fields_are_mutually_exclusive="bool", field_map1=FMAP,
                           var_map1=D, field_map2=FMAP, var_map2=D),
               ensures=[], raises=RAISES, modifies=[], ghost_calls=["between_calls"],
               valid_schema=True,
               call_pre={"find_conflict#1": FC_PASS + [
                   "arg_parent_fields_are_mutually_exclusive == parent_fields_are_mutually_exclusive",
                   "arg_field1[1] is field1[1]", "arg_field2[1] is field2[1]",
                   "same(arg_var_map1, var_map1)", "same(arg_var_map2, var_map2)"]},
               loops={3: {"step_post": REC}},
               override=True, props={"C14", "C13"})


_install_overlap3 = install


def install(w):   # noqa: F811
    _install_overlap3(w)
    install_pair_loops(w)
