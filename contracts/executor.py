"""Side-car contracts for the executor's decision points (C02, C03, C01, C16)."""

EX = "graphql.execution.executor"
CF = "graphql.execution.collect_fields"


def install(w):
    w.alias("CollectedErrors", f"{EX}.CollectedErrors")
    w.alias("Executor", f"{EX}.Executor")
    w.shape("CollectedErrors", _error_positions="refset", _errors=("list", "dyn"))

    # ---- CollectedErrors: view = (error list, set of nulled positions) --------------------------
    w.contract(f"{EX}.CollectedErrors.has_nulled_position", params={"start_path": "opt:ref:Path"},
               returns="bool",
               ensures=["result == nulled(self._error_positions, start_path)"],
               modifies=[],
               loops={1: {"invariant": ["nulled(error_positions, start_path) == nulled(error_positions, path)"],
                          "variant": "pdepth(path)"}},
               locals={"path": "opt:ref:Path"},
               props={"C02", "C03"})
    w.contract(f"{EX}.CollectedErrors.add", params={"error": "dyn", "path": "opt:ref:Path"},
               ensures=[
                   # an error under an already nulled position is dropped; otherwise exactly one
                   # error is appended and exactly this position is recorded (whole-view frame)
                   "len(self._errors) == old(len(self._errors)) + ite(old(nulled(self._error_positions, path)), 0, 1)",
                   "forall_ref(q, 'Path', rs_has(self._error_positions, q) =="
                   " (old(rs_has(self._error_positions, q)) or (q is path and not old(nulled(self._error_positions, path)))))",
                   "rs_has(self._error_positions, None) == (old(rs_has(self._error_positions, None))"
                   " or (path is None and not old(nulled(self._error_positions, path))))",
                   "forall(j, 0, old(len(self._errors)), same(self._errors[j], old(self._errors[j])))"],
               modifies=[], ghost_calls=["collected"], props={"C02", "C03"})


def install_executor(w):
    w.shape("Executor", error_propagation="bool", collected_errors="obj:CollectedErrors",
            schema="ref:GraphQLSchema", field_resolver="dyn", middleware_manager="opt:ref:MiddlewareManager",
            variable_values="dyn", hide_suggestions="bool", is_awaitable="dyn",
            fragment_definitions="dyn", root_value="dyn", operation="dyn", context_value="dyn",
            abort_signal="dyn", async_helpers="dyn")
    w.alias("GraphQLResolveInfo", "graphql.type.definition.GraphQLResolveInfo")
    w.contract(f"{EX}.to_nodes", params={"field_details_list": ("list", "dyn")},
               returns=("list", "dyn"), ensures=[], props={"C02"})

    w.contract(f"{EX}.Executor.handle_field_error",
               params={"raw_error": "exc:Exception", "return_type": "ty",
                       "field_details_list": ("list", "dyn"), "path": "ref:Path"},
               # HandleFieldError: a non-null position propagates, anything else records and nulls
               ensures=["not (self.error_propagation and NonNull(return_type))",
                        "ghost('collected') == old(ghost('collected')) + 1"],
               raises=["GraphQLError"],
               on_raise={"GraphQLError": ["self.error_propagation and NonNull(return_type)",
                                          "ghost('collected') == old(ghost('collected'))"]},
               ghost_modifies=["collected"], modifies=[], props={"C01", "C02", "C03"})

    w.contract(f"{EX}.Executor.complete_leaf_value", params={"return_type": "ty", "result": "dyn"},
               returns="dyn", requires=["LeafTy(return_type)"],
               ensures=["not is_none(result)", "not is_undefined(result)"],
               raises=["Exception"], modifies=[], props={"C02", "C16"})

    # the four completion branches: assumed, each counted by a ghost so the dispatch is observable
    for name, g in (("complete_list_value", "c_list"), ("complete_abstract_value", "c_abstract"),
                    ("complete_object_value", "c_object")):
        w.contract(f"{EX}.Executor.{name}",
                   params={"return_type": "ty", "field_details_list": ("list", "dyn"), "info": "dyn",
                           "path": "ref:Path", "result": "dyn", "position_context": "dyn"},
                   returns="dyn",
                   ensures=[f"ghost('{g}') == old(ghost('{g}')) + 1", "not is_none(result)"],
                   raises=["Exception"], ghost_modifies=[g], assumed=True)

    DISPATCH = ["c_list", "c_abstract", "c_object"]

    def only(g):
        return " and ".join(
            f"ghost('{x}') == old(ghost('{x}')){' + 1' if x == g else ''}" for x in DISPATCH)
    w.contract(f"{EX}.Executor.complete_value",
               params={"return_type": "ty", "field_details_list": ("list", "dyn"), "info": "dyn",
                       "path": "ref:Path", "result": "dyn", "position_context": "dyn"},
               returns="dyn", requires=["OutputTy(return_type)"],
               ensures=[],   # filled in below (CompleteValue of the specification)
               raises=["Exception"], ghost_modifies=DISPATCH, modifies=[],
               decreases="ty_rank(return_type)", props={"C02", "C03"})
    c = w.contracts[f"{EX}.Executor.complete_value"]
    # `result` names both the parameter and the return value in clauses; use the parameter through
    # the alias `arg_result` bound by the engine for parameters shadowed by `result`
    c.ensures = [
        "implies(NonNull(return_type), not is_none(result))",
        "implies(not NonNull(return_type) and (is_none(arg_result) or is_undefined(arg_result)),"
        " is_none(result) and " + only(None) + ")",
        "implies(not NonNull(return_type) and not is_none(arg_result) and not is_undefined(arg_result)"
        " and ListTy(return_type), " + only("c_list") + ")",
        "implies(not NonNull(return_type) and not is_none(arg_result) and not is_undefined(arg_result)"
        " and kind_is(return_type, 'OBJECT'), " + only("c_object") + ")",
        "implies(not NonNull(return_type) and not is_none(arg_result) and not is_undefined(arg_result)"
        " and abstract_ty(return_type), " + only("c_abstract") + ")",
        "implies(not NonNull(return_type) and not is_none(arg_result) and not is_undefined(arg_result)"
        " and LeafTy(return_type), not is_none(result) and not is_undefined(result) and " + only(None) + ")",
    ]


_inst_prev = install


def install(w):   # noqa: F811
    _inst_prev(w)
    install_executor(w)


def install_executor2(w):
    FDL = ("list", "dyn")
    w.contract("graphql.type.schema.GraphQLSchema.get_type", params={"self": "schema", "name": "str"},
               returns="opt:ty", ensures=["implies(result is not None, NamedTy(result))"],
               assumed=True)
    w.contract(f"{EX}.Executor.ensure_valid_runtime_type",
               params={"runtime_type_name": "dyn", "return_type": "ty", "field_details_list": FDL,
                       "info": "dyn", "result": "dyn"},
               returns="ty",
               # called by complete_abstract_value only, for an interface or union position
               requires=["kind_is(return_type, 'UNION') or kind_is(return_type, 'INTERFACE')"],
               # the resolved runtime type is an object type that is a possible type of the
               # abstract type; everything else is a GraphQLError (five cases)
               ensures=["is_str(runtime_type_name)", "kind_is(result, 'OBJECT')",
                        "possible(self.schema, return_type, result)"],
               raises=["GraphQLError"], modifies=[], props={"C02"})

    w.contract(f"{EX}.Executor.build_resolve_info",
               params={"field_def": "ref:GraphQLField", "field_nodes": FDL, "parent_type": "ty",
                       "path": "ref:Path"}, returns="dyn", ensures=[], assumed=True)
    w.contract("graphql.type.schema.GraphQLSchema.get_field",
               params={"self": "schema", "parent_type": "ty", "field_name": "str"},
               returns="opt:ref:GraphQLField",
               # schema validity (A7): field types are output types
               ensures=["implies(result is not None, OutputTy(result.type))"], assumed=True)
    w.alias("MiddlewareManager", "graphql.execution.middleware.MiddlewareManager")
    w.contract("graphql.execution.middleware.MiddlewareManager.get_field_resolver",
               params={"field_resolver": "dyn"}, returns="dyn", ensures=["is_other(result)"],
               raises=[], assumed=True)
    w.contract("graphql.execution.values.get_argument_values",
               params={"type_def": "dyn", "node": "dyn", "variable_values": "dyn",
                       "fragment_variable_values": "dyn", "hide_suggestions": "bool"},
               returns="dyn", ensures=[], raises=["GraphQLError"], assumed=True)
    w.shape("GraphQLField", resolve="dyn")
    w.contract("graphql.pyutils.is_awaitable.is_awaitable", params={"value": "dyn"},
               returns="bool", ensures=[], raises=[], assumed=True)
    # execute_field: whatever the resolver, the argument coercion or the completion raise is handed
    # to handle_field_error; nothing but the located error of a non-null position can leave
    w.contract(f"{EX}.Executor.execute_field",
               params={"parent_type": "ty", "source": "dyn", "field_details_list": FDL,
                       "path": "ref:Path", "position_context": "dyn"},
               returns="dyn",
               requires=["len(field_details_list) >= 1", "kind_is(parent_type, 'OBJECT')"],
               ensures=[], raises=["GraphQLError"], ghost_modifies=["collected", "c_list", "c_abstract", "c_object"],
               modifies=[], props={"C01", "C02"})


_inst_prev2 = install


def install(w):   # noqa: F811
    _inst_prev2(w)
    install_executor2(w)


def install_values(w):
    VL = "graphql.execution.values"
    import graphql.language.ast as A
    w.class_aliases["ArgumentNode"] = A.ArgumentNode
    w.class_aliases["ValueNode"] = A.ValueNode
    w.class_aliases["VariableNode"] = A.VariableNode
    w.alias("VariableValues", f"{VL}.VariableValues")
    w.alias("FragmentVariableValues", f"{VL}.FragmentVariableValues")
    w.shape("ArgumentNode", value="ref:ValueNode", name="ref:NameNode", kind="str", loc="opaque")
    w.shape("ValueNode", name="ref:NameNode")     # read only after isinstance(.., VariableNode)
    w.shape("VariableValues", sources=("omap", "dyn"), coerced=("omap", "dyn"))
    w.shape("FragmentVariableValues", sources=("omap", "dyn"), coerced=("omap", "dyn"))

    w.contract(f"{VL}.maybe_use_default_value",
               params={"coerced_values": "recdict", "name": "str", "input_value": "ref:GraphQLArgument",
                       "on_error": "opaque", "hide_suggestions": "bool"},
               ensures=[], raises=["GraphQLError"], ghost_calls=["defaulted"], assumed=True)
    w.contract("graphql.utilities.validate_input_value.validate_input_literal",
               params={"value_node": "ref:ValueNode", "type_": "ty", "on_error": "opaque",
                       "variables": "opaque", "fragment_variable_values": "opaque",
                       "hide_suggestions": "bool"},
               ensures=[], raises=["GraphQLError"], assumed=True)
    w.contract(f"{VL}.print_argument_or_fragment_variable",
               params={"arg_def": "ref:GraphQLArgument", "arg_name": "str", "node": "opaque"},
               returns="str", ensures=[], assumed=True)

    w.define("Required", "a", "NonNull(a.type) and a.default is None and is_undefined(a.default_value)")
    w.define("VarWithoutValue", "n, vv, fvv",
             "n is not None and instance_of_ref(n.value, 'VariableNode') and not var_has_value(n.value, vv, fvv)")
    # CoerceArgumentValues of the specification, one argument
    w.contract(f"{VL}.coerce_argument",
               params={"coerced_values": "recdict", "node": "opaque", "arg_name": "str",
                       "arg_def": "ref:GraphQLArgument", "argument_node": "opt:ref:ArgumentNode",
                       "variable_values": "opt:ref:VariableValues",
                       "fragment_variable_values": "opt:ref:FragmentVariableValues",
                       "hide_suggestions": "bool"},
               ensures=[
                   # a missing argument (or a variable without a value) of a required type cannot return
                   "not (argument_node is None and Required(arg_def))",
                   # missing argument / variable without value: default, nothing else stored here
                   "implies(argument_node is None or (VarWithoutValue(argument_node, variable_values, fragment_variable_values) and not Required(arg_def)),"
                   " ghost('defaulted') == old(ghost('defaulted')) + 1 and nstores(coerced_values) == 0"
                   " and ghost('literal_coerced') == old(ghost('literal_coerced')))",
                   # otherwise the literal is coerced once and stored under out_name (or the name)
                   "implies(not (argument_node is None or (VarWithoutValue(argument_node, variable_values, fragment_variable_values) and not Required(arg_def))),"
                   " ghost('defaulted') == old(ghost('defaulted')) and nstores(coerced_values) == 1"
                   " and ghost('literal_coerced') == old(ghost('literal_coerced')) + 1"
                   " and not is_undefined(store_val(coerced_values, 0))"
                   " and key_is_out_name(store_key(coerced_values, 0), arg_def, arg_name))",
               ],
               # GraphQLError, or whatever a user supplied out_type raises inside literal coercion
               raises=["GraphQLError", "Exception"], ghost_modifies=["defaulted", "literal_coerced"],
               modifies=[], valid_schema=True, props={"C02", "C13"})


_inst_prev3 = install


def install(w):   # noqa: F811
    _inst_prev3(w)
    install_values(w)


def install_collect(w):
    import graphql.language.ast as A
    w.class_aliases["FieldNode"] = A.FieldNode
    w.class_aliases["FragmentNode"] = A.InlineFragmentNode
    w.shape("FieldNode", alias="opt:ref:NameNode", name="ref:NameNode", kind="str", loc="opaque")
    w.shape("InlineFragmentNode", type_condition="opt:ref:NamedTypeNode", kind="str", loc="opaque")
    # type_from_ast resolves the named type of the condition (None if unknown): a function of
    # (schema, node)
    w.contract("graphql.utilities.type_from_ast.type_from_ast",
               params={"schema": "schema", "type_node": "ref:NamedTypeNode"},
               returns="opt:ty", ensures=["same_ty_opt(result, named_type_of(schema, type_node))"],
               assumed=True)
    w.contract(f"{CF}.get_field_entry_key", params={"node": "ref:FieldNode"}, returns="str",
               # the response key: the alias if there is one, else the field name
               ensures=["same_str(result, node.alias.value) if node.alias is not None"
                        " else same_str(result, node.name.value)"],
               props={"C02"})
    w.contract(f"{CF}.does_fragment_condition_match",
               params={"schema": "schema", "fragment": "ref:FragmentNode", "type_": "ty"},
               returns="bool", requires=["kind_is(type_, 'OBJECT')"],
               # DoesFragmentTypeApply: no condition, the same type, or an abstract type of which
               # the object type is a possible type
               ensures=["result == (fragment.type_condition is None"
                        " or cond_applies(schema, fragment.type_condition, type_))"],
               props={"C02"})


_inst_prev4 = install


def install(w):   # noqa: F811
    _inst_prev4(w)
    install_collect(w)


def install_collect_impl(w):
    import graphql.language.ast as A
    w.class_aliases["SelectionNode"] = A.SelectionNode
    w.class_aliases["SelectionSetNode"] = A.SelectionSetNode
    w.class_aliases["FragmentDefinitionNode"] = A.FragmentDefinitionNode
    w.alias("FragmentDetails", f"{CF}.FragmentDetails")
    w.alias("DeferUsage", f"{CF}.DeferUsage")
    w.shape("SelectionSetNode", selections=("list", "ref:SelectionNode"), kind="str", loc="opaque")
    w.shape("SelectionNode", name="ref:NameNode", alias="opt:ref:NameNode",
            selection_set="ref:SelectionSetNode", type_condition="opt:ref:NamedTypeNode",
            directives=("list", "ref:DirectiveNode"), kind="str", loc="opaque")
    w.shape("FragmentDefinitionNode", selection_set="ref:SelectionSetNode",
            type_condition="opt:ref:NamedTypeNode", name="ref:NameNode", kind="str", loc="opaque")
    w.shape("FragmentDetails", definition="ref:FragmentDefinitionNode", variable_signatures="dyn")
    w.shape("DeferUsage", label="opt:str", parent_defer_usage="opt:ref:DeferUsage")

    # @skip / @include (CollectFields 3.a/3.b): a selection is left out exactly when @skip's `if` is
    # true or @include's `if` is false - @skip is looked at first; when the two directives are
    # forbidden (subscription root selection) their presence excludes the selection and is recorded.
    # The directive's argument values come from get_argument_values (assumed).
    w.alias("CollectFieldsContext", f"{CF}.CollectFieldsContext")
    w.shape("CollectFieldsContext", schema="opaque", fragments="opaque", variable_values="opaque",
            operation="opaque", runtime_type="opaque", visited_fragment_names="opaque",
            hide_suggestions="bool", forbidden_directive_instances=("list", "dyn"),
            forbid_skip_and_include="bool")
    w.contract(f"{CF}.should_include_node",
               params={"context": "ntuple:CollectFieldsContext", "node": "ref:SelectionNode",
                       "variable_values": "dyn", "fragment_variable_values": "dyn"},
               returns="bool", ensures=[],
               # ghosts read by collect_fields_impl's per-iteration contract: the number of calls and
               # the last answer (a definition of the ghost, not a claim about the code)
               assumed_ensures=["ghost('incl') == ite(result, 1, 0)"], ghost_modifies=["incl"],
               ghost_calls=["incl_calls"], raises=["GraphQLError"], modifies=[],
               exit_post=[
                   "implies(truthy(skip_directive_node) and context.forbid_skip_and_include, not result)",
                   "implies(truthy(skip) and truthy(skip['if']), not result)",
                   "implies(truthy(include_directive_node) and context.forbid_skip_and_include, not result)",
                   "implies(truthy(include) and not truthy(include['if']), not result)",
                   # and nothing else excludes a selection
                   "implies(not result,"
                   " (truthy(skip_directive_node) and context.forbid_skip_and_include)"
                   " or (truthy(skip) and truthy(skip['if']))"
                   " or (truthy(include_directive_node) and context.forbid_skip_and_include)"
                   " or (truthy(include) and not truthy(include['if'])))"],
               call_pre={
                   "get_argument_values#1": ["arg_node is skip_directive_node",
                                             "same(arg_variable_values, variable_values)",
                                             "same(arg_fragment_variable_values, fragment_variable_values)"],
                   "get_argument_values#2": ["arg_node is include_directive_node",
                                             "same(arg_variable_values, variable_values)",
                                             "same(arg_fragment_variable_values, fragment_variable_values)"]},
               waive=["`skip['if']`", "`include['if']`"],
               props={"C02", "C13"})
    w.contract(f"{CF}.get_defer_usage",
               params={"variable_values": "opaque", "fragment_variable_values": "opaque",
                       "node": "ref:SelectionNode", "parent_defer_usage": "opaque"},
               returns="opt:ref:DeferUsage", ensures=[], raises=["GraphQLError"], assumed=True)
    w.contract("graphql.execution.values.get_fragment_variable_values",
               params={"fragment_spread_node": "ref:SelectionNode", "fragment_signatures": "dyn",
                       "variable_values": "opaque", "fragment_variable_values": "opaque",
                       "hide_suggestions": "bool"},
               returns="dyn", ensures=[], raises=["GraphQLError"], assumed=True)
    # visited_fragment_names carries the termination measure 'cf_rank' (pyvc/maps.py rank_ghost):
    # the sum over the fragment names of 2 (not visited) / 1 (visited deferred) / 0 (visited)
    CTX = ("tuple", "schema", ("omap", "ref:FragmentDetails"), "dyn", "dyn", "ty",
           ("map", "bool", "rank:cf_rank"), "bool", ("list", "dyn"), "bool")
    w.define("IsFieldSel", "n", "instance_of_ref(n, 'FieldNode')")
    w.define("IsInlineSel", "n", "instance_of_ref(n, 'InlineFragmentNode')")
    w.define("IsSpreadSel", "n", "instance_of_ref(n, 'FragmentSpreadNode')")
    w.class_aliases["FragmentSpreadNode"] = A.FragmentSpreadNode
    w.class_aliases["InlineFragmentNode"] = A.InlineFragmentNode
    w.contract(f"{CF}.collect_fields_impl",
               params={"context": CTX, "selection_set": "ref:SelectionSetNode",
                       "grouped_field_set": ("mm", "grouped"), "new_defer_usages": ("list", "dyn"),
                       "defer_usage": "dyn", "fragment_variable_values": "dyn"},
               requires=["kind_is(context[4], 'OBJECT')"],
               # 'recursed' counts the recursive calls made by one activation (per-activation ghost)
               # termination (C01: a cyclic fragment must not recurse without bound): every recursive
               # call lowers (cf_rank, ast_size(selection_set)) lexicographically - a spread is followed
               # only after its entry in visited_fragment_names moved down, an inline fragment is a
               # strictly smaller node and the table never moves up
               ensures=["ghost('cf_rank') <= old(ghost('cf_rank'))", "ghost('cf_rank') >= 0"],
               raises=["GraphQLError"], ghost_calls=["recursed"],
               ghost_modifies=["grouped", "cf_rank"], modifies=[], modifies_maps=True,
               decreases=["ghost('cf_rank')", "ast_size(selection_set)"],
               loops={1: {"invariant": ["ghost('cf_rank') <= old(ghost('cf_rank'))", "ghost('cf_rank') >= 0"],
                          "step_post": [
                   # CollectFields: a field that is not skipped is added to its group, once
                   "implies(IsFieldSel(selection), ghost('grouped') == at_iter_start(ghost('grouped')) + 1"
                   " and ghost('recursed') == at_iter_start(ghost('recursed')))",
                   # a fragment is entered (exactly once) only if its type condition applies to the
                   # runtime type
                   "implies(IsInlineSel(selection), ghost('recursed') == at_iter_start(ghost('recursed')) + 1"
                   " and (selection.type_condition is None"
                   " or cond_applies(schema, selection.type_condition, runtime_type)))",
                   "implies(IsSpreadSel(selection) and not IsInlineSel(selection) and not IsFieldSel(selection),"
                   " ghost('recursed') == at_iter_start(ghost('recursed')) + 1"
                   " and (fragment.definition.type_condition is None"
                   " or cond_applies(schema, fragment.definition.type_condition, runtime_type)))",
               ],
                   "iter_post": [
                   # @skip/@include are evaluated once per selection, and a selection they exclude
                   # leaves no trace: no field grouped, no fragment entered, not marked as visited,
                   # no defer usage recorded
                   "implies(IsFieldSel(selection) or IsInlineSel(selection) or IsSpreadSel(selection),"
                   " ghost('incl_calls') == at_iter_start(ghost('incl_calls')) + 1)",
                   "implies(ghost('incl') == 0 and ghost('incl_calls') > at_iter_start(ghost('incl_calls')),"
                   " ghost('grouped') == at_iter_start(ghost('grouped'))"
                   " and ghost('recursed') == at_iter_start(ghost('recursed'))"
                   " and len(new_defer_usages) == at_iter_start(len(new_defer_usages))"
                   " and forall_int(k, mhas(visited_fragment_names, k)"
                   " == at_iter_start(mhas(visited_fragment_names, k))))",
               ]}},
               props={"C02", "C13", "C01"})
    # does_fragment_condition_match is called with inline fragments and fragment definitions
    w.shape("InlineFragmentNode", type_condition="opt:ref:NamedTypeNode")


_inst_prev5 = install


def install(w):   # noqa: F811
    _inst_prev5(w)
    install_collect_impl(w)


def install_async(w):
    """The two coroutine completion paths (C03, C01): whatever the awaited resolver result or the
    awaited completion raises is routed through handle_field_error - nothing but the GraphQLError it
    re-raises for a non-null position can leave.  Every `await` is a havoc point (pyvc ev_Await)."""
    COMMON = {"field_details_list": ("list", "dyn"), "info": "dyn", "position_context": "dyn"}
    w.contract(f"{EX}.Executor.complete_awaitable_value",
               params=dict(COMMON, return_type="ty", path="ref:Path", result="dyn"),
               returns="dyn", requires=["OutputTy(return_type)"], ensures=[],
               raises=["GraphQLError"], modifies=[], coroutine=True,
               waive=["call of a non-callable"], props={"C03", "C01"})
    w.contract(f"{EX}.Executor.complete_awaitable_list_item_value",
               params=dict(COMMON, item="dyn", item_type="ty", item_path="ref:Path"),
               returns="dyn", requires=["OutputTy(item_type)"], ensures=[],
               raises=["GraphQLError"], modifies=[], coroutine=True,
               waive=["call of a non-callable"], props={"C03", "C01"})


def install_object_value_async(w):
    """complete_object_value with an awaitable is_type_of answer: the coroutine takes the decision
    the synchronous path takes - a falsy answer (False, None, 0, ...) is an invalid return type,
    a truthy one executes the sub-selections."""
    w.contract(f"{EX}.invalid_return_type_error",
               params={"return_type": "dyn", "result": "dyn", "field_details_list": "dyn"},
               returns="exc:GraphQLError", ensures=[], raises=[], modifies=[], assumed=True)
    w.contract(f"{EX}.Executor.collect_and_execute_subfields",
               params={"return_type": "dyn", "field_details_list": "dyn", "path": "dyn",
                       "result": "dyn", "position_context": "dyn"},
               returns="dyn", ensures=[], raises=["Exception"], modifies=[], assumed=True)
    w.contract(f"{EX}.Executor.complete_object_value.<locals>.execute_subfields_async",
               closure={"self": "obj:Executor", "is_type_of": "dyn", "return_type": "dyn",
                        "result": "dyn", "field_details_list": "dyn", "path": "dyn",
                        "position_context": "dyn"},
               returns="dyn", ensures=[], raises=["Exception"], modifies=[], coroutine=True,
               exit_post=["truthy(_awaited_1)"],
               raise_post=["not truthy(_awaited_1)"],
               waive=["call of a non-callable"], props={"C03"})


def install_type_resolver(w):
    """default_type_resolver: the awaitable is_type_of results and the types they belong to are kept
    in two parallel lists; the coroutine that awaits them must pair result j with type j."""
    w.contract(f"{EX}.default_type_resolver",
               params={"value": "dyn", "info": "dyn", "abstract_type": "dyn"},
               returns="dyn", ensures=[], raises=["Exception"], modifies=[],
               locals={"awaitable_is_type_of_results": ("list", "dyn"),
                       "awaitable_types": ("list", "dyn")},
               loops={1: {"invariant": ["len(awaitable_is_type_of_results) == len(awaitable_types)"]}},
               exit_post=["len(awaitable_is_type_of_results) == len(awaitable_types)"],
               # schema.get_possible_types() returns a list and __mro__ is a tuple: library values
               # that are dynamic here
               waive=["call of a non-callable", "TypeError from `possible_types`",
                      "TypeError from `value.__class__.__mro__`"], props={"C03"})
    w.contract(f"{EX}.default_type_resolver.<locals>.get_type",
               closure={"info": "dyn", "awaitable_is_type_of_results": ("list", "dyn"),
                        "awaitable_types": ("list", "dyn")},
               returns="dyn",
               requires=["len(awaitable_is_type_of_results) == len(awaitable_types)"],
               ensures=[], raises=["Exception"], modifies=[], coroutine=True,
               loops={1: {"return_post": [
                   # the name returned is that of the type whose own is_type_of result is true
                   "exists(j, 0, len(awaitable_types), same(awaitable_types[j], type_)"
                   " and truthy(vitem(is_type_of_results, j)))"]}},
               waive=["call of a non-callable"], props={"C03"})


_inst_prev6 = install


def install(w):   # noqa: F811
    _inst_prev6(w)
    install_async(w)
    install_object_value_async(w)
    install_type_resolver(w)
