"""Side-car contracts for graphql/language/printer.py (C08): no child is dropped.

Every leave_<kind> method of PrintAstVisitor receives a PrintedNode whose children are already
printed.  For every kind, and for every child of that kind that is a single printed string (name,
type, value, description, selection_set, ... - taken from QUERY_DOCUMENT_KEYS and the annotations
of PrintedNode in the current tree), the contract generated here says that the text of the child
is part of the result as far as lengths can tell:

    len(result) >= sum of the lengths of the scalar children that are present

(f-strings, + and str.join over a fixed number of pieces have exact length models; children that
are collections of strings are not covered, their joined length is not modelled).  A print -> parse
round trip needs every child to be printed; a method that forgets one - e.g. the description of an
operation in short form - violates the clause.  The exact layout (keywords, punctuation, order) is
not specified here."""
import inspect

PR = "graphql.language.printer"


def install(w):
    from graphql.language import printer as P
    from graphql.language.ast import QUERY_DOCUMENT_KEYS
    from pyvc.sym import VInt, VStr, VAtom
    from pyvc.codec import VOpt
    import z3

    def optlen(it, v):
        if isinstance(v, VStr):
            return VInt(v.length())
        if isinstance(v, VOpt):
            return VInt(z3.If(v.is_none, 0, v.val.length()))
        if isinstance(v, VAtom):
            return VInt(0)
        from pyvc.sym import Unsupported
        raise Unsupported(f"optlen of {v!r}")
    w.spec_funcs["optlen"] = optlen

    w.alias("PrintedNode", f"{PR}.PrintedNode")
    ann = dict(P.PrintedNode.__annotations__)
    shape = {}
    for k, a in ann.items():
        a = str(a)
        if a == "str":
            shape[k] = "opt:str"
        elif a == "Strings":
            shape[k] = ("list", "str")
        elif a == "bool":
            shape[k] = "bool"
        elif a == "OperationType":
            shape[k] = "atom:OperationType"
        else:
            raise RuntimeError(f"contracts/printer.py: no spec for PrintedNode.{k}: {a}")
    w.shape("PrintedNode", **shape)
    # kind -> AST class, to tell single children from collections and required from optional ones
    import dataclasses
    import graphql.language.ast as A
    by_kind = {}
    for c in vars(A).values():
        if isinstance(c, type) and issubclass(c, A.Node) and dataclasses.is_dataclass(c):
            if not c.__name__.startswith("Const"):
                by_kind.setdefault(c.kind, c)

    for name, m in P.PrintAstVisitor.__dict__.items():
        if not name.startswith("leave_"):
            continue
        kind = name[len("leave_"):]
        cls = by_kind.get(kind)
        fn = m.__func__ if isinstance(m, staticmethod) else m
        node_p = list(inspect.signature(fn).parameters)[0]
        keys, req = [], []
        if cls is not None:
            flds = {f.name: f for f in dataclasses.fields(cls)}
            for k in QUERY_DOCUMENT_KEYS.get(kind, ()):
                f = flds.get(k)
                if f is None or shape.get(k) != "opt:str" or "tuple[" in str(f.type):
                    continue          # a collection child (or not a printed string)
                keys.append(k)
                if f.default is dataclasses.MISSING and f.default_factory is dataclasses.MISSING:
                    req.append(f"{node_p}.{k} is not None")
        total = " + ".join(f"optlen({node_p}.{k})" for k in keys) or "0"
        ens = [f"len(result) >= {total}"] if keys and not node_p.startswith("_") else []
        if kind == "string_value":
            ens = []   # string values are re-encoded (quotes, escapes, block layout): see C08's
                       # print_string / print_block_string contracts
        w.contract(f"{PR}.PrintAstVisitor.{name}",
                   params={node_p: "obj:PrintedNode", "_args": ("list", "dyn")},
                   returns="str", requires=req if not node_p.startswith("_") else [],
                   ensures=ens, raises=[], modifies=[], props={"C08"})
