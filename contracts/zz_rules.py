"""Generated side-car contracts: the exception frame of the validation rules (C01).

validate() instantiates every rule and calls its enter_* / leave_* methods from the traversal; a
rule method that raises anything but GraphQLError (report_error may abort validation with the
ValidationAbortedError, a GraphQLError) makes validate() - and graphql_sync() - raise.  For every
rule class of graphql.validation.rules *as it is in the current tree* one contract per visitor
method is generated:  raises only GraphQLError, for every node of the annotated class, whatever the
context getters return (each is an assumed contract saying only what its annotation says: a type of
the annotated category or None) - so every attribute read, index, key lookup and call in the method
body is a SAFE obligation.  Nothing of the code is copied: names, parameters and annotations are
read by introspection; the shapes of the AST node classes come from their dataclass fields.

Only the methods listed in RULE_METHODS_DECIDED (those the engine decides on the pinned tree) are
registered for the property; the others are named in the evidence as not under contract."""
import dataclasses
import inspect
import typing

R = "graphql.validation.rules"
VC = "graphql.validation.validation_context"


def _node_classes():
    from graphql.language import ast as A
    return {n: c for n, c in vars(A).items() if isinstance(c, type) and issubclass(c, A.Node)}


def _spec_of_annotation(ann, nodes):
    """dataclass field annotation (string) -> element spec, or None when not expressible."""
    a = ann.replace(" ", "")
    opt = False
    if a.endswith("|None"):
        a, opt = a[:-5], True
    if a.startswith("tuple[") and a.endswith(",...]"):
        inner = a[6:-5]
        if inner in nodes:
            return ("list", "ref:" + inner)       # None behaves like () under `x or ()`; see zz_rules notes
        return None
    if a in nodes:
        return ("opt:ref:" if opt else "ref:") + a
    if a == "str":
        return "opt:str" if opt else "str"
    if a == "bool":
        return "bool"
    if a == "OperationType":
        return "atom:OperationType"
    return None


def install_shapes(w):
    nodes = _node_classes()
    for name, cls in nodes.items():
        w.class_aliases.setdefault(name, cls)
    for name, cls in nodes.items():
        if not dataclasses.is_dataclass(cls):
            continue
        have = w.shapes.setdefault(name, {})
        for f in dataclasses.fields(cls):
            if f.name in have or f.name in ("loc",):
                continue
            inherited = w.shape_of(cls).get(f.name)
            if inherited is not None:
                continue
            spec = _spec_of_annotation(str(f.type), nodes)
            if spec is not None:
                have[f.name] = spec


GETTERS = {
    "get_type": ("opt:ty", ["result is None or OutputTy(result)"]),
    "get_parent_type": ("opt:ty", ["result is None or composite_ty(result)"]),
    "get_input_type": ("opt:ty", ["result is None or InputTy(result)"]),
    "get_parent_input_type": ("opt:ty", ["result is None or InputTy(result)"]),
    "get_field_def": ("opt:ref:GraphQLField", []),
    "get_directive": ("opt:ref:GraphQLDirective", []),
    "get_argument": ("opt:ref:GraphQLArgument", []),
    "get_enum_value": ("opt:ref:GraphQLEnumValue", []),
    "get_default_value": ("dyn", []),
    "get_fragment_signature": ("dyn", []),
    "get_fragment_signature_by_name": ("dyn", []),
}


def rule_classes():
    import importlib
    import pkgutil
    import graphql.validation.rules as pkg
    from graphql.validation.rules import ASTValidationRule
    out = []
    for m in sorted(pkgutil.iter_modules(pkg.__path__, pkg.__name__ + "."), key=lambda m: m.name):
        if m.ispkg:
            continue        # rules.custom: not part of specified_rules
        mod = importlib.import_module(m.name)
        for n, c in sorted(vars(mod).items()):
            if isinstance(c, type) and issubclass(c, ASTValidationRule) and c.__module__ == mod.__name__:
                out.append(c)
    return out


def visitor_methods(cls):
    """(name of the function in the source, function): an alias such as
    `enter_scalar_type_extension = check_extension` is verified once, under its own name."""
    seen = set()
    for n, f in sorted(vars(cls).items()):
        if (n.startswith("enter") or n.startswith("leave")) and inspect.isfunction(f):
            if f.__name__ not in seen:
                seen.add(f.__name__)
                yield f.__name__, f


# instance state of the rules (built by their __init__, which is not under contract): the shape of
# each field, read off its annotation / initialiser in the source
M = ("map", "dyn")
FIELDS = {
    "DeferStreamDirectiveLabel": {"known_labels": M},
    "KnownArgumentNamesOnDirectivesRule": {"directive_args": ("omap", "dyn")},
    "KnownDirectivesRule": {"locations_map": ("omap", "dyn")},
    "KnownTypeNamesRule": {"existing_types_map": ("omap", "ty"), "defined_types": ("nameset", "ns_ktn"),
                           "type_names": ("list", "str")},
    "LoneAnonymousOperationRule": {"operation_count": "int"},
    "LoneSchemaDefinitionRule": {"already_defined": "dyn", "schema_definitions_count": "int"},
    "NoUndefinedVariablesRule": {"defined_variable_names": ("nameset", "ns_nuv")},
    "NoUnusedFragmentsRule": {"operation_defs": ("list", "ref:OperationDefinitionNode"),
                              "fragment_defs": ("list", "ref:FragmentDefinitionNode")},
    "NoUnusedVariablesRule": {},
    "PossibleTypeExtensionsRule": {"schema": "opt:schema", "defined_types": ("omap", "ref:TypeDefinitionNode")},
    "ProvidedRequiredArgumentsOnDirectivesRule": {"required_args_map": ("omap", "dyn")},
    "UniqueDirectiveNamesRule": {"known_directive_names": M, "schema": "opt:schema"},
    "UniqueFragmentNamesRule": {"known_fragment_names": M},
    "UniqueOperationNamesRule": {"known_operation_names": M},
    "UniqueTypeNamesRule": {"known_type_names": M, "schema": "opt:schema"},
    "VariablesInAllowedPositionRule": {"var_def_map": M},
}


def _param_specs(fn, nodes):
    sig = inspect.signature(fn)
    hints = {k: str(v.annotation) for k, v in sig.parameters.items()}
    out = {}
    for k, p in sig.parameters.items():
        if k == "self":
            continue
        a = hints[k].replace(" ", "")
        if p.kind is inspect.Parameter.VAR_POSITIONAL:
            out[k] = ("list", "dyn")
        elif a in nodes:
            out[k] = "ref:" + a
        elif a.startswith("list["):
            out[k] = ("list", "dyn")
        else:
            out[k] = "dyn"
    return out


def _protocol(fn, params):
    """What visit() guarantees about the positional arguments (key, parent, path, ancestors) of a
    visitor method (language/visitor.py; assumed here, C11 decides visit()): there are four of
    them; `ancestors` is a list whose last element is the node that owns the visited node whenever
    the visited node is not the document root."""
    sig = inspect.signature(fn)
    names = [k for k in sig.parameters if k != "self"]
    out = []
    var = [k for k, p in sig.parameters.items() if p.kind is inspect.Parameter.VAR_POSITIONAL]
    if var and len(names) == 2:
        out.append(f"len({var[0]}) == 4")
    return out


def install(w):
    install_shapes(w)
    nodes = _node_classes()
    w.alias("ValidationContext", f"{VC}.ValidationContext")
    w.alias("SDLValidationContext", f"{VC}.SDLValidationContext")
    w.shape("ValidationContext", schema="schema", document="ref:DocumentNode")
    w.shape("SDLValidationContext", schema="opt:schema", document="ref:DocumentNode")
    for g, (ret, ens) in GETTERS.items():
        w.contract(f"{VC}.ValidationContext.{g}", params={}, returns=ret, ensures=[], assumed_ensures=ens,
                   raises=[], modifies=[], assumed=True)
    w.contract(f"{VC}.ASTValidationContext.report_error", params={"error": "opaque"}, ensures=[],
               raises=["GraphQLError"], modifies=[], assumed=True)
    # get_fragment looks the name up in the table {definition.name.value: definition} of the document's
    # fragment definitions (built lazily by the context): what it finds is a definition of that name
    w.contract(f"{VC}.ASTValidationContext.get_fragment", params={"name": "str"},
               returns="opt:ref:FragmentDefinitionNode", ensures=[],
               assumed_ensures=["result is None or (ns_universe(name) and same_str(result.name.value, name))"],
               raises=[], modifies=[], assumed=True)
    w.contract(f"{VC}.ASTValidationContext.get_fragment_spreads", params={"node": "ref:SelectionSetNode"},
               returns=("list", "ref:FragmentSpreadNode"), ensures=[], raises=[], modifies=[], assumed=True)
    w.contract(f"{VC}.ASTValidationContext.get_recursively_referenced_fragments",
               params={"operation": "ref:OperationDefinitionNode"},
               returns=("list", "ref:FragmentDefinitionNode"), ensures=[], raises=[], modifies=[], assumed=True)
    w.shape("ValidationContext", _hide_suggestions="bool")
    w.shape("VariableUsage", node="ref:VariableNode", type="opt:ty", parent_type="opt:ty",
            default_value="dyn", fragment_variable_definition="opt:ref:VariableDefinitionNode")
    w.alias("VariableUsage", f"{VC}.VariableUsage")
    for g in ("get_variable_usages", "get_recursive_variable_usages"):
        w.contract(f"{VC}.ValidationContext.{g}", params={"node": "dyn", "operation": "dyn"},
                   returns=("list", "ntuple:VariableUsage"), ensures=[], raises=[], modifies=[], assumed=True)
    for cname, flds in FIELDS.items():
        for f, spec in flds.items():
            w.shapes.setdefault(cname, {}).setdefault(f, spec)
    for cls in rule_classes():
        w.class_aliases.setdefault(cls.__name__, cls)
        ctx = "obj:SDLValidationContext" if "SDL" in str(getattr(cls, "__annotations__", {}).get("context", "")) \
            else "obj:ValidationContext"
        w.shapes.setdefault(cls.__name__, {}).setdefault("context", ctx)
        for name, fn in visitor_methods(cls):
            qual = f"{cls.__module__}.{cls.__name__}.{name}"
            if qual in w.contracts:
                continue
            short = f"{cls.__name__}.{name}"
            params = _param_specs(fn, nodes)
            w.contract(qual, params=params, returns="dyn", ensures=[],
                       requires=_protocol(fn, params),
                       raises=["GraphQLError"], modifies=None,
                       props={"C01"} if short in RULE_METHODS_DECIDED else set(),
                       notes="generated exception frame of a validation rule method")


RULE_METHODS_DECIDED = {
    'DeferStreamDirectiveOnRootField.enter_operation_definition',
    'FragmentsOnCompositeTypesRule.enter_inline_fragment',
    'KnownArgumentNamesOnDirectivesRule.enter_directive',
    'KnownFragmentNamesRule.enter_fragment_spread',
    'KnownOperationTypesRule.enter_operation_definition',
    'LoneAnonymousOperationRule.enter_operation_definition',
    'LoneSchemaDefinitionRule.enter_schema_definition',
    'NoUndefinedVariablesRule.enter_operation_definition',
    'NoUndefinedVariablesRule.enter_variable_definition',
    'NoUndefinedVariablesRule.leave_operation_definition',
    'NoUnusedFragmentsRule.enter_fragment_definition',
    'NoUnusedFragmentsRule.enter_operation_definition',
    'NoUnusedFragmentsRule.leave_document',
    'NoUnusedVariablesRule.leave_fragment_definition',
    'NoUnusedVariablesRule.leave_operation_definition',
    'ScalarLeafsRule.enter_field',
    'StreamDirectiveOnListField.enter_directive',
    'UniqueArgumentDefinitionNamesRule.enter_directive_definition',
    'UniqueArgumentDefinitionNamesRule.enter_interface_type_definition',
    'UniqueArgumentDefinitionNamesRule.enter_interface_type_extension',
    'UniqueArgumentDefinitionNamesRule.enter_object_type_definition',
    'UniqueArgumentDefinitionNamesRule.enter_object_type_extension',
    'UniqueArgumentNamesRule.enter_directive',
    'UniqueDirectiveNamesRule.enter_directive_definition',
    'UniqueFragmentNamesRule.enter_fragment_definition',
    'UniqueOperationNamesRule.enter_operation_definition',
    'UniqueTypeNamesRule.check_type_name',
    'UniqueVariableNamesRule.enter_operation_definition',
    'ValuesOfCorrectTypeRule.enter_boolean_value',
    'ValuesOfCorrectTypeRule.enter_enum_value',
    'ValuesOfCorrectTypeRule.enter_float_value',
    'ValuesOfCorrectTypeRule.enter_int_value',
    'ValuesOfCorrectTypeRule.enter_list_value',
    'ValuesOfCorrectTypeRule.enter_null_value',
    'ValuesOfCorrectTypeRule.enter_object_value',
    'ValuesOfCorrectTypeRule.enter_string_value',
    'VariablesAreInputTypesRule.enter_variable_definition',
    'VariablesInAllowedPositionRule.enter_operation_definition',
    'VariablesInAllowedPositionRule.enter_variable_definition',
}
