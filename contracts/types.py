"""Side-car contracts for type_comparators.py, allowed_variable_usage, do_types_conflict
(C13, C14, C20)."""

TC = "graphql.utilities.type_comparators"
VP = "graphql.validation.rules.variables_in_allowed_position"
OF = "graphql.validation.rules.overlapping_fields_can_be_merged"


def install(w):
    w.alias("NullValueNode", "graphql.language.ast.NullValueNode")
    # assumed: GraphQLSchema.is_sub_type is the membership / implementation relation `possible`
    # the answer is the membership / implementation relation `possible` (assumed: the memo and the
    # implementations map are not modelled); what is VERIFIED is that computing it never raises for
    # any abstract type of any constructible schema - a union may list members that are not named
    # types, which schema validation has to report, not crash on (C20)
    w.alias("InterfaceImplementations", "graphql.type.schema.InterfaceImplementations")
    w.shape("InterfaceImplementations", objects=("list", "ty"), interfaces=("list", "ty"))
    w.shape("GraphQLSchema", _sub_type_map=("absmap", "aset"))
    w.contract("graphql.type.schema.GraphQLSchema.get_implementations",
               params={"self": "schema", "interface_type": "ty"},
               returns="ntuple:InterfaceImplementations",
               ensures=["forall(j, 0, len(result.objects), NamedTy(result.objects[j]))",
                        "forall(j, 0, len(result.interfaces), NamedTy(result.interfaces[j]))"],
               raises=[], modifies=[], assumed=True)
    w.contract("graphql.type.schema.GraphQLSchema.is_sub_type",
               params={"self": "schema", "abstract_type": "ty", "maybe_sub_type": "ty"},
               returns="bool",
               requires=["kind_is(abstract_type, 'UNION') or kind_is(abstract_type, 'INTERFACE')",
                         "NamedTy(maybe_sub_type)"],
               ensures=[],
               assumed_ensures=["result == possible(self, abstract_type, maybe_sub_type)",
                                # schema validity facts about `possible` (A7)
                                "implies(result and kind_is(abstract_type, 'UNION'), kind_is(maybe_sub_type, 'OBJECT'))"],
               raises=[], modifies=["self._sub_type_map"], props={"C20"})

    w.contract(f"{TC}.is_equal_type", params={"type_a": "ty", "type_b": "ty"}, returns="bool",
               ensures=["result == EqT(type_a, type_b)"], decreases="ty_rank(type_a)",
               props={"C13", "C20"})
    w.contract(f"{TC}.is_type_sub_type_of",
               params={"schema": "schema", "maybe_subtype": "ty", "super_type": "ty"},
               returns="bool",
               ensures=["result == Sub(schema, maybe_subtype, super_type)",
                        "implies(InputTy(maybe_subtype) and InputTy(super_type),"
                        " result == Compat(maybe_subtype, super_type))"],
               decreases="ty_rank(maybe_subtype) + ty_rank(super_type)",
               props={"C13", "C20"})
    w.contract(f"{VP}.allowed_variable_usage",
               params={"schema": "schema", "var_type": "ty", "var_default_value": "dyn",
                       "location_type": "ty", "location_default_value": "dyn"},
               returns="bool",
               requires=["InputTy(var_type)", "InputTy(location_type)",
                         "is_none(var_default_value) or is_other(var_default_value)"],
               # IsVariableUsageAllowed of the specification
               ensures=["result == ite(NonNull(location_type) and not NonNull(var_type),"
                        " ((not is_none(var_default_value) and not instance_of(var_default_value, 'NullValueNode'))"
                        "  or not is_undefined(location_default_value))"
                        " and Compat(var_type, of(location_type)),"
                        " Compat(var_type, location_type))"],
               props={"C13"})
    w.contract(f"{OF}.do_types_conflict", params={"type1": "ty", "type2": "ty"}, returns="bool",
               ensures=["result == (not SameShapeW(type1, type2))"],
               decreases="ty_rank(type1) + ty_rank(type2)", props={"C14"})

    D = "graphql.type.definition"
    w.contract(f"{D}.is_input_type", params={"type_": "ty"}, returns="bool",
               ensures=["result == InputTy(type_)"], decreases="ty_rank(type_)",
               props={"C20", "C15", "C13"})
    w.contract(f"{D}.is_output_type", params={"type_": "ty"}, returns="bool",
               ensures=["result == OutputTy(type_)"], decreases="ty_rank(type_)",
               props={"C20"})

    # required = non-null and no default of either kind (the external `default` or the deprecated
    # internal `default_value`): the definition every consumer (coercion, validation, schema
    # validation) relies on
    w.contract(f"{D}.is_required_input_field", params={"field": "ref:GraphQLInputField"},
               returns="bool",
               ensures=["result == (NonNull(field.type) and field.default is None"
                        " and is_undefined(field.default_value))"],
               props={"C20", "C15", "C13", "C02"})
    w.contract(f"{D}.is_required_argument", params={"arg": "ref:GraphQLArgument"},
               returns="bool",
               ensures=["result == (NonNull(arg.type) and arg.default is None"
                        " and is_undefined(arg.default_value))"],
               props={"C20", "C15", "C13", "C02"})

    # get_named_type: strips every wrapper; None stays None
    w.contract(f"{D}.get_named_type", params={"type_": "opt:ty"}, returns="opt:ty",
               ensures=["(result is None) == (type_ is None)",
                        "implies(type_ is not None, NamedTy(result))",
                        # exactly the named type under the wrappers
                        "implies(type_ is not None, result is NamedOf(type_))"],
               raises=[], modifies=[],
               loops={1: {"invariant": ["ty_rank(unwrapped_type) >= 0",
                                        "NamedOf(unwrapped_type) is NamedOf(type_)"],
                          "variant": "ty_rank(unwrapped_type)"}},
               locals={"unwrapped_type": "ty"},
               props={"C14", "C20"})
