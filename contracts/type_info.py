"""Side-car contracts for TypeInfo's input-position bookkeeping (C13): the location default value
and input type pushed for list items, arguments and input object fields - the data that
VariablesInAllowedPositionRule feeds to allowed_variable_usage."""

TI = "graphql.utilities.type_info"


def install(w):
    w.alias("TypeInfo", f"{TI}.TypeInfo")
    w.shape("TypeInfo", _default_value_stack=("list", "dyn"), _input_type_stack=("list", "opt:ty"),
            _schema="ref:GraphQLSchema")
    STACKS = ["len(self._default_value_stack) == old(len(self._default_value_stack)) + 1",
              "len(self._input_type_stack) == old(len(self._input_type_stack)) + 1",
              "forall(j, 0, old(len(self._default_value_stack)),"
              " same(self._default_value_stack[j], old(self._default_value_stack[j])))"]
    # TypeInfo.get_input_type (top of the stack or None) has no contract of its own: it is inlined
    # into its callers, so that they see *which* type it returns
    w.contract(f"{TI}.TypeInfo.enter_list_value", params={"_node": "ref:ValueNode"},
               # list positions never have a location default: the marker is Undefined (not None),
               # which is what allowed_variable_usage tests
               ensures=STACKS + ["is_undefined(self._default_value_stack[len(self._default_value_stack) - 1])"],
               raises=[], modifies=[], props={"C13"})
    # an object field inside an input value: the position's type is the type of that field of the
    # input object type *under every wrapper* of the enclosing position (a bare object literal may
    # stand in a list position, and the position may be non-null) - this is what the variable rules
    # compare a variable inside the literal against
    w.alias("ObjectFieldNode", "graphql.language.ast.ObjectFieldNode")
    w.shape("ObjectFieldNode", name="ref:NameNode", value="ref:ValueNode", kind="str", loc="opaque")
    TOP = "self._input_type_stack[len(self._input_type_stack) - 1]"
    OLD_TOP = "old(self._input_type_stack[len(self._input_type_stack) - 1])"
    w.contract(f"{TI}.TypeInfo.enter_object_field", params={"node": "ref:ObjectFieldNode"},
               requires=["len(self._input_type_stack) > 0"],
               ensures=STACKS + [
                   f"implies({OLD_TOP} is not None and kind_is(NamedOf({OLD_TOP}), 'INPUT_OBJECT')"
                   f" and omap_has(NamedOf({OLD_TOP}).fields, node.name.value)"
                   f" and InputTy(omap_at(NamedOf({OLD_TOP}).fields, node.name.value).type),"
                   f" opt_is({TOP}, omap_at(NamedOf({OLD_TOP}).fields, node.name.value).type))",
                   f"implies({OLD_TOP} is None or not kind_is(NamedOf({OLD_TOP}), 'INPUT_OBJECT'), {TOP} is None)"],
               raises=[], modifies=[], props={"C13"})


def install_visitor(w):
    """TypeInfoVisitor keeps the TypeInfo in step with the traversal (C12: every rule sees the type
    information of the node it is called for; C11: whatever a visitor decides).  Counted with two
    ghost counters of TypeInfo.enter / TypeInfo.leave calls: after enter() the TypeInfo is one level
    deeper exactly when the traversal will descend (no result, or a replacement node), and back at
    the same level for every other decision (skip, break, remove, any other value); leave() always
    goes one level up."""
    TI_FRAME = ["self._type_stack", "self._parent_type_stack", "self._input_type_stack",
                "self._field_def_stack", "self._default_value_stack", "self._directive",
                "self._argument", "self._enum_value", "self._fragment_signatures_by_name",
                "self._fragment_signature", "self._fragment_argument"]
    w.alias("TypeInfoVisitor", f"{TI}.TypeInfoVisitor")
    w.shape("TypeInfoVisitor", type_info="obj:TypeInfo", visitor="dyn")
    # the dispatchers themselves (getattr(self, 'enter_' + kind)) are assumed total here; the
    # enter_* methods that matter for C13 are verified above
    w.contract(f"{TI}.TypeInfo.enter", params={"node": "dyn"}, ghost_calls=["ti_enter"],
               raises=[], modifies=TI_FRAME, assumed=True)
    w.contract(f"{TI}.TypeInfo.leave", params={"node": "dyn"}, ghost_calls=["ti_leave"],
               raises=[], modifies=TI_FRAME, assumed=True)
    DEPTH = "ghost('ti_enter') - ghost('ti_leave')"
    w.define("IsAstNode", "v", "instance_of(v, 'Node')")
    w.contract(f"{TI}.TypeInfoVisitor.enter", params={"node": "dyn", "args": ("list", "dyn")},
               returns="dyn",
               ensures=[f"{DEPTH} == old({DEPTH}) + ite(is_none(result) or IsAstNode(result), 1, 0)"],
               raises=["Exception"], modifies=TI_FRAME,
               # self.visitor is a Visitor and the entries of its EnterLeaveVisitor are callables
               # or None (the Visitor protocol): not re-proved here
               waive=["call of a non-callable"], props={"C12", "C11"})
    w.contract(f"{TI}.TypeInfoVisitor.leave", params={"node": "dyn", "args": ("list", "dyn")},
               returns="dyn",
               ensures=[f"{DEPTH} == old({DEPTH}) - 1"],
               raises=["Exception"], modifies=TI_FRAME,
               # self.visitor is a Visitor and the entries of its EnterLeaveVisitor are callables
               # or None (the Visitor protocol): not re-proved here
               waive=["call of a non-callable"], props={"C12", "C11"})


_install0 = install


def install(w):   # noqa: F811
    _install0(w)
    install_visitor(w)
