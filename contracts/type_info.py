"""Side-car contracts for TypeInfo's input-position bookkeeping (C13): the location default value
and input type pushed for list items, arguments and input object fields - the data that
VariablesInAllowedPositionRule feeds to allowed_variable_usage."""

TI = "graphql.utilities.type_info"


def install(w):
    w.alias("TypeInfo", f"{TI}.TypeInfo")
    w.shape("TypeInfo", _default_value_stack=("list", "dyn"), _input_type_stack=("list", "opt:ty"),
            _schema="ref:GraphQLSchema")
    STACKS = ["len(self._default_value_stack) == old(len(self._default_value_stack)) + 1",
              "len(self._input_type_stack) == old(len(self._input_type_stack)) + 1",
              "forall(j, 0, old(len(self._default_value_stack)),"
              " same(self._default_value_stack[j], old(self._default_value_stack[j])))"]
    w.contract(f"{TI}.TypeInfo.get_input_type", returns="opt:ty", modifies=[],
               ensures=["implies(len(self._input_type_stack) == 0, result is None)"], props={"C13"})
    w.contract(f"{TI}.TypeInfo.enter_list_value", params={"_node": "ref:ValueNode"},
               # list positions never have a location default: the marker is Undefined (not None),
               # which is what allowed_variable_usage tests
               ensures=STACKS + ["is_undefined(self._default_value_stack[len(self._default_value_stack) - 1])"],
               raises=[], modifies=[], props={"C13"})
