"""Side-car contracts for graphql/language/parser.py (C01, C09).

Every method of Parser gets a contract, generated from the class as it is in the current tree
(names, parameters and return annotations are read by introspection; nothing is copied):

  the parser frame        raises only GraphQLSyntaxError; writes only the lexer cursor
                          (token, last_token, line, line_start, the token chain links) and
                          _token_counter
  the token limit         _token_counter never decreases, and whenever a call counted a token and
                          a limit is set, the counter is within the limit when the call returns

Helpers that only look (peek, peek_description, loc, unexpected) have an empty frame and raise
nothing.  The higher-order helpers (any, many, optional_many, delimited_many) take a parser
function: at each call site the argument is checked to be a method of the same parser under the
generic contract PFN (pyvc/hof.py), and inside the helpers a call of the parameter follows PFN.
"""
import inspect

P = "graphql.language.parser"
LX = "graphql.language.lexer"
SCL = "graphql.language.schema_coordinate_lexer"

PFRAME = ["self._token_counter", "self.token", "self.last_token", "self.line", "self.line_start",
          "self.next", "self.prev"]
TOKLIM = [
    "self._token_counter >= old(self._token_counter)",
    "implies(self._max_tokens is not None and self._token_counter > old(self._token_counter),"
    " self._token_counter <= self._max_tokens)",
]
LOOKERS = {"peek", "peek_description", "loc", "unexpected"}
PARAM_SPECS = {
    "is_const": "bool", "_is_const": "bool", "kind": "atom:TokenKind",
    "open_kind": "atom:TokenKind", "close_kind": "atom:TokenKind",
    "delimiter_kind": "atom:TokenKind", "parse_fn": "pfn", "value": "str",
    "start_token": "obj:Token", "at_token": "opt:obj:Token",
}


def _ret_spec(w, ann):
    import graphql.language.ast as A
    a = (ann or "").strip().strip("'\"")
    if a in ("None", ""):
        return None
    if a == "bool":
        return "bool"
    if a == "Token":
        return "obj:Token"
    if a == "OperationType":
        return "atom:OperationType"
    if a == "GraphQLError":
        return "exc:GraphQLSyntaxError"
    if a.startswith("tuple[") or a.startswith("Location"):
        return "opaque"
    opt = False
    parts = [x.strip() for x in a.split("|")]
    if "None" in parts:
        opt = True
        parts = [x for x in parts if x != "None"]
    cls = getattr(A, parts[0], None) if len(parts) == 1 else None
    name = parts[0] if isinstance(cls, type) else "Node"
    w.alias(name, f"graphql.language.ast.{name}")
    return ("opt:" if opt else "") + "ref:" + name


def install(w):
    from graphql.language.parser import Parser
    w.alias("Parser", f"{P}.Parser")
    w.alias("OperationType", "graphql.language.ast.OperationType")
    w.alias("SchemaCoordinateLexer", f"{SCL}.SchemaCoordinateLexer")
    w.shape("Parser", _lexer="obj:Lexer", _max_tokens="opt:int", _token_counter="int",
            _no_location="bool", _experimental_fragment_arguments="bool",
            _experimental_directives_on_directive_definitions="bool")
    w.shape("StringValueNode", value="str", block="bool", kind="str", loc="opaque")

    # Lexer.advance / lookahead walk and extend the linked chain of tokens.  The invariant of that
    # structure - every token lies within the body and does not end inside a CR LF pair, and the
    # cursor (line, line_start) of the lexer belongs to the end of the LAST token of the chain - is
    # assumed for the lexer's current token at calls (class invariant) and for every token read
    # through `.next` (structure invariant); what is verified is that lookahead keeps it: it calls
    # read_next_token only at the end of the chain, with the cursor that belongs there, and links
    # exactly the new token.  (For a SchemaCoordinateLexer the override of read_next_token is
    # called instead; that case is not covered by this proof.)
    w.define("TokOK", "lx, t",
             "0 <= t.start and t.start <= t.end and t.end <= len(lx.source.body)"
             " and not midCRLF(lx.source.body, t.end)"
             " and implies(t.next is None, LexInv(lx, t.end))")
    CHAIN = {"Token.next": ["TokOK(self, v)", "v.kind != TokenKind.SOF"]}
    w.contract(f"{LX}.Lexer.lookahead", returns="obj:Token",
               class_invariants=["TokOK(self, self.token)"],
               ensures=["result.kind != TokenKind.COMMENT", "0 <= result.start <= result.end",
                        "result.end <= len(self.source.body)", "TokOK(self, result)",
                        "TokOK(self, self.token)",
                        "result is self.token or result.kind != TokenKind.SOF",
                        "implies(result is self.token, self.token.kind == TokenKind.EOF)"],
               raises=["GraphQLSyntaxError"],
               modifies=["self.line", "self.line_start", "self.next", "self.prev"],
               field_invariants=CHAIN,
               loops={1: {"peel": True,
                          "invariant": ["0 <= token.start and token.start <= token.end",
                                        "token.end <= len(self.source.body)",
                                        "not midCRLF(self.source.body, token.end)",
                                        "implies(token.next is None, LexInv(self, token.end))",
                                        # the lexer's own current token: either it has been linked to
                                        # a successor, or the cursor has not moved yet (the first
                                        # iteration, where token IS self.token, is run peeled so the
                                        # alias is exact: there the store token.next = next_token
                                        # itself links self.token)
                                        "token is self.token or self.token.next is not None",
                                        "self.token.next is not None or (self.line == old(self.line)"
                                        " and self.line_start == old(self.line_start))",
                                        "token is self.token or token.kind != TokenKind.SOF"]}},
               props={"C01", "C09"})
    # the constructor establishes the invariant: one SOF token at offset 0, cursor at line 1
    w.contract(f"{LX}.Lexer.__init__", params={"source": "obj:Source"},
               ensures=["self.source is source", "TokOK(self, self.token)",
                        "self.token.kind == TokenKind.SOF"],
               raises=[], modifies=["self.source", "self.token", "self.last_token", "self.line",
                                    "self.line_start"],
               props={"C01", "C09"})
    w.contract(f"{LX}.Lexer.advance", returns="field:token",
               class_invariants=["TokOK(self, self.token)"],
               ensures=["result.kind != TokenKind.COMMENT", "result.kind != TokenKind.SOF",
                        "0 <= result.start <= result.end", "result.end <= len(self.source.body)",
                        "TokOK(self, self.token)"],
               raises=["GraphQLSyntaxError"],
               modifies=["self.token", "self.last_token", "self.line", "self.line_start",
                         "self.next", "self.prev"],
               field_invariants=CHAIN,
               props={"C01", "C09"})
    # the restricted lexer of schema coordinates: same frame as Lexer.read_next_token
    w.contract(f"{SCL}.SchemaCoordinateLexer.read_next_token", params={"start": "int"},
               returns="obj:Token",
               requires=["0 <= start <= len(self.source.body)"],
               ensures=["start <= result.start", "result.start <= result.end",
                        "result.end <= len(self.source.body)",
                        "implies(result.kind == TokenKind.EOF, result.start == len(self.source.body))",
                        "implies(result.kind != TokenKind.EOF, result.end > result.start)",
                        "result.kind != TokenKind.SOF", "result.kind != TokenKind.COMMENT"],
               raises=["GraphQLSyntaxError"], modifies=[], props={"C01"})

    # token descriptions used in messages: total
    w.contract(f"{P}.get_token_kind_desc", params={"kind": "atom:TokenKind"}, returns="str",
               ensures=[], modifies=[], props={"C01"})
    w.contract(f"{P}.get_token_desc", params={"token": "obj:Token"}, returns="str",
               ensures=[], modifies=[], props={"C01"})

    # ---- the generic parser-function contract (what `parse_fn()` may do inside the helpers) ----
    from pyvc.world import Contract
    pfn = Contract("PFN", ensures=list(TOKLIM), raises=["GraphQLSyntaxError"],
                   modifies=list(PFRAME), returns="opaque")
    w.pfn_contract = (w.fnref(P, "Parser.parse_name"), pfn)

    def is_pfn(it, v, env, ref):
        from pyvc.sym import VFunc
        import types
        if not isinstance(v, VFunc):
            return False, " (not a function value)"
        if v.builtin == "pfn":
            return True, ""
        if not isinstance(v.fn, types.FunctionType):
            return False, " (not a library function)"
        r2 = w.fnref_of(v.fn)
        c2 = w.contracts.get(r2.qual)
        if c2 is None or r2.cls is not Parser:
            return False, " (no parser contract)"
        me = env.get("self")
        if v.recv is None or me is None or getattr(v.recv, "oid", None) != getattr(me, "oid", 0):
            return False, " (bound to another object)"
        a = r2.node.args
        npos = len(a.args) - 1 - len(getattr(v, "pre", ()) or ())
        if npos < 0 or npos > len(a.defaults):
            return False, " (needs arguments)"
        ok = (set(c2.raises) <= {"GraphQLSyntaxError"}
              and set(c2.modifies or ()) <= set(PFRAME)
              and not c2.requires
              and all(cl in c2.ensures for cl in TOKLIM))
        return ok, "" if ok else " (contract weaker than PFN)"
    w.arg_checks["pfn"] = is_pfn

    # ---- advance_lexer: every non-EOF token is counted once; the limit n accepts counter <= n ----
    w.contract(f"{P}.Parser.advance_lexer",
               ensures=TOKLIM + [
                   "self._token_counter == old(self._token_counter)"
                   " + ite(self._lexer.token.kind is TokenKind.EOF, 0, 1)",
                   "implies(self._max_tokens is not None and self._lexer.token.kind is not TokenKind.EOF,"
                   " self._token_counter <= self._max_tokens)"],
               raises=["GraphQLSyntaxError"],
               modifies=list(PFRAME), props={"C09", "C01"})

    special = {
        "peek": dict(ensures=["result == (self._lexer.token.kind == kind)"]),
        "expect_token": dict(ensures=["result.kind == kind"]),
        "parse_name": dict(),
        # later stages index DirectiveLocation[name.value] without a guard (KnownDirectivesRule)
        "parse_directive_location": dict(ensures=["enum_member_name('DirectiveLocation', result.value)"]),
    }
    w.alias("DirectiveLocation", "graphql.language.directive_locations.DirectiveLocation")
    for name, fn in Parser.__dict__.items():
        if not inspect.isfunction(fn) or name in ("__init__", "advance_lexer"):
            continue
        sig = inspect.signature(fn)
        params = {}
        for pn in list(sig.parameters)[1:]:
            if pn not in PARAM_SPECS:
                raise RuntimeError(f"contracts/parser.py: no spec for parameter {pn} of Parser.{name}")
            params[pn] = PARAM_SPECS[pn]
        ann = sig.return_annotation
        ret = _ret_spec(w, ann if isinstance(ann, str) else getattr(ann, "__name__", ""))
        sp = special.get(name, {})
        if name in LOOKERS:
            w.contract(f"{P}.Parser.{name}", params=params, returns=ret,
                       ensures=list(sp.get("ensures", [])), raises=[], modifies=[],
                       props={"C01", "C09"})
            continue
        w.contract(f"{P}.Parser.{name}", params=params, returns=ret,
                   ensures=TOKLIM + list(sp.get("ensures", [])),
                   raises=["GraphQLSyntaxError"], modifies=list(PFRAME),
                   loop_all=list(TOKLIM), props={"C01", "C09"})

    # ---- construction and the five entry points -------------------------------------------------
    SRC = ("union", "str", "obj:Source")
    w.contract(f"{P}.Parser.__init__",
               params={"source": SRC, "no_location": "bool", "max_tokens": "opt:int",
                       "experimental_fragment_arguments": "bool",
                       "experimental_directives_on_directive_definitions": "bool",
                       "lexer": "opt:obj:Lexer"},
               ensures=["self._token_counter == 0", "(self._max_tokens is None) == (max_tokens is None)",
                        "implies(max_tokens is not None, self._max_tokens == max_tokens)"],
               raises=[], modifies=["self._no_location", "self._max_tokens", "self._lexer",
                                    "self._token_counter", "self._experimental_fragment_arguments",
                                    "self._experimental_directives_on_directive_definitions"],
               props={"C01", "C09"})
    ENTRY = {"source": SRC, "no_location": "bool", "max_tokens": "opt:int",
             "experimental_fragment_arguments": "bool",
             "experimental_directives_on_directive_definitions": "bool"}
    for fn in ("parse", "parse_value", "parse_const_value", "parse_type"):
        w.contract(f"{P}.{fn}", params=dict(ENTRY), returns="ref:Node", ensures=[],
                   raises=["GraphQLSyntaxError"], props={"C01"})
    w.contract(f"{P}.parse_schema_coordinate",
               params={"source": SRC, "no_location": "bool", "max_tokens": "opt:int"},
               returns="ref:Node", ensures=[], raises=["GraphQLSyntaxError"], props={"C01"})
