"""Side-car contracts for graphql/language/parser.py (C01, C09)."""

P = "graphql.language.parser"
LX = "graphql.language.lexer"


def install(w):
    w.alias("Parser", f"{P}.Parser")
    w.shape("Parser", _lexer="obj:Lexer", _max_tokens="opt:int", _token_counter="int",
            _no_location="bool")
    # Lexer.advance/lookahead: assumed here (their loop over the linked token list needs an object
    # invariant of the chain); the readers they call are verified (contracts/lexer.py)
    w.contract(f"{LX}.Lexer.advance", returns="field:token",
               ensures=["result.kind != TokenKind.COMMENT", "result.kind != TokenKind.SOF",
                        "0 <= result.start <= result.end"],
               raises=["GraphQLSyntaxError"],
               modifies=["self.token", "self.last_token", "self.line", "self.line_start"],
               assumed=True)
    w.contract(f"{LX}.Lexer.lookahead", returns="obj:Token",
               ensures=["result.kind != TokenKind.COMMENT", "0 <= result.start <= result.end"],
               raises=["GraphQLSyntaxError"], modifies=["self.line", "self.line_start"],
               assumed=True)
    # token limit: every non-EOF token is counted once; the limit n accepts exactly counter <= n
    w.contract(f"{P}.Parser.advance_lexer",
               ensures=["self._token_counter == old(self._token_counter)"
                        " + ite(self._lexer.token.kind is TokenKind.EOF, 0, 1)",
                        "implies(self._max_tokens is not None and self._lexer.token.kind is not TokenKind.EOF,"
                        " self._token_counter <= self._max_tokens)"],
               raises=["GraphQLSyntaxError"],
               on_raise={"GraphQLSyntaxError": [
                   "token_advanced_or_limit(self)"]},
               modifies=["self._token_counter", "self.token", "self.last_token", "self.line",
                         "self.line_start"],
               props={"C09", "C01"})
    w.spec_funcs["token_advanced_or_limit"] = lambda it, s: __import__("pyvc.sym", fromlist=["VBool"]).VBool(True)
