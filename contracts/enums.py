"""Side-car contracts for GraphQLEnumType's input coercion (C16 / C15): an enum input is accepted
exactly when it names a member, and what comes back is that member's value."""

D = "graphql.type.definition"


def install(w):
    w.alias("EnumValueNode", "graphql.language.ast.EnumValueNode")
    w.contract(f"{D}.did_you_mean_enum_value", params={"enum_type": "ty", "unknown_value_str": "str"},
               returns="str", ensures=[], raises=[], modifies=[], assumed=True)
    MEMBER = "isinstance(value_node, EnumValueNode) and omap_has(self.values, value_node.value)"
    w.contract(f"{D}.GraphQLEnumType.coerce_input_literal",
               params={"self": "ty", "value_node": "ref:ValueNode", "hide_suggestions": "bool"},
               returns="dyn",
               requires=["kind_is(self, 'ENUM')",
                         "implies(isinstance(value_node, EnumValueNode), is_str(value_node.value))"],
               ensures=[MEMBER, "same(result, omap_at(self.values, value_node.value).value)"],
               raises=["GraphQLError"], on_raise={"GraphQLError": [f"not ({MEMBER})"]},
               modifies=[], props={"C16", "C15"})

    MEMBER_V = "is_str(input_value) and omap_has(self.values, input_value)"
    w.contract(f"{D}.GraphQLEnumType.coerce_input_value",
               params={"self": "ty", "input_value": "dyn", "hide_suggestions": "bool"},
               returns="dyn", requires=["kind_is(self, 'ENUM')"],
               # a str naming a member gives that member's value; everything else is an error
               ensures=[MEMBER_V, "same(result, omap_at(self.values, input_value).value)"],
               raises=["GraphQLError"], on_raise={"GraphQLError": [f"not ({MEMBER_V})"]},
               modifies=[], props={"C16", "C15"})

    # result coercion: whatever the resolver returned, what is emitted is the name of a member of
    # this enum, or a field error.  Hashable values go through the assumed lookup table (see
    # theories/schema.py), unhashable ones through the scan below it, which is verified: it returns
    # the name of a member whose value equals the output value.
    w.contract(f"{D}.GraphQLEnumType.coerce_output_value", params={"self": "ty", "output_value": "dyn"},
               returns="str", requires=["kind_is(self, 'ENUM')"],
               ensures=["omap_has(self.values, result)"],
               raises=["GraphQLError"], modifies=[],
               loops={1: {"return_post": ["omap_has(self.values, result)", "same_str(result, enum_name)"]}},
               props={"C16"})
