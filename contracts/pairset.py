"""Side-car contracts for PairSet / OrderedPairSet (C14): the memo tables of the
overlapping-fields rule against an abstract view, with whole-view frames."""

OF = "graphql.validation.rules.overlapping_fields_can_be_merged"


def install(w):
    w.shape("PairSet", _data=("map", ("map", "bool")))
    w.shape("OrderedPairSet", _data=("map", ("map", "bool")))
    # abstract view of a pair table: presence and flag of the (ordered) key pair (x, y)
    w.define("Pres", "s, x, y", "mhas(s._data, x) and mhas(mget(s._data, x), y)")
    w.define("Flag", "s, x, y", "mget(mget(s._data, x), y)")
    # representation invariant: inner dicts are allocated, distinct from the outer dict and from
    # each other (no aliasing between rows)
    w.define("WF", "s",
             "allocated(s._data) and forall_int(k, implies(mhas(s._data, k),"
             " allocated(mget(s._data, k)) and mget(s._data, k) is not s._data))"
             " and forall_int(k, j, implies(mhas(s._data, k) and mhas(s._data, j) and k != j,"
             " mget(s._data, k) is not mget(s._data, j)))")

    # strings are abstracted to a totally ordered key set (only == and < are used)
    KEYS = {"a": "int", "b": "int"}
    ADD_POST = [
        "WF(self)",
        # whole-view frame: exactly the pair {a, b} changes
        "forall_int(x, y, Pres(self, x, y) == (old(Pres(self, x, y)) or (x == LO and y == HI)))",
        "forall_int(x, y, implies(Pres(self, x, y), Flag(self, x, y) =="
        " ite(x == LO and y == HI, FLAGV, old(Flag(self, x, y)))))",
    ]

    def sub(cs, lo, hi, flag):
        return [c.replace("LO", lo).replace("HI", hi).replace("FLAGV", flag) for c in cs]

    w.contract(f"{OF}.PairSet.add",
               params=dict(KEYS, are_mutually_exclusive="bool"),
               requires=["WF(self)"],
               ensures=sub(ADD_POST, "min(a, b)", "max(a, b)", "are_mutually_exclusive"),
               modifies=[], props={"C14", "C13"})
    w.contract(f"{OF}.PairSet.has",
               params=dict(KEYS, are_mutually_exclusive="bool"), returns="bool",
               requires=["WF(self)"],
               # a non-exclusive entry subsumes an exclusive query, not vice versa; symmetric in a, b
               ensures=["result == (Pres(self, min(a, b), max(a, b)) and"
                        " (are_mutually_exclusive or not Flag(self, min(a, b), max(a, b))))",
                        "forall_int(x, y, Pres(self, x, y) == old(Pres(self, x, y)))"],
               modifies=[], props={"C14", "C13"})
    w.contract(f"{OF}.PairSet.__init__", requires=[], ensures=["WF(self)",
               "forall_int(x, y, not Pres(self, x, y))"], modifies=["self._data"], props={"C14", "C13"})

    OKEYS = {"a": "dyn", "b": "int"}
    w.contract(f"{OF}.OrderedPairSet.add",
               params=dict(OKEYS, weakly_present="bool"),
               requires=["WF(self)"],
               ensures=sub(ADD_POST, "id(a)", "b", "weakly_present"),
               modifies=[], props={"C14", "C13"})
    w.contract(f"{OF}.OrderedPairSet.has",
               params=dict(OKEYS, weakly_present="bool"), returns="bool",
               requires=["WF(self)"],
               ensures=["result == (Pres(self, id(a), b) and"
                        " (weakly_present or not Flag(self, id(a), b)))"],
               modifies=[], props={"C14", "C13"})
