"""Side-car contracts for graphql/error: located_error and the constructor of GraphQLError (C01:
a resolver exception of ANY class surfaces as a located error, never as an exception out of
execution).

GraphQLError.__init__ is not verified (super().__init__, traceback plumbing); its contract is
ASSUMED and states what the body visibly needs from its arguments - the annotated types:
nodes a Node or a list of Nodes, positions a collection of ints, source a Source, path a
collection.  located_error is verified against it: whatever attributes the original exception
carries, the arguments it forwards must meet that precondition."""

E = "graphql.error"


def install(w):
    w.alias("Node", "graphql.language.ast.Node")
    w.define("NodeList", "v", "is_list(v) and forall(j, 0, vlen(v), instance_of(vitem(v, j), 'Node'))")
    w.define("IntSeq", "v", "is_sized(v) and forall(j, 0, vlen(v), is_int(vitem(v, j)) or is_bool(vitem(v, j)))")
    TYPED = ["same(arg_nodes, entry_nodes) or is_none(arg_nodes) or not truthy(arg_nodes)"
             " or instance_of(arg_nodes, 'Node')"
             " or NodeList(arg_nodes)",
             "is_none(arg_source) or instance_of(arg_source, 'Source')",
             "is_none(arg_positions) or not truthy(arg_positions) or IntSeq(arg_positions)"]
    w.alias("GraphQLError", f"{E}.graphql_error.GraphQLError")
    w.shape("GraphQLError", __cause__="opaque", __traceback__="opaque", __context__="opaque",
            message="opaque", cause="dyn", path="opaque", original_error="dyn", nodes="opaque",
            source="opaque", positions="opaque", locations="opaque", extensions="dyn")
    # the constructor: what it stores.  The response format needs `extensions` to be a map: the
    # extensions of the underlying error are adopted only when they are a dict.  The location
    # bookkeeping (nodes -> positions -> locations) is skipped here (havoc): it is what the typed
    # call-site assertion of located_error protects.
    w.contract(f"{E}.graphql_error.GraphQLError.__init__",
               params={"message": "opaque", "nodes": "opaque", "source": "opaque",
                       "positions": "opaque", "path": "opaque", "original_error": "dyn",
                       "extensions": "dyn", "cause": "dyn"},
               ensures=["implies(is_none(extensions) or is_dict(extensions), is_dict(self.extensions))"],
               raises=[],
               modifies=["self.message", "self.cause", "self.path", "self.original_error",
                         "self.nodes", "self.source", "self.positions", "self.locations",
                         "self.extensions", "self.__cause__", "self.__traceback__",
                         "self.__context__"],
               # only the tail that decides `extensions` is executed; everything before it (message,
               # cause, path, the location bookkeeping, traceback plumbing) is cut
               start_at="if extensions is None and underlying_error is not None",
               waive=["call of a non-callable"],
               props={"C01"})
    w.contract(f"{E}.located_error.located_error",
               params={"original_error": "dyn", "nodes": "dyn", "path": "dyn"},
               returns="exc:GraphQLError",
               # whatever comes in (an exception of any class, with any attributes - a list-valued
               # `path` included), what goes out is a GraphQLError: handle_field_error re-raises it
               # and only `except GraphQLError` handlers stand between it and the caller
               ensures=["is_a(result, 'GraphQLError')"], raises=[], modifies=[],
               # what is forwarded to the constructor is the caller's own node list, or has the
               # types the constructor's body needs - whatever attributes the original exception
               # carries
               # C10: an error that already knows where it happened keeps its own nodes - the nodes of the
               # field that is being completed are only the fallback
               call_pre={"GraphQLError#1": TYPED + [
                   "implies(truthy(original_nodes) and NodeList(original_nodes),"
                   " is_list(arg_nodes) and vlen(arg_nodes) == vlen(original_nodes)"
                   " and forall(j, 0, vlen(arg_nodes), same(vitem(arg_nodes, j), vitem(original_nodes, j))))",
                   "implies(instance_of(original_nodes, 'Node'),"
                   " is_list(arg_nodes) and vlen(arg_nodes) == 1 and same(vitem(arg_nodes, 0), original_nodes))"]},
               # an exception class whose own __str__ (or that of its message) raises is outside
               # the statement's reach: str() of a user object is a user callable (A5)
               waive=["from `str(original_error"],
               props={"C01", "C10"})
