"""Side-car contracts for graphql/language/visitor.py (C11, C12)."""

VM = "graphql.language.visitor"
PV = f"{VM}.ParallelVisitor.get_enter_leave_for_kind.<locals>"


def install(w):
    w.alias("ParallelVisitor", "graphql.language.visitor.ParallelVisitor")
    w.alias("VisitorActionEnum", "graphql.language.visitor.VisitorActionEnum")
    w.shape("ParallelVisitor", skipping=("list", "dyn"), visitors=("list", "dyn"),
            enter_leave_map="opaque")
    w.define("IsSkip", "r", "same(r, SKIP) or same(r, False)")
    w.define("IsBreak", "r", "same(r, BREAK) or same(r, True)")
    CL = {"self": "obj:ParallelVisitor", "enter_list": ("list", "dyn"), "leave_list": ("list", "dyn")}
    # enter: returns the first result that is neither None nor a control value, else None
    w.contract(f"{PV}.enter", params={"node": "dyn", "args": ("list", "dyn")}, closure=CL,
               returns="dyn",
               requires=["len(self.skipping) == len(enter_list)", "is_other(node)",
                         # the handler lists hold visitor methods or None (A1)
                         "forall(j, 0, len(enter_list), is_none(enter_list[j]) or is_other(enter_list[j]))"],
               ensures=["is_none(result) or not (IsSkip(result) or IsBreak(result))",
                        "len(self.skipping) == old(len(self.skipping))",
                        # a visitor that is skipping (or has stopped) is left alone by enter
                        "forall(j, 0, len(self.skipping), implies(truthy(old(self.skipping[j])),"
                        " same(self.skipping[j], old(self.skipping[j]))))",
                        # an entry only changes to this node (skip) or to BREAK
                        "forall(j, 0, len(self.skipping), same(self.skipping[j], old(self.skipping[j]))"
                        " or same(self.skipping[j], node) or same(self.skipping[j], BREAK))"],
               raises=["Exception"], modifies=[],
               loops={1: {"invariant": [
                   "len(self.skipping) == len(enter_list)",
                   "forall(j, 0, len(self.skipping), implies(truthy(old(self.skipping[j])),"
                   " same(self.skipping[j], old(self.skipping[j]))))",
                   "forall(j, 0, len(self.skipping), same(self.skipping[j], old(self.skipping[j]))"
                   " or same(self.skipping[j], node) or same(self.skipping[j], BREAK))"]}},
               props={"C11", "C12"})
    # leave: SKIP/False from a leave handler is ignored (never returned), BREAK sticks
    w.contract(f"{PV}.leave", params={"node": "dyn", "args": ("list", "dyn")}, closure=CL,
               returns="dyn",
               requires=["len(self.skipping) == len(leave_list)", "is_other(node)",
                         "forall(j, 0, len(leave_list), is_none(leave_list[j]) or is_other(leave_list[j]))"],
               ensures=["is_none(result) or not (IsSkip(result) or IsBreak(result))",
                        "len(self.skipping) == old(len(self.skipping))",
                        # BREAK sticks; a visitor skipping another node keeps skipping
                        "forall(j, 0, len(self.skipping), implies(truthy(old(self.skipping[j]))"
                        " and not same(old(self.skipping[j]), node),"
                        " same(self.skipping[j], old(self.skipping[j]))))",
                        # an entry only changes to None (leaving the skipped node) or to BREAK
                        "forall(j, 0, len(self.skipping), same(self.skipping[j], old(self.skipping[j]))"
                        " or (is_none(self.skipping[j]) and same(old(self.skipping[j]), node))"
                        " or same(self.skipping[j], BREAK))"],
               raises=["Exception"], modifies=[],
               loops={1: {"invariant": [
                   "len(self.skipping) == len(leave_list)",
                   "forall(j, 0, len(self.skipping), implies(truthy(old(self.skipping[j]))"
                   " and not same(old(self.skipping[j]), node),"
                   " same(self.skipping[j], old(self.skipping[j]))))",
                   "forall(j, 0, len(self.skipping), same(self.skipping[j], old(self.skipping[j]))"
                   " or (is_none(self.skipping[j]) and same(old(self.skipping[j]), node))"
                   " or same(self.skipping[j], BREAK))"]}},
               props={"C11", "C12"})


def install_dispatch(w):
    """Visitor.get_enter_leave_for_kind: the handler pair of a kind.  Each phase falls back to the
    generic method on its own: enter_<kind> if the visitor has one, else enter; leave_<kind> if it
    has one, else leave (the documented API, which ParallelVisitor and TypeInfoVisitor build on).
    The per-kind cache is not modelled (a hit returns what an earlier miss stored)."""
    w.shape("Visitor", enter_leave_map=("absmap", ("tuple", "dyn", "dyn")))
    PICK = "ite_val(truthy(vattr(self, '{0}_', kind)), vattr(self, '{0}_', kind), vattr(self, '{0}', ''))"
    w.contract(f"{VM}.Visitor.get_enter_leave_for_kind", params={"kind": "str"},
               returns=("tuple", "dyn", "dyn"), ensures=[], raises=[], modifies=[],
               exit_post=["same(enter_fn, " + PICK.format("enter") + ")",
                          "same(leave_fn, " + PICK.format("leave") + ")",
                          "same(result[0], enter_fn)", "same(result[1], leave_fn)"],
               props={"C11", "C12"})


def install_validate(w):
    VV = "graphql.validation.validate"
    w.alias("ValidationAbortedError", "graphql.validation.validate.ValidationAbortedError")
    # the error-limit callback of validate(): appends while below the limit, else aborts
    w.contract(f"{VV}.validate.<locals>.on_error", params={"error": "opaque"},
               closure={"errors": ("list", "dyn"), "max_errors": "int"},
               ensures=["old(len(errors)) < max_errors", "len(errors) == old(len(errors)) + 1"],
               raises=["ValidationAbortedError"],
               on_raise={"ValidationAbortedError": ["len(errors) >= max_errors",
                                                   "len(errors) == old(len(errors))"]},
               modifies=[], props={"C12"})
    # validate(): the limit handed to the callback is the caller's n (100 when none is given); the
    # traversal may run the callback any number of times (rely: nothing else holds `errors`, a
    # finite check of props/C12.py), so at most n errors are collected before the abort notice
    w.contract("graphql.type.validate.assert_valid_schema", params={"schema": "dyn"},
               raises=["TypeError"], modifies=[], assumed=True)
    w.contract("graphql.utilities.type_info.TypeInfoVisitor.__init__",
               params={"type_info": "dyn", "visitor": "dyn"}, raises=[],
               modifies=["self.type_info", "self.visitor", "self.enter_leave_map"], assumed=True)
    w.contract("graphql.language.visitor.ParallelVisitor.__init__", params={"visitors": "dyn"},
               raises=[], modifies=["self.visitors", "self.skipping", "self.enter_leave_map"],
               assumed=True)
    w.contract(f"{VV}.validate",
               params={"schema": "dyn", "document_ast": "dyn", "rules": "opt:opaque",
                       "max_errors": "opt:int", "hide_suggestions": "bool"},
               returns=("list", "dyn"),
               requires=["max_errors is None or max_errors >= 0"],
               ensures=["implies(max_errors is None, len(result) <= 101)",
                        "implies(max_errors is not None, len(result) <= max_errors + 1)"],
               raises=["TypeError", "Exception"], modifies=[],
               rely={"visit": {"closure": "on_error", "inv": ["len(errors) <= max_errors"]}},
               havoc_stmts=["type_info = TypeInfo(schema)",
                            "context = ValidationContext(schema, document_ast, type_info, on_error, hide_suggestions)",
                            "visitors = [rule(context) for rule in rules]"],
               props={"C12"})


_install = install


def install(w):   # noqa: F811
    _install(w)
    install_dispatch(w)
    install_validate(w)


def install_visit(w):
    w.const_overrides["graphql.language.visitor.QUERY_DOCUMENT_KEYS"] = ("omap", ("list", "str"))
    w.alias("Node", "graphql.language.ast.Node")
    w.alias("Visitor", "graphql.language.visitor.Visitor")
    w.define("IsNode", "v", "instance_of(v, 'Node')")
    INV = [
        "sdepth(stack) >= 0",
        "(stack is None) == is_none(parent)",
        "implies(stack is not None, truthy(parent) or (is_tuple(parent) and vlen(parent) == 0 and idx + 1 == seqlen(keys)))",
        "len(ancestors) == max(sdepth(stack) - 1, 0)",
        "len(path) == max(sdepth(stack) - 1, 0)",
        "implies(stack is None, idx == -1 and seqlen(keys) == 1 and not in_array and len(edits) == 0)",
        "-1 <= idx and idx + 1 <= seqlen(keys)",
        "is_sized(keys)",
        "implies(stack is None, same(node, root))",
        "forall(j, 0, len(ancestors), truthy(ancestors[j]))",
        "frames_ok(stack)",
        # identity: without an editing visitor result nothing is ever recorded as an edit
        "implies(ghost('edit_results') == old(ghost('edit_results')), len(edits) == 0 and edits_empty(stack))",
        "ghost('edit_results') >= old(ghost('edit_results'))",
    ]
    w.contract("graphql.language.visitor.visit",
               params={"root": "dyn", "visitor": "dyn", "visitor_keys": ("omap", ("list", "str"))},
               returns="dyn",
               ensures=["implies(ghost('edit_results') == old(ghost('edit_results')), same(result, root))"],
               # TypeError for a non-node root/child or a non-visitor; visitor functions may raise
               raises=["TypeError", "Exception"], modifies=[],
               locals={"path": ("list", "dyn"), "ancestors": ("list", "dyn"),
                       "edits": ("list", ("tuple", "dyn", "dyn")),
                       "stack": "opt:ref:Stack", "keys": "dyn", "node": "dyn", "parent": "dyn",
                       "key": "dyn"},
               loops={1: {"invariant": INV,
                          # after entering a (non-array) node the keys to traverse are the table
                          # entry of the kind of the node that was entered (after a replacement)
                          "step_post": ["implies(not is_leaving and not in_array,"
                                        " keys_of_kind(keys, visitor_keys, parent))"]}},
               dyn_call_ghost=("edit_results", "is_edit"),
               havoc_stmts=["values = {k: getattr(node, k) for k in node.keys}",
                            "node = node.__class__(**values)"],
               waive=["IndexError from `node.pop(array_key)`", "IndexError from `node[array_key] = edit_value`",
                      "TypeError from `edit_key - edit_offset`",
                      # that a restored frame's (in_array, keys) describe the restored parent needs a
                      # relation between the frame list and the ancestors list (not stated here)
                      "IndexError from `parent[key]`", "TypeError from `parent[key]`"],
               props={"C11"})


_install2 = install


def install(w):   # noqa: F811
    _install2(w)
    install_visit(w)
