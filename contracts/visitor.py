"""Side-car contracts for graphql/language/visitor.py (C11, C12)."""

VM = "graphql.language.visitor"
PV = f"{VM}.ParallelVisitor.get_enter_leave_for_kind.<locals>"


def install(w):
    w.alias("ParallelVisitor", "graphql.language.visitor.ParallelVisitor")
    w.alias("VisitorActionEnum", "graphql.language.visitor.VisitorActionEnum")
    w.shape("ParallelVisitor", skipping=("list", "dyn"), visitors=("list", "dyn"),
            enter_leave_map="opaque")
    w.define("IsSkip", "r", "same(r, SKIP) or same(r, False)")
    w.define("IsBreak", "r", "same(r, BREAK) or same(r, True)")
    CL = {"self": "obj:ParallelVisitor", "enter_list": ("list", "dyn"), "leave_list": ("list", "dyn")}
    # enter: returns the first result that is neither None nor a control value, else None
    w.contract(f"{PV}.enter", params={"node": "dyn", "args": ("list", "dyn")}, closure=CL,
               returns="dyn",
               requires=["len(self.skipping) == len(enter_list)", "is_other(node)"],
               ensures=["is_none(result) or not (IsSkip(result) or IsBreak(result))",
                        "len(self.skipping) == old(len(self.skipping))",
                        # a visitor that is skipping (or has stopped) is left alone by enter
                        "forall(j, 0, len(self.skipping), implies(truthy(old(self.skipping[j])),"
                        " same(self.skipping[j], old(self.skipping[j]))))",
                        # an entry only changes to this node (skip) or to BREAK
                        "forall(j, 0, len(self.skipping), same(self.skipping[j], old(self.skipping[j]))"
                        " or same(self.skipping[j], node) or same(self.skipping[j], BREAK))"],
               raises=["Exception"], modifies=[],
               loops={1: {"invariant": [
                   "len(self.skipping) == len(enter_list)",
                   "forall(j, 0, len(self.skipping), implies(truthy(old(self.skipping[j])),"
                   " same(self.skipping[j], old(self.skipping[j]))))",
                   "forall(j, 0, len(self.skipping), same(self.skipping[j], old(self.skipping[j]))"
                   " or same(self.skipping[j], node) or same(self.skipping[j], BREAK))"]}},
               props={"C11", "C12"})
    # leave: SKIP/False from a leave handler is ignored (never returned), BREAK sticks
    w.contract(f"{PV}.leave", params={"node": "dyn", "args": ("list", "dyn")}, closure=CL,
               returns="dyn",
               requires=["len(self.skipping) == len(leave_list)", "is_other(node)"],
               ensures=["is_none(result) or not (IsSkip(result) or IsBreak(result))",
                        "len(self.skipping) == old(len(self.skipping))",
                        # BREAK sticks; a visitor skipping another node keeps skipping
                        "forall(j, 0, len(self.skipping), implies(truthy(old(self.skipping[j]))"
                        " and not same(old(self.skipping[j]), node),"
                        " same(self.skipping[j], old(self.skipping[j]))))",
                        # an entry only changes to None (leaving the skipped node) or to BREAK
                        "forall(j, 0, len(self.skipping), same(self.skipping[j], old(self.skipping[j]))"
                        " or (is_none(self.skipping[j]) and same(old(self.skipping[j]), node))"
                        " or same(self.skipping[j], BREAK))"],
               raises=["Exception"], modifies=[],
               loops={1: {"invariant": [
                   "len(self.skipping) == len(leave_list)",
                   "forall(j, 0, len(self.skipping), implies(truthy(old(self.skipping[j]))"
                   " and not same(old(self.skipping[j]), node),"
                   " same(self.skipping[j], old(self.skipping[j]))))",
                   "forall(j, 0, len(self.skipping), same(self.skipping[j], old(self.skipping[j]))"
                   " or (is_none(self.skipping[j]) and same(old(self.skipping[j]), node))"
                   " or same(self.skipping[j], BREAK))"]}},
               props={"C11", "C12"})


def install_validate(w):
    VV = "graphql.validation.validate"
    w.alias("ValidationAbortedError", "graphql.validation.validate.ValidationAbortedError")
    # the error-limit callback of validate(): appends while below the limit, else aborts
    w.contract(f"{VV}.validate.<locals>.on_error", params={"error": "opaque"},
               closure={"errors": ("list", "dyn"), "max_errors": "int"},
               ensures=["old(len(errors)) < max_errors", "len(errors) == old(len(errors)) + 1"],
               raises=["ValidationAbortedError"],
               on_raise={"ValidationAbortedError": ["len(errors) >= max_errors",
                                                   "len(errors) == old(len(errors))"]},
               modifies=[], props={"C12"})


_install = install


def install(w):   # noqa: F811
    _install(w)
    install_validate(w)
