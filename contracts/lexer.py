"""Side-car contracts for graphql/language/lexer.py, character_classes.py, source.py.

Nothing here is executed against the repository; clauses are parsed and turned into VCs by pyvc.
Loop numbers are the ordinal of the loop in the function's source (by position).
"""

M = "graphql.language.lexer"
CC = "graphql.language.character_classes"


def install(w):
    w.alias("TokenKind", "graphql.language.token_kind.TokenKind")
    w.alias("Token", "graphql.language.ast.Token")
    w.alias("Source", "graphql.language.source.Source")
    w.alias("SourceLocation", "graphql.language.location.SourceLocation")
    w.alias("Lexer", "graphql.language.lexer.Lexer")
    w.alias("EscapeSequence", "graphql.language.lexer.EscapeSequence")
    w.alias("GraphQLSyntaxError", "graphql.error.syntax_error.GraphQLSyntaxError")
    w.alias("GraphQLError", "graphql.error.graphql_error.GraphQLError")

    w.shape("Source", body="str", name="str", location_offset="ntuple:SourceLocation")
    w.shape("SourceLocation", line="int", column="int")
    w.shape("Lexer", source="obj:Source", line="int", line_start="int",
            token="obj:Token", last_token="obj:Token")
    w.shape("Token", kind="atom:TokenKind", start="int", end="int", line="int", column="int",
            value="opt:str", prev="opt:obj:Token", next="opt:obj:Token")
    w.shape("EscapeSequence", value="str", size="int")

    # ---- named predicates ------------------------------------------------------------------
    w.define("BODY", "self", "self.source.body")
    w.define("LexInv", "self, q",
             "self.line == 1 + nlt(self.source.body, q) and self.line_start == lls(self.source.body, q)")
    w.define("InBody", "self, q", "0 <= q <= len(self.source.body)")
    w.define("SameLine", "body, a, b", "nlt(body, b) == nlt(body, a) and lls(body, b) == lls(body, a)")
    w.define("Digit", "c", "48 <= c <= 57")
    w.define("Letter", "c", "(65 <= c <= 90) or (97 <= c <= 122)")
    w.define("NameStart", "c", "(65 <= c <= 90) or (97 <= c <= 122) or c == 95")
    w.define("NameCont", "c", "(65 <= c <= 90) or (97 <= c <= 122) or c == 95 or (48 <= c <= 57)")
    w.define("Hex", "c", "(48 <= c <= 57) or (65 <= c <= 70) or (97 <= c <= 102)")
    w.define("Scalar", "c", "(0 <= c <= 0xD7FF) or (0xE000 <= c <= 0x10FFFF)")
    w.define("HiSur", "c", "0xD800 <= c <= 0xDBFF")
    w.define("LoSur", "c", "0xDC00 <= c <= 0xDFFF")
    w.define("LT", "c", "c == 10 or c == 13")
    w.define("Ignored", "c", "c == 32 or c == 9 or c == 44 or c == 0xFEFF or c == 10 or c == 13")
    # Punctuator :: ! $ & ( ) : = @ [ ] { | }   (the spread ... is handled apart)
    w.define("Punct1", "c", "c == 33 or c == 36 or c == 38 or c == 40 or c == 41 or c == 58 or c == 61"
                            " or c == 64 or c == 91 or c == 93 or c == 123 or c == 124 or c == 125")

    # ---- character classes (operands of length <= 1; the empty string is in no class) -------------
    for fn, pred in (("is_digit", "Digit"), ("is_letter", "Letter"),
                     ("is_name_start", "NameStart"), ("is_name_continue", "NameCont")):
        w.contract(f"{CC}.{fn}", params={"char": "str"}, returns="bool",
                   requires=["len(char) <= 1"],
                   ensures=[f"result == (len(char) == 1 and {pred}(cp(char, 0)))"],
                   props={"C01", "C09"})

    # ---- pure helpers ------------------------------------------------------------------------------
    w.contract(f"{M}.read_hex_digit", params={"char": "str"}, returns="int",
               requires=["len(char) <= 1"],
               ensures=["-1 <= result <= 15",
                        "(result >= 0) == (len(char) == 1 and Hex(cp(char, 0)))",
                        "implies(len(char) == 1 and Digit(cp(char, 0)), result == cp(char, 0) - 48)",
                        "implies(len(char) == 1 and 65 <= cp(char, 0) <= 70, result == cp(char, 0) - 55)",
                        "implies(len(char) == 1 and 97 <= cp(char, 0) <= 102, result == cp(char, 0) - 87)"],
               props={"C01", "C09", "C08"})
    w.contract(f"{M}.is_unicode_scalar_value", params={"char": "str"}, returns="bool",
               requires=["len(char) == 1"],
               ensures=["result == Scalar(cp(char, 0))"], props={"C01", "C09", "C08"})
    w.contract(f"{M}.is_supplementary_code_point", params={"body": "str", "location": "int"},
               returns="bool", requires=["0 <= location"],
               ensures=["result == (location + 1 < len(body) and HiSur(cp(body, location))"
                        " and LoSur(cp(body, location + 1)))"], props={"C01", "C09", "C08"})
    w.contract(f"{M}.read_16_bit_hex_code", params={"body": "str", "position": "int"},
               returns="int", requires=["0 <= position"],
               ensures=["result <= 0xFFFF",
                        "(result >= 0) == (position + 4 <= len(body) and Hex(cp(body, position))"
                        " and Hex(cp(body, position + 1)) and Hex(cp(body, position + 2))"
                        " and Hex(cp(body, position + 3)))"],
               props={"C01", "C09", "C08"})
    # Punctuator :: one of ! $ & ( ) ... : = @ [ ] { | }  (and `.` for schema coordinates)
    w.define("PunctKind", "k",
             "k == TokenKind.BANG or k == TokenKind.DOLLAR or k == TokenKind.AMP"
             " or k == TokenKind.PAREN_L or k == TokenKind.PAREN_R or k == TokenKind.DOT"
             " or k == TokenKind.SPREAD or k == TokenKind.COLON or k == TokenKind.EQUALS"
             " or k == TokenKind.AT or k == TokenKind.BRACKET_L or k == TokenKind.BRACKET_R"
             " or k == TokenKind.BRACE_L or k == TokenKind.PIPE or k == TokenKind.BRACE_R")
    w.contract(f"{M}.is_punctuator_token_kind", params={"kind": "atom:TokenKind"}, returns="bool",
               ensures=["result == PunctKind(kind)"], props={"C01", "C09"})

    # ---- Lexer methods --------------------------------------------------------------------------------
    w.contract(f"{M}.Lexer.create_token",
               params={"kind": "atom:TokenKind", "start": "int", "end": "int", "value": "opt:str"},
               returns="obj:Token",
               ensures=["result.kind == kind", "result.start == start", "result.end == end",
                        "result.line == self.line", "result.column == 1 + start - self.line_start",
                        "result.prev is None", "result.next is None",
                        "(result.value is None) == (value is None)",
                        "implies(value is not None, result.value == value)"],
               modifies=[], props={"C01", "C09", "C10"})

    w.contract(f"{M}.Lexer.print_code_point_at", params={"location": "int"}, returns="str",
               requires=["0 <= location"], ensures=[], modifies=[], props={"C01"})

    # every reader below: starts at a position of the body, never passes its end, reports
    # line/column from the lexer state (create_token) and leaves the state as LexInv demands.
    COMMON_POST = [
        "result.start == start",
        "start < result.end <= len(self.source.body)",
        "result.line == old(self.line)",
        "result.column == 1 + start - old(self.line_start)",
        "not midCRLF(self.source.body, result.end)",
    ]
    SAME = ["SameLine(self.source.body, start, result.end)"]

    w.contract(f"{M}.Lexer.read_comment", params={"start": "int"}, returns="obj:Token",
               requires=["0 <= start < len(self.source.body)", "cp(self.source.body, start) == 35"],
               ensures=COMMON_POST + SAME + ["result.kind == TokenKind.COMMENT"],
               modifies=[],
               loops={1: {"invariant": ["start < position <= body_length",
                                        "body_length == len(body)",
                                        "not LT(cp(body, position - 1))",
                                        "SameLine(body, start, position)"],
                          "variant": "body_length - position"}},
               props={"C01", "C09", "C10"})

    w.contract(f"{M}.Lexer.read_name", params={"start": "int"}, returns="obj:Token",
               requires=["0 <= start < len(self.source.body)",
                         "NameStart(cp(self.source.body, start))"],
               ensures=COMMON_POST + SAME + [
                   "result.kind == TokenKind.NAME",
                   # Name :: NameStart NameContinue* [lookahead != NameContinue]
                   "forall(i, start, result.end, NameCont(cp(self.source.body, i)))",
                   "result.end == len(self.source.body)"
                   " or not NameCont(cp(self.source.body, result.end))",
                   "result.value is not None",
                   "result.value == self.source.body[start:result.end]"],
               modifies=[],
               loops={1: {"invariant": ["start < position <= body_length",
                                        "body_length == len(body)",
                                        "forall(i, start, position, NameCont(cp(body, i)))",
                                        "not LT(cp(body, position - 1))",
                                        "SameLine(body, start, position)"],
                          "variant": "body_length - position"}},
               props={"C01", "C09", "C10"})

    # IntValue :: IntegerPart [lookahead != {Digit, `.`, NameStart}]
    # FloatValue :: IntegerPart (FractionalPart | ExponentPart | FractionalPart ExponentPart) [same]
    # IntegerPart :: -? 0 | -? NonZeroDigit Digit*   FractionalPart :: . Digit+
    # ExponentPart :: [eE] [+-]? Digit+
    # stated as local facts over the span [start, end) of the token (B the body, I0 the offset of the
    # first digit); together they admit exactly the strings of the grammar above
    w.define("BSLineBegin", "start, line_start, block_lines",
             "ite(len(block_lines) == 0, start + 3, line_start)")
    w.define("NumI0", "b, s", "ite(cp(b, s) == 45, s + 1, s)")
    w.define("IsE", "c", "c == 69 or c == 101")
    w.define("IsSign", "c", "c == 43 or c == 45")
    w.define("NumChar", "c", "(48 <= c <= 57) or c == 43 or c == 45 or c == 46 or c == 69 or c == 101")
    NUMBER_GRAMMAR = [
        "Digit(cp(self.source.body, NumI0(self.source.body, start)))",
        # no leading zero
        "implies(cp(self.source.body, NumI0(self.source.body, start)) == 48,"
        " not (NumI0(self.source.body, start) + 1 < result.end"
        " and Digit(cp(self.source.body, NumI0(self.source.body, start) + 1))))",
        # lookahead restriction and maximal munch
        "result.end == len(self.source.body) or not (cp(self.source.body, result.end) == 46"
        " or NameStart(cp(self.source.body, result.end)) or Digit(cp(self.source.body, result.end)))",
        "Digit(cp(self.source.body, result.end - 1))",
        "forall(i, start, result.end, NumChar(cp(self.source.body, i)))",
        # a sign only at the start or right after the exponent marker
        "forall(i, start + 1, result.end, implies(IsSign(cp(self.source.body, i)),"
        " IsE(cp(self.source.body, i - 1))))",
        # a dot has a digit on both sides; there is at most one
        "forall(i, start + 1, result.end, implies(cp(self.source.body, i) == 46,"
        " Digit(cp(self.source.body, i - 1)) and Digit(cp(self.source.body, i + 1))))",
        "forall_int(i, j, implies(start <= i and i < j and j < result.end"
        " and cp(self.source.body, i) == 46, cp(self.source.body, j) != 46))",
        # after the exponent marker: an optional sign, then digits only
        "forall_int(i, j, implies(start <= i and i < j and j < result.end"
        " and IsE(cp(self.source.body, i)), Digit(cp(self.source.body, j))"
        " or (j == i + 1 and IsSign(cp(self.source.body, j)))))",
        # the exponent marker follows a digit
        "forall(i, start + 1, result.end, implies(IsE(cp(self.source.body, i)),"
        " Digit(cp(self.source.body, i - 1))))",
        # kind: Int iff digits only
        "implies(result.kind == TokenKind.INT, forall(i, NumI0(self.source.body, start), result.end,"
        " Digit(cp(self.source.body, i))))",
        "implies(result.kind == TokenKind.FLOAT, exists(i, start + 1, result.end - 1,"
        " cp(self.source.body, i) == 46 or IsE(cp(self.source.body, i))))",
        "result.value is not None",
        "result.value == self.source.body[start:result.end]",
    ]

    w.contract(f"{M}.Lexer.read_digits", params={"start": "int", "first_char": "str"},
               returns="int",
               requires=["0 <= start <= len(self.source.body)",
                         "len(first_char) <= 1",
                         "(len(first_char) == 1) == (start < len(self.source.body))",
                         "implies(len(first_char) == 1, cp(first_char, 0) == cp(self.source.body, start))"],
               ensures=["start < result <= len(self.source.body)",
                        "Digit(cp(self.source.body, start))",
                        "Digit(cp(self.source.body, result - 1))",
                        # Digit+ with maximal munch
                        "forall(i, start, result, Digit(cp(self.source.body, i)))",
                        "result == len(self.source.body) or not Digit(cp(self.source.body, result))",
                        "SameLine(self.source.body, start, result)"],
               raises=["GraphQLSyntaxError"],
               # rejects only when there is no digit at all
               raise_post=["not (len(first_char) == 1 and Digit(cp(first_char, 0)))"],
               modifies=[],
               loops={1: {"invariant": ["start < position <= body_length",
                                        "body_length == len(body)",
                                        "forall(i, start, position, Digit(cp(body, i)))",
                                        "Digit(cp(body, position - 1))",
                                        "SameLine(body, start, position)"],
                          "variant": "body_length - position"}},
               props={"C01", "C09", "C10"})

    w.contract(f"{M}.Lexer.read_number", params={"start": "int", "first_char": "str"},
               returns="obj:Token",
               requires=["0 <= start < len(self.source.body)", "len(first_char) == 1",
                         "cp(first_char, 0) == cp(self.source.body, start)",
                         "Digit(cp(first_char, 0)) or cp(first_char, 0) == 45"],
               ensures=COMMON_POST + SAME + [
                   "result.kind == TokenKind.INT or result.kind == TokenKind.FLOAT"] + NUMBER_GRAMMAR,
               raises=["GraphQLSyntaxError"], modifies=[],
               props={"C01", "C09", "C10"})

    ESC_POST = ["result.size >= 2", "position + result.size <= len(self.source.body)",
                "SameLine(self.source.body, position, position + result.size)",
                "not LT(cp(self.source.body, position + result.size - 1))"]
    ESC_PRE = ["0 <= position < len(self.source.body)", "cp(self.source.body, position) == 92"]
    w.contract(f"{M}.Lexer.read_escaped_character", params={"position": "int"},
               returns="ntuple:EscapeSequence", requires=ESC_PRE, ensures=ESC_POST + ["result.size == 2"],
               raises=["GraphQLSyntaxError"], modifies=[], props={"C01", "C09", "C10", "C08"})
    w.contract(f"{M}.Lexer.read_escaped_unicode_fixed_width", params={"position": "int"},
               returns="ntuple:EscapeSequence",
               requires=ESC_PRE + ["position + 1 < len(self.source.body)",
                                   "cp(self.source.body, position + 1) == 117"],
               ensures=ESC_POST + ["result.size == 6 or result.size == 12"],
               raises=["GraphQLSyntaxError"], modifies=[], props={"C01", "C09", "C10", "C08"})
    w.contract(f"{M}.Lexer.read_escaped_unicode_variable_width", params={"position": "int"},
               returns="ntuple:EscapeSequence",
               requires=ESC_PRE + ["position + 2 < len(self.source.body)",
                                   "cp(self.source.body, position + 1) == 117",
                                   "cp(self.source.body, position + 2) == 123"],
               ensures=ESC_POST + ["5 <= result.size <= 12"],
               raises=["GraphQLSyntaxError"], modifies=[],
               loops={1: {"invariant": ["3 <= size <= max_size", "max_size <= 12",
                                        "position + max_size <= len(body)",
                                        "point >= 0",
                                        "SameLine(body, position, position + size)",
                                        "not LT(cp(body, position + size - 1))"],
                          "variant": "max_size - size"}},
               props={"C01", "C09", "C10", "C08"})

    w.contract(f"{M}.Lexer.read_string", params={"start": "int"}, returns="obj:Token",
               requires=["0 <= start < len(self.source.body)", "cp(self.source.body, start) == 34"],
               ensures=COMMON_POST + SAME + ["result.kind == TokenKind.STRING"],
               raises=["GraphQLSyntaxError"], modifies=[],
               loops={1: {"invariant": ["start < position <= body_length",
                                        "body_length == len(body)",
                                        "not LT(cp(body, position - 1))",
                                        "SameLine(body, start, position)"],
                          "variant": "body_length - position"}},
               props={"C01", "C09", "C10", "C08"})

    w.contract(f"{M}.Lexer.read_block_string", params={"start": "int"}, returns="obj:Token",
               requires=["0 <= start", "start + 3 <= len(self.source.body)",
                         "cp(self.source.body, start) == 34",
                         "cp(self.source.body, start + 1) == 34",
                         "cp(self.source.body, start + 2) == 34",
                         "LexInv(self, start)"],
               ensures=COMMON_POST + ["result.kind == TokenKind.BLOCK_STRING",
                                      "LexInv(self, result.end)"],
               raises=["GraphQLSyntaxError"], modifies=["self.line", "self.line_start"],
               loops={1: {"invariant": ["start + 3 <= position <= body_length",
                                        "body_length == len(body)",
                                        "not midCRLF(body, position)",
                                        "len(block_lines) == nlt(body, position) - nlt(body, start)",
                                        # content accounting of the current raw line (CB: offset where
                                        # its content begins): every source character scanned so far
                                        # is in current_line or in the pending chunk, except the one
                                        # backslash of each escaped triple quote (4 source characters
                                        # give 3 of content) - no chunk is lost or taken twice
                                        "BSLineBegin(start, line_start, block_lines) <= chunk_start <= position",
                                        "len(current_line) + (position - chunk_start)"
                                        " <= position - BSLineBegin(start, line_start, block_lines)",
                                        "4 * (len(current_line) + (position - chunk_start))"
                                        " >= 3 * (position - BSLineBegin(start, line_start, block_lines))",
                                        "line_start == lls(body, position)",
                                        "self.line == 1 + nlt(body, start)",
                                        "self.line_start == lls(body, start)"],
                          "variant": "body_length - position"}},
               props={"C01", "C08", "C09", "C10"})

    w.contract(f"{M}.Lexer.read_next_token", params={"start": "int"}, returns="obj:Token",
               requires=["InBody(self, start)", "not midCRLF(self.source.body, start)",
                         "LexInv(self, start)"],
               ensures=["start <= result.start", "result.start <= result.end",
                        "result.end <= len(self.source.body)",
                        "result.line == 1 + nlt(self.source.body, result.start)",
                        "result.column == result.start + 1 - lls(self.source.body, result.start)",
                        "LexInv(self, result.end)",
                        "not midCRLF(self.source.body, result.end)",
                        "implies(result.kind == TokenKind.EOF, result.start == len(self.source.body))",
                        "implies(result.kind != TokenKind.EOF, result.end > result.start)",
                        "result.kind != TokenKind.SOF"],
               raises=["GraphQLSyntaxError"], modifies=["self.line", "self.line_start"],
               # the dispatch is total over the lexical grammar: read_next_token itself rejects a
               # position only when the character there is not ignored and starts no token
               raise_post=["not Ignored(cp(body, position))",
                           "cp(body, position) != 35", "cp(body, position) != 34",
                           "not Punct1(cp(body, position))",
                           "not Digit(cp(body, position))", "cp(body, position) != 45",
                           "not NameStart(cp(body, position))",
                           "not (position + 2 < len(body) and cp(body, position) == 46"
                           " and cp(body, position + 1) == 46 and cp(body, position + 2) == 46)"],
               loops={1: {"invariant": ["start <= position <= body_length",
                                        "body_length == len(body)",
                                        "not midCRLF(body, position)",
                                        "self.line == 1 + nlt(body, position)",
                                        "self.line_start == lls(body, position)"],
                          "variant": "body_length - position"},
                      2: {"invariant": ["position < end <= body_length"],
                          "variant": "body_length - end"}},
               props={"C01", "C09", "C10"})



def install_strip(w):
    """strip_ignored_characters (C09): per token, exactly one space is inserted when the previous
    token added was a non-punctuator and the current one is a non-punctuator or a spread (`1...`
    would lex as a broken number), nothing otherwise; every token but a block string is copied
    with its source length; the flag handed to the next iteration is "this token is a
    non-punctuator".  (Lengths only: the text of concatenations is not modelled.)"""
    U = "graphql.utilities.strip_ignored_characters"
    w.contract(f"{U}.strip_ignored_characters", params={"source": ("union", "str", "obj:Source")},
               returns="str", ensures=[], raises=["GraphQLSyntaxError"], modifies=[],
               loops={1: {"step_post": [
                   "was_last_added_token_non_punctuator == (not PunctKind(token_kind))",
                   "implies(token_kind != TokenKind.BLOCK_STRING, len(stripped_body) =="
                   " at_iter_start(len(stripped_body)) + (current_token.end - current_token.start)"
                   " + ite(at_iter_start(was_last_added_token_non_punctuator)"
                   " and (not PunctKind(token_kind) or token_kind == TokenKind.SPREAD), 1, 0))",
                   "implies(token_kind == TokenKind.BLOCK_STRING, len(stripped_body) >="
                   " at_iter_start(len(stripped_body))"
                   " + ite(at_iter_start(was_last_added_token_non_punctuator), 1, 0))"]}},
               props={"C09"})


_lexer_install = install


def install(w):   # noqa: F811
    _lexer_install(w)
    install_strip(w)
