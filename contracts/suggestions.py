"""Side-car contracts for graphql/pyutils/suggestion_list.py (C01: the request pipeline is total).

suggestion_list is reached at request time with attacker-chosen text: the unknown keys of an
input-object variable value (coerce_variable_values -> validate_input_value -> did_you_mean).
LexicalDistance keeps three scratch rows sized in __init__ and indexed in measure; the object
invariant that makes every index safe is  len(row) >= len(_input_list) + 1  for the three rows.
str.lower() is modelled as "some string" - its length is NOT the length of the receiver
(e.g. 'İ'.lower() has two code points)."""

PU = "graphql.pyutils.suggestion_list"

ROWS_OK = ["len(self._rows) == 3",
           "len(self._rows[0]) >= len(self._input_list) + 1",
           "len(self._rows[1]) >= len(self._input_list) + 1",
           "len(self._rows[2]) >= len(self._input_list) + 1"]


def install(w):
    w.alias("LexicalDistance", f"{PU}.LexicalDistance")
    w.shape("LexicalDistance", _input="str", _input_lower_case="str",
            _input_list=("list", "int"), _rows=("fixed", 3, ("list", "int")))
    w.contract(f"{PU}.LexicalDistance.__init__", params={"input_": "str"},
               ensures=list(ROWS_OK), raises=[],
               modifies=["self._input", "self._input_lower_case", "self._input_list", "self._rows"],
               props={"C01"})
    INV = ["len(rows) == 3",
           "len(rows[0]) >= len(self._input_list) + 1",
           "len(rows[1]) >= len(self._input_list) + 1",
           "len(rows[2]) >= len(self._input_list) + 1",
           "b_len <= len(self._input_list)", "b_len <= a_len", "a_len == len(a)", "b_len == len(b)"]
    w.contract(f"{PU}.LexicalDistance.measure", params={"option": "str", "threshold": "int"},
               returns="opt:int", requires=list(ROWS_OK), ensures=[], raises=[],
               modifies=[], loop_all=INV,
               loops={3: {"invariant": INV + ["1 <= i <= a_len"]}},
               props={"C01"})
