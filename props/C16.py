"""C16 - leaf results are serialised within the specification's value domains."""
from .common import A

LEVEL = "proof"
EXPLANATION = (
    "Every output coercer of the five built-in scalars (serialize_int/float/string/boolean/id) "
    "and every helper they call is verified against the property statement for an arbitrary "
    "Python value (uninterpreted sort Val with tag/projection functions, abstract float model): "
    "a normal return lies in the type's domain (Int: an int within 32 bits numerically equal to "
    "the input; Float: a finite float numerically equal to an int or float input - exactness of "
    "every int<->float crossing; String/ID: str; Boolean: bool), anything else raises. The input "
    "coercers are verified the same way, with exceptional postconditions ('raises only if the "
    "input is outside the domain'), and the output->input round trip is proved as ghost "
    "functions over those contracts. Enum types: coerce_output_value returns the name of a member of "
    "the enum or raises (the scan for unhashable values is verified: it returns the name of a member whose "
    "value equals the result; the lookup table for hashable values is an assumed contract, see "
    "trusted_base); coerce_input_value / coerce_input_literal accept exactly a str / an EnumValue naming a "
    "member and return that member's value. Executor.complete_leaf_value never passes None / Undefined on as a "
    "leaf result.")
UNVERIFIED = [
    "GraphQLEnumType._value_lookup (the dict python value -> first member name is not modelled: assumed to hold "
    "names of self.values only; that the *first* member with an equal value is the one emitted is not decided)",
    "a decimal string converted by float(str) is rounded to the nearest double (not counted as precision loss, DESIGN.md C16)",
]
TRUSTED = []
ASSUMPTIONS = [A["A1"], A["A2"], A["A3"], A["A5"], A["ENGINE"],
               "machine floats are modelled as (class, real value); float(int) is the assumed "
               "rounding function rnd (integer valued, exact up to 2**53)"]
LIFTERS = []
