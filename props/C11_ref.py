"""Bounded stand-in for the part of visit() that its contract waives (the application of edits) and
for the statements no per-function contract expresses (exactly once, in order, documented effect of
every decision): a reference traversal written from the documentation of Visitor / visit(), run
against the real visit() over small documents and all single decisions and pairs of decisions.

BOUNDED, never counted as proved.  Bound: the documents of DOCS below (<= 40 positions each), every
decision table with one decision, and every table with two decisions (thorough) or a seeded sample
of them (quick), actions {SKIP, False, BREAK, REMOVE, a replacement node, a replacement value, the node itself}.
Runs under the repository's interpreter (imported by the native side only)."""
import itertools
import random

DOCS = [
    "{ a }",
    "{ a: b(x: 1) @d { c } e }",
    "query Q($v: Int = 1) { f(a: [1, $v], b: {k: true}) ...F }",
    "fragment F on T { ... on U { a } b }",
    "type T implements I @d { f(a: Int = 1): [T!]! }",
]


class Break(Exception):
    pass


SAME = object()     # decision "return the node that was passed in"


REMOVED = object()


def ref_visit(root, decide, log):
    """The documented semantics. decide(phase, path) -> action; log gets one entry per call."""
    from graphql.language import Node
    from graphql.language.ast import QUERY_DOCUMENT_KEYS
    from graphql.language.visitor import BREAK, SKIP, REMOVE

    def rebuild(node, edits):
        values = {k: getattr(node, k) for k in node.keys}
        values.update(edits)
        return node.__class__(**values)

    def visit_node(node, key, parent, path, ancestors):
        log.append(("enter", node, key, parent, tuple(path), tuple(ancestors)))
        r = decide("enter", tuple(path))
        if r is BREAK or r is True:
            raise Break
        if r is SKIP or r is False:
            return node
        if r is REMOVE or r is Ellipsis:
            return REMOVED
        if r is not None:
            if not isinstance(r, Node):
                return r
            node = r                                   # traversal continues in the replacement
        edits = {}
        anc2 = list(ancestors) + ([parent] if parent is not None else [])
        for k in QUERY_DOCUMENT_KEYS.get(node.kind, ()):
            child = getattr(node, k, None)
            if child is None:
                continue
            if isinstance(child, tuple):
                out, changed = [], False
                for i, c in enumerate(child):
                    res = visit_node(c, i, child, path + [k, i], anc2 + [node])
                    if res is REMOVED:
                        changed = True
                        continue
                    if res is not c:
                        changed = True
                    out.append(res)
                if changed:
                    edits[k] = tuple(out)
            else:
                res = visit_node(child, k, node, path + [k], anc2)
                if res is REMOVED:
                    edits[k] = None                    # REMOVE: delete this node
                elif res is not child:
                    edits[k] = res
        if edits:
            node = rebuild(node, edits)
        log.append(("leave", node, key, parent, tuple(path), tuple(ancestors)))
        r2 = decide("leave", tuple(path))
        if r2 is BREAK or r2 is True:
            raise Break
        if r2 is REMOVE or r2 is Ellipsis:
            return REMOVED
        if r2 is None or r2 is SKIP or r2 is False:    # leave: IDLE or SKIP: no action
            return node
        return r2
    try:
        res = visit_node(root, None, None, [], [])
    except Break:
        return "BROKEN"
    return res


def real_visit(root, decide, log):
    from graphql.language import Visitor, visit

    class V(Visitor):
        def enter(self, node, key, parent, path, ancestors):
            log.append(("enter", node, key, parent, tuple(path), tuple(ancestors)))
            return decide("enter", tuple(path))

        def leave(self, node, key, parent, path, ancestors):
            log.append(("leave", node, key, parent, tuple(path), tuple(ancestors)))
            return decide("leave", tuple(path))
    return visit(root, V())


def same_log(a, b):
    if len(a) != len(b):
        return f"{len(a)} calls expected, {len(b)} made"
    for k, (x, y) in enumerate(zip(a, b)):
        if x[0] != y[0] or x[2] != y[2] or x[4] != y[4]:
            return f"call {k}: expected {x[0]} key={x[2]!r} path={x[4]}, got {y[0]} key={y[2]!r} path={y[4]}"
        if x[1] != y[1]:
            return f"call {k} ({x[0]} at {x[4]}): node differs: expected {x[1]!r}, got {y[1]!r}"
        if len(x[5]) != len(y[5]):
            return f"call {k} ({x[0]} at {x[4]}): {len(x[5])} ancestors expected, got {len(y[5])}"
    return None


def positions(root):
    log = []
    ref_visit(root, lambda ph, p: None, log)
    return sorted({(e[0], e[4]) for e in log})


def check_table(text, root, table, snapshot):
    """Returns a failure description or None."""
    from graphql.language import Node
    from graphql.language.visitor import BREAK
    from graphql.utilities import ast_to_dict

    la, lb = [], []

    def decider(log):
        def decide(phase, path):
            a = table.get((phase, path))
            if a is SAME:
                return log[-1][1]      # the idiom `return node`: the node the handler was given
            return a
        return decide
    want = ref_visit(root, decider(la), la)
    try:
        got = real_visit(root, decider(lb), lb)
    except Exception as e:  # noqa: BLE001
        return f"visit raised {type(e).__name__}: {e}"
    if ast_to_dict(root, locations=True) != snapshot:
        return "the input tree was modified"
    broke = any(v is BREAK or v is True for v in table.values())
    d = same_log(la, lb)
    if d and not (want == "BROKEN" and broke and len(lb) == len(la)):
        return "call sequence: " + d
    if want == "BROKEN":
        return None          # the value returned after BREAK is not documented
    if want is REMOVED:
        return None          # removing the root: not documented what is returned
    if not any(v is not None for v in table.values()) and got is not root:
        return "no decision, but a different tree object was returned"
    if isinstance(want, Node) or isinstance(got, Node):
        if want != got:
            return f"result differs: expected {want!r} == {_show(want)}, got {_show(got)}"
    return None


def _show(n):
    try:
        from graphql.utilities import ast_to_dict
        return str(ast_to_dict(n))[:300]
    except Exception as e:  # noqa: BLE001
        return f"<{type(e).__name__}: {e}>"


def search(seed=0, thorough=False, budget_s=240):
    """Returns a dict describing a failing input, or None."""
    import time
    from graphql import parse
    from graphql.language import NameNode
    from graphql.language.visitor import BREAK, SKIP, REMOVE
    from graphql.utilities import ast_to_dict
    t0 = time.time()
    rnd = random.Random(seed)
    repl = NameNode(value="replacement")
    actions = [SKIP, False, BREAK, REMOVE, repl, 42, SAME]
    names = {id(SKIP): "SKIP", id(False): "False", id(BREAK): "BREAK", id(REMOVE): "REMOVE",
             id(repl): "NameNode('replacement')", id(42): "42", id(SAME): "the node itself"}

    def describe(table):
        return {f"{ph} at path {list(p)}": names.get(id(a), repr(a)) for (ph, p), a in table.items()}
    for text in DOCS:
        root = parse(text)
        snap = ast_to_dict(root, locations=True)
        pos = positions(root)
        singles = [{p: a} for p in pos for a in actions]
        for table in [{}] + singles:
            f = check_table(text, root, table, snap)
            if f:
                return {"document": text, "decisions": describe(table), "observed": f}
        pairs = [(p, q) for p, q in itertools.combinations(pos, 2)]
        if not thorough:
            rnd.shuffle(pairs)
            pairs = pairs[:150]
        for p, q in pairs:
            for a, b in itertools.product(actions, actions):
                if time.time() - t0 > budget_s:
                    return None
                table = {p: a, q: b}
                f = check_table(text, root, table, snap)
                if f:
                    return {"document": text, "decisions": describe(table), "observed": f}
    return None
