"""C20 - schema validation reports every violation and never crashes (partial)."""
from .common import A, gtypes_lemmas, run_native

LEVEL = "other"
EXPLANATION = (
    "Never raises: every method of SchemaValidationContext (validate_root_types, "
    "validate_directives, validate_types, validate_fields, validate_input_fields, "
    "validate_interfaces, validate_type_implements_interface/ancestors, validate_union_members, "
    "validate_enum_values, validate_default_value, validate_name, "
    "validate_one_of_input_object_field) and the node helpers are verified with `raises nothing` "
    "for an arbitrary schema object graph: schema, types, fields, arguments, enum values, default "
    "inputs and AST nodes are symbolic objects whose attributes are uninterpreted functions of "
    "their identity (any kinds, any None-ness the declared shapes allow, dicts and lists of any "
    "length). Every attribute access on a possibly-None or wrongly-kinded object, every key lookup "
    "and every precondition of a callee (e.g. validate_default_input requires an input type) is an "
    "obligation. is_input_type/is_output_type/is_equal_type/is_type_sub_type_of are verified "
    "against the spec relations. Reports <=> violated (ghost counter of report_error calls): exact for "
    "validate_one_of_input_object_field and validate_name, and per iteration for every looping rule - "
    "validate_fields / validate_directives / validate_input_fields (name, input / output type, "
    "required-and-deprecated, OneOf restrictions; exact for positions without a default value, a lower "
    "bound with one), validate_enum_values, validate_union_members (non-object member or repeated "
    "name, with the exact frame of the set of names), validate_interfaces (non-interface, itself, "
    "repeated; else one call of each conformance check), validate_type_implements_interface (missing "
    "field, covariance, deprecation, argument presence / type equality / extra required arguments), "
    "validate_type_implements_ancestors, validate_root_types (lower bound) and the dispatch of "
    "validate_types (every kind of type gets exactly its validators). GraphQLSchema.is_sub_type never "
    "raises for any abstract type of any constructible schema.")
UNVERIFIED = [
    "the two input-object circular-reference validators (assumed not to raise)",
    "report_error itself (assumed: appends one error) and GraphQLError construction",
    "validate_default_input -> validate_input_literal/value not raising relies on the C15 contracts",
    "the induction that sums the per-iteration report counts over a loop (each step is proved, the sum is argued); "
    "the 'root types must differ' rule (abstracted multimap); reports made through validate_default_value for a "
    "position that has a default (assumed contracts of validate_default_input); completeness of the rule *set*",
    "graphql_impl returning the schema errors as a result (C01)",
]
TRUSTED = []
ASSUMPTIONS = [A["A1"], A["A2"], A["A3"], A["A5"], A["A7"], A["ENGINE"],
               "elements of schema.directives are GraphQLDirective objects (the 'not a directive' branch is not explored)"]
LIFTERS = []

WITNESSES = {
 "F26-wrapped-union-member-under-a-covariance-check": r'''
from graphql import *
for wrap in (GraphQLList, GraphQLNonNull):
    Obj = GraphQLObjectType("Obj", lambda: {"f": GraphQLField(Obj)}, interfaces=lambda: [I])
    U = GraphQLUnionType("U", lambda: [wrap(Obj)])                  # invalid member: to be reported
    I = GraphQLInterfaceType("I", lambda: {"f": GraphQLField(U)})   # I.f: U, implemented by Obj.f: Obj
    Q = GraphQLObjectType("Query", {"o": GraphQLField(Obj)})
    s = GraphQLSchema(Q)
    errs = validate_schema(s)
    assert errs and any("can only include Object types" in e.message for e in errs), errs
    assert graphql_sync(s, "{ __typename }").errors
''',
 "F27-deepcopy-of-an-invalid-schema": r'''
from copy import deepcopy
from graphql import build_schema, validate_schema, graphql_sync
for sdl in ("type Query { f(x: Query): Int }", "type Query { a: Int } type T", "union U type Query { u: U }"):
    s = build_schema(sdl)
    c = deepcopy(s)                       # copied before the original was ever validated
    want = sorted(e.message for e in validate_schema(s))
    got = sorted(e.message for e in validate_schema(c))
    assert want and got == want, (sdl, got, want)
    assert graphql_sync(c, "{ __typename }").errors
s = build_schema("type Query { a: Int }", assume_valid=True)
assert deepcopy(s).assume_valid is True       # an explicitly assumed-valid schema stays so
''',
 "F23-default-reaching-a-nested-output-type": r'''
from graphql import build_schema, validate_schema
for sdl in ("type Obj { x: Int } input In { o: Obj } type Query { f(arg: In = { o: {x: 1} }): Int }",
            "type Obj { x: Int } input In { o: [Obj] } type Query { f(arg: In = { o: [{x: 1}] }): Int }",
            "interface I { x: Int } input In { o: I } type Query { f(arg: In = { o: 1 }): Int }",
            "union U = Query input In { o: U! } type Query { f(arg: [In] = { o: 1 }): Int }"):
    errs = validate_schema(build_schema(sdl))
    assert errs and any("must be Input Type" in e.message for e in errs), errs
''',
 "F5a-default-of-non-input-type": r'''
from graphql import build_schema, validate_schema, graphql_sync
for sdl in ['type Query { g(x: Query = 1): Int }', 'input I { x: Query = 1 } type Query { f(i: I): Int }',
            'directive @d(x: Query = {a:1}) on FIELD type Query { f: Int }']:
    s = build_schema(sdl, assume_valid_sdl=True)
    assert validate_schema(s)
    assert graphql_sync(s, '{ __typename }').errors
''',
 "F5b-root-type-not-named": r'''
from graphql import GraphQLSchema, GraphQLList, GraphQLString, validate_schema
assert validate_schema(GraphQLSchema(query=GraphQLList(GraphQLString)))
''',
 "F10-transitive-interface-not-named": r'''
from graphql import *
Bad = GraphQLList(GraphQLString)
I = GraphQLInterfaceType("I", {"f": GraphQLField(GraphQLString)}, interfaces=[Bad])
T = GraphQLObjectType("T", {"f": GraphQLField(GraphQLString)}, interfaces=[I])
Q = GraphQLObjectType("Query", {"t": GraphQLField(T)})
assert validate_schema(GraphQLSchema(Q, types=[T, I]))
''',
 "F11-interface-not-named-with-ast-node": r'''
from graphql import *
doc = parse("type T implements I { f: String } interface I { f: String }")
T = GraphQLObjectType("T", {"f": GraphQLField(GraphQLString)}, interfaces=[GraphQLList(GraphQLString)],
                      ast_node=doc.definitions[0])
Q = GraphQLObjectType("Query", {"t": GraphQLField(T)})
assert validate_schema(GraphQLSchema(Q, types=[T]))
''',
}


def extra_obligations(world, tier, seed):
    return gtypes_lemmas()


COPY_CHECK = r'''
import json
from graphql import GraphQLSchema, build_schema, extend_schema, parse, validate_schema, lexicographic_sort_schema
SDLS = [
    "type Query { a: Int }",
    "type Query { a: Int } type T",                                       # no fields
    "type Query { a: Int } interface I { x: Int } type T implements I { y: Int }",
    "type Query { __bad: Int }",
    "type Query { a(x: T): Int } type T { f: Int }",                      # output type as argument
    "input I { i: I! } type Query { a(x: I): Int }",                      # circular non-null
    "union U type Query { u: U }",
    "enum E type Query { e: E }",
    "type Query { a: Int } type Mutation { m: Int } schema { query: Query mutation: Query }",
    "type NoQuery { a: Int }",
]
bad = None
for sdl in SDLS:
    for order in ("validate-first", "copy-first"):
        s = build_schema(sdl)
        if order == "validate-first":
            want = [e.message for e in validate_schema(s)]
        from copy import deepcopy
        copies = {"GraphQLSchema(**to_kwargs())": GraphQLSchema(**s.to_kwargs()),
                  "extend_schema(+ type Extra)": None, "lexicographic_sort_schema": None,
                  "copy.deepcopy": deepcopy(s)}
        try:
            copies["lexicographic_sort_schema"] = lexicographic_sort_schema(s)
        except Exception:
            pass
        if order == "copy-first":
            want = [e.message for e in validate_schema(s)]
        for how, c in copies.items():
            if c is None:
                continue
            got = [e.message for e in validate_schema(c)]
            if sorted(got) != sorted(want):
                bad = {"sdl": sdl, "copy": how, "order": order,
                       "observed": f"the copy validates with {got!r}, the original with {want!r}"}
                break
            if c.assume_valid != s.assume_valid:
                bad = {"sdl": sdl, "copy": how, "observed": "assume_valid changed by copying"}
                break
        if bad:
            break
    if bad:
        break
print("COPY " + json.dumps(bad))
'''


ZOO_CHECK = r'''
import itertools, json
from graphql import build_schema, validate_schema, GraphQLError
# every kind of type in every kind of position, with and without default values that mention it:
# validate_schema must return errors (never raise) for each combination
TYPES = {"Obj": "type Obj { x: Int }", "Ifc": "interface Ifc { x: Int }", "Un": "union Un = Query",
         "En": "enum En { A B }", "Sc": "scalar Sc", "In": "input In { x: Int }", "In1": "input In1 @oneOf { a: Int b: String }",
         "Missing": ""}
DEFAULTS = ["", " = 1", " = {x: 1}", " = [{x: 1}]", " = null", " = A", " = {a: 1, b: \"s\"}", " = {o: {x: 1}}", " = $v"]
WRAPS = ["%s", "%s!", "[%s]", "[%s!]!"]
bad = None
n = 0
for tname, tdef in TYPES.items():
    for wrap in WRAPS:
        t = wrap % tname
        for d in DEFAULTS:
            sdls = [
                f"{tdef} type Query {{ f(arg: {t}{d}): Int }}",
                f"{tdef} input Holder {{ o: {t}{d} }} type Query {{ f(arg: Holder): Int }}",
                f"{tdef} input Holder {{ o: {t} }} type Query {{ f(arg: Holder{d}): Int }}",
                f"{tdef} input Holder {{ o: {t} }} input Outer {{ h: [Holder]{d} }} type Query {{ f(arg: Outer = {{h: [{{o: 1}}]}}): Int }}",
                f"{tdef} directive @dir(a: {t}{d}) on FIELD type Query {{ f: {t} }}",
                f"{tdef} interface J {{ g(a: {t}{d}): {t} }} type Query implements J {{ g(a: {t}): {t} }}",
            ]
            for sdl in sdls:
                n += 1
                try:
                    schema = build_schema(sdl)
                except GraphQLError:
                    continue        # SDL that does not build (unknown type, bad literal syntax)
                except Exception as e:
                    if tname == "Missing":
                        continue
                    bad = {"sdl": sdl, "observed": f"build_schema raised {type(e).__name__}: {e}"}
                    break
                try:
                    errs = validate_schema(schema)
                    assert isinstance(errs, list) and all(isinstance(e, GraphQLError) for e in errs)
                except Exception as e:
                    bad = {"sdl": sdl, "observed": f"validate_schema raised {type(e).__name__}: {e}"}
                    break
            if bad:
                break
        if bad:
            break
    if bad:
        break
print("ZOO " + json.dumps(bad) + f" ({n} schemas)")
'''


def bounded_checks(tier, seed):
    out = _copy_check()
    import json
    rc, outp = run_native(ZOO_CHECK, timeout=900)
    res, ok = None, False
    for line in outp.splitlines():
        if line.startswith("ZOO "):
            res, ok = json.loads(line[4:line.rindex(" (")]), True
    if not ok:
        raise RuntimeError(outp[-600:])
    out.append({"id": "C20/bounded/type-position-default-zoo",
                "function": "validate_schema (validate_default_value -> validate_input_literal / validate_input_value)",
                "tool": "validate_schema over generated SDL schemas must return errors, never raise; native",
                "bound": "8 kinds of type x 4 wrappers x 9 default literals x 6 positions (argument, input field, holder "
                         "default, nested list default, directive argument, interface field argument) = 1728 SDL texts",
                "failed": res is not None, "input": res, "output": outp[-800:]})
    return out


def _copy_check():
    """Validation results are cached on the schema object and schemas are copied through to_kwargs()
    (extend_schema, lexicographic_sort_schema, GraphQLSchema(**kwargs)): a copy must be validated like
    the original - BOUNDED: 10 SDL schemas (valid and invalid in different ways), copied before and
    after the original was validated."""
    import json
    tier, seed = "quick", 0
    rc, outp = run_native(COPY_CHECK)
    res, ok = None, False
    for line in outp.splitlines():
        if line.startswith("COPY "):
            res, ok = json.loads(line[5:]), True
    if not ok:
        raise RuntimeError(outp[-600:])
    return [{"id": "C20/bounded/copies-validate-like-the-original",
             "function": "GraphQLSchema.to_kwargs / validate_schema (cached _validation_errors, assume_valid)",
             "tool": "validate_schema on copies vs the original, native",
             "bound": "10 SDL schemas x copies via GraphQLSchema(**to_kwargs()), lexicographic_sort_schema and copy.deepcopy x "
                      "copying before / after validating the original",
             "failed": res is not None, "input": res, "output": outp[-1000:]}]


def native_checks(tier, seed):
    out = []
    for name, code in WITNESSES.items():
        rc, outp = run_native(code)
        out.append({"id": f"C20/native/{name}", "failed": rc != 0, "output": outp,
                    "input": code.strip()})
    return out
