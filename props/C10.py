"""C10 - every reported source location is the true line and column (DESIGN.md section 4, C10)."""
from .common import run_native, A, lemma_obligations

LEVEL = "proof"
EXPLANATION = (
    "Contracts on the real functions, discharged by z3 from VCs generated out of the current "
    "source: Source.get_location and location.get_location equal the specification "
    "(line = 1 + #terminators LF|CRLF|CR before the offset, column = offset + 1 - start of line); "
    "every Lexer reader keeps the invariant line == 1 + nlt(pos), line_start == lls(pos), so "
    "Token.line/column equal the specification at the token start; print_source_location and "
    "print_prefixed_lines never index outside the split lines for a location that names an "
    "existing line.")
UNVERIFIED = [
    "GraphQLError.__init__/__str__/formatted are not under contract (dynamic exception plumbing "
    "outside the subset): that positions/nodes are mapped through get_location is not decided "
    "(BOUNDED stand-in: constructed errors over 8 nodes of 3 sources, rendered headers and locations "
    "against positions recomputed from the text); located_error: the error's own nodes win (call-site assertion)",
    "that the excerpted text equals the named line character by character (only its existence "
    "and the safety of every index are decided); the regex split/finditer models are assumed",
    "offsets strictly inside a CR LF pair are excluded (as in the property statement)",
]
TRUSTED = []
ASSUMPTIONS = [A["A1"], A["A2"], A["A3"], A["A4"], A["A8"], A["ALIAS"], A["ENGINE"]]
LIFTERS = ["props.C10:lift"]
STANDIN = "props.C10:search"
STANDIN_BUDGET = "all compositions of up to 4 lexical fragments (15 fragments) + 30000 random compositions of 5-8"


def extra_obligations(world, tier, seed):
    return lemma_obligations()


# ------------------------------------------------------------------ native side (no z3 here)
def ref_location(body, p):
    line, start, i, n = 1, 0, 0, len(body)
    while i < min(p, n):
        c = body[i]
        if c == "\r":
            if i + 1 < n and body[i + 1] == "\n":
                if i + 1 >= p:
                    break
                i += 1
            line += 1
            start = i + 1
        elif c == "\n":
            line += 1
            start = i + 1
        i += 1
    return line, p + 1 - start


def find_bodies(model, out):
    if isinstance(model, dict):
        for k, v in model.items():
            if k == "body" and isinstance(v, str):
                out.append(v)
            else:
                find_bodies(v, out)
    elif isinstance(model, list):
        for v in model:
            find_bodies(v, out)
    return out


def check_body(body):
    """Differential check of one source text against the reference; returns a failure or None."""
    from graphql.language import Lexer, Source, TokenKind
    from graphql.error import GraphQLSyntaxError
    src = Source(body)
    for p in range(len(body) + 1):
        if 0 < p < len(body) and body[p - 1] == "\r" and body[p] == "\n":
            continue
        loc = src.get_location(p)
        if (loc.line, loc.column) != ref_location(body, p):
            return {"input": body, "offset": p, "observed": [loc.line, loc.column],
                    "expected": list(ref_location(body, p)), "what": "Source.get_location"}
        try:
            str(GraphQLSyntaxError(src, p, "x"))
        except Exception as e:  # noqa: BLE001
            return {"input": body, "offset": p, "what": "str(GraphQLSyntaxError)",
                    "observed": f"{type(e).__name__}: {e}"}
    lx = Lexer(src)
    try:
        while True:
            t = lx.advance()
            if (t.line, t.column) != ref_location(body, t.start):
                return {"input": body, "offset": t.start, "observed": [t.line, t.column],
                        "expected": list(ref_location(body, t.start)), "what": f"Token {t.kind}"}
            if t.kind == TokenKind.EOF:
                break
    except GraphQLSyntaxError as e:
        exp = ref_location(body, e.positions[0])
        got = (e.locations[0].line, e.locations[0].column)
        if got != exp:
            return {"input": body, "offset": e.positions[0], "observed": list(got),
                    "expected": list(exp), "what": "syntax error location"}
        try:
            str(e)
        except Exception as e2:  # noqa: BLE001
            return {"input": body, "what": "str(error)", "observed": f"{type(e2).__name__}: {e2}"}
    return None


FRAGMENTS = ['"""', "\r\n", "\n", "\r", "a", " ", '\\"""', "#c", '"s"', "1.5", "{", " ", "?",
             "\x0c", "x" * 130]


def search(budget=30000, seed=0, **_):
    """Search short compositions of lexical fragments for a location disagreement."""
    import itertools
    import random
    for n in range(1, 5):
        for combo in itertools.product(FRAGMENTS, repeat=n):
            f = check_body("".join(combo))
            if f:
                return f
    rnd = random.Random(seed)
    for _ in range(budget):
        body = "".join(rnd.choice(FRAGMENTS) for _ in range(rnd.randint(5, 8)))
        f = check_body(body)
        if f:
            return f
    return None


def lift_located():
    """A resolver raises an error that already carries the node where it happened (another place of
    the same document, or of another source): the reported location must be that node's true
    line and column, not the position of the field being completed."""
    from graphql import GraphQLError, build_schema, graphql_sync, parse
    schema = build_schema("type Query { a: String b: String }")
    text = "{\n  a\n      b\n}"
    doc = parse(text)
    sels = doc.definitions[0].selection_set.selections
    other = parse("\n\n\n     { zzz }").definitions[0].selection_set.selections[0]
    for label, own, want in (("the node of another field", [sels[1]], [(3, 7)]),
                             ("a node of another source", [other], [(4, 8)]),
                             ("two nodes", [sels[1], sels[0]], [(3, 7), (2, 3)]),
                             ("a single node, not in a list", sels[1], [(3, 7)])):
        def resolver(*_a, _own=own):
            raise GraphQLError("boom", _own)
        r = graphql_sync(schema, text, root_value={"a": resolver, "b": "x"})
        got = [tuple(l) for l in (r.errors[0].locations or [])] if r.errors else None
        if got != want:
            return {"confirmed": True, "entry": "graphql_sync",
                    "input": {"query": text, "resolver of a": f"raises GraphQLError('boom', nodes={label})"},
                    "observed": f"locations {got}, the error's own node(s) are at {want}"}
        import re
        rendered = [(int(a), int(b)) for a, b in re.findall(r"^[^\n:]+:(\d+):(\d+)$", str(r.errors[0]), re.M)]
        if rendered != want:
            return {"confirmed": True, "entry": "graphql_sync + str(error)",
                    "input": {"query": text, "resolver of a": f"raises GraphQLError('boom', nodes={label})"},
                    "observed": f"str(error) renders the positions {rendered}, the error reports {got}"}
    return {"confirmed": False}


def lift_token_copy():
    """copy / deepcopy of tokens and of a parsed document: the copied tokens must report the same
    offsets, line and column."""
    import copy
    from graphql import parse
    from graphql.language import Lexer, Source, TokenKind
    text = "{\n  a\r\n    bb(x: \"s\")\r}\n\n query Q { c }"
    lx = Lexer(Source(text))
    toks = []
    while True:
        t = lx.advance()
        toks.append(t)
        if t.kind == TokenKind.EOF:
            break
    doc = parse(text)
    pairs = [(t, copy.copy(t)) for t in toks] + [(t, copy.deepcopy(t)) for t in toks]
    d2 = copy.deepcopy(doc)
    for a, b in zip(doc.definitions, d2.definitions):
        pairs += [(a.loc.start_token, b.loc.start_token), (a.loc.end_token, b.loc.end_token)]
    for a, b in pairs:
        fa = (a.kind, a.start, a.end, a.line, a.column, a.value)
        fb = (b.kind, b.start, b.end, b.line, b.column, b.value)
        if fa != fb:
            return {"confirmed": True, "entry": "copy.copy / copy.deepcopy of a token",
                    "input": {"source": text, "token": repr(a)},
                    "observed": f"the copy reports (kind, start, end, line, column, value) = {fb!r}, the original {fa!r}"}
    return {"confirmed": False}


def lift_offsets():
    """print_source_location with a configured location offset: the header must name
    line + offset.line - 1 and column + (offset.column - 1 on the first source line only)."""
    from graphql import Source
    from graphql.language.print_location import print_source_location
    for body in ("ab", "ab\ncd", "a\r\nbc\rdef"):
        for off in ((1, 1), (1, 5), (2, 3), (9, 1), (11, 12)):
            src = Source(body, "n", off)
            for p in range(len(body) + 1):
                loc = src.get_location(p)
                want = f"n:{loc.line + off[0] - 1}:{loc.column + (off[1] - 1 if loc.line == 1 else 0)}"
                got = print_source_location(src, loc).split("\n")[0]
                if got != want:
                    return {"confirmed": True, "entry": "print_source_location(Source(body, 'n', location_offset), location)",
                            "failure": {"body": body, "location_offset": off, "position": p,
                                        "observed": got, "expected": want}}
    return {"confirmed": False}


def lift(model, req):
    if "print_source_location" in str(req.get("target", "")):
        return lift_offsets()
    if "located_error" in str(req.get("target", "")):
        return lift_located()
    if "Token.__copy__" in str(req.get("target", "")).replace(":", "."):
        return lift_token_copy()
    for body in find_bodies(model, []):
        f = check_body(body)
        if f:
            return {"confirmed": True, "entry": "Lexer/Source.get_location on the model's body",
                    "failure": f}
    f = search()
    if f:
        return {"confirmed": True, "entry": "search over short compositions of lexical fragments",
                "failure": f}
    return {"confirmed": False}


WITNESSES = {
 'F2-get_location-terminators': r'''
from graphql import Source, GraphQLSyntaxError, parse
assert tuple(Source('{\n?').get_location(2)) == (2, 1)
assert tuple(Source('\u2028?').get_location(1)) == (1, 2)
assert tuple(Source('a\r\nb\rc').get_location(5)) == (3, 1)
try:
    parse('"\u2028" ?')
except GraphQLSyntaxError as e:
    str(e)
''',
}


RENDER_CHECK = r'''
import itertools, json, re
from graphql import GraphQLError, Source, parse
from graphql.language import NameNode
bad = None
srcs = [Source("{\n  a\n      b\n}", "one.graphql"), Source("\r\n\r\n   { zzz  y }", "two.graphql"),
        Source('{ p(a: "x\u2028y") q }', "three.graphql")]
pool = []
for s in srcs:
    for sel in parse(s).definitions[0].selection_set.selections:
        pool.append(sel)
pool.append(NameNode(value="built"))          # a node without location
pool.append(parse("{ n }", no_location=True).definitions[0])
def true_pos(node):
    body = node.loc.source.body
    off = node.loc.start
    line, last = 1, 0
    for m in re.finditer(r"\r\n|\n|\r", body):
        if m.start() >= off:
            break
        line += 1
        last = m.end()
    return (node.loc.source.name, line, off + 1 - last)
for r in (1, 2, 3):
    for combo in itertools.permutations(pool, r):
        err = GraphQLError("boom", list(combo))
        want = [true_pos(n) for n in combo if n.loc]
        got = [(l.line, l.column) for l in (err.locations or [])]
        if got != [w[1:] for w in want]:
            bad = {"nodes": [repr(n)[:60] for n in combo], "observed": f"locations {got}, true positions {want}"}
            break
        rendered = [(a, int(b), int(c)) for a, b, c in re.findall(r"^([^\n:]+):(\d+):(\d+)$", str(err), re.M)]
        if rendered != want:
            bad = {"nodes": [repr(n)[:60] for n in combo],
                   "observed": f"str(error) renders {rendered}, the nodes are at {want}"}
            break
    if bad:
        break
print("RENDER " + json.dumps(bad))
'''


def bounded_checks(tier, seed):
    """Always: the text rendering of an error (GraphQLError.__str__ is not under contract) names the
    true position of each of its nodes - BOUNDED: every sequence of 1..3 distinct nodes out of a pool
    of 8 (three sources with LF, CR LF and U+2028, a node built without location, a node parsed with
    no_location).  Thorough tier: additionally the bounded stand-in search of this property."""
    import json
    rc, outp = run_native(RENDER_CHECK)
    res, ok = None, False
    for line in outp.splitlines():
        if line.startswith("RENDER "):
            res, ok = json.loads(line[7:]), True
    if not ok:
        raise RuntimeError(outp[-600:])
    out = [{"id": "C10/bounded/rendering-names-the-true-positions",
            "function": "GraphQLError.__init__ (locations from nodes) / GraphQLError.__str__",
            "tool": "constructed errors, rendered headers vs positions recomputed from the source text, native",
            "bound": "sequences of 1..3 distinct nodes out of 8 (3 sources: LF, CR LF, U+2028; one node without loc, "
                     "one parsed with no_location)",
            "failed": res is not None, "input": res, "output": outp[-1000:]}]
    if tier != "thorough":
        return out
    from pyvc.checker import run_standin
    res = run_standin(STANDIN, seed)
    return out + [{"id": "C10/bounded/standin-search", "function": STANDIN,
                   "tool": "native differential search", "bound": STANDIN_BUDGET,
                   "failed": bool(res), "input": res, "output": ""}]


def native_checks(tier, seed):
    """Replays of the witnesses of repaired defects (KNOWN_FINDINGS.json 'fixed'): a fixed entry
    suppresses nothing, so the violation is reported again if it ever returns."""
    out = []
    for name, code in WITNESSES.items():
        rc, outp = run_native(code)
        out.append({"id": f"C10/native/{name}", "failed": rc != 0, "output": outp,
                    "input": code.strip()})
    return out
