"""C10 - every reported source location is the true line and column (DESIGN.md section 4, C10)."""
from .common import run_native, A, lemma_obligations

LEVEL = "proof"
EXPLANATION = (
    "Contracts on the real functions, discharged by z3 from VCs generated out of the current "
    "source: Source.get_location and location.get_location equal the specification "
    "(line = 1 + #terminators LF|CRLF|CR before the offset, column = offset + 1 - start of line); "
    "every Lexer reader keeps the invariant line == 1 + nlt(pos), line_start == lls(pos), so "
    "Token.line/column equal the specification at the token start; print_source_location and "
    "print_prefixed_lines never index outside the split lines for a location that names an "
    "existing line.")
UNVERIFIED = [
    "GraphQLError.__init__/__str__/formatted are not under contract (dynamic exception plumbing "
    "outside the subset): that positions/nodes are mapped through get_location is not decided",
    "that the excerpted text equals the named line character by character (only its existence "
    "and the safety of every index are decided); the regex split/finditer models are assumed",
    "offsets strictly inside a CR LF pair are excluded (as in the property statement)",
]
TRUSTED = []
ASSUMPTIONS = [A["A1"], A["A2"], A["A3"], A["A4"], A["A8"], A["ALIAS"], A["ENGINE"]]
LIFTERS = ["props.C10:lift"]
STANDIN = "props.C10:search"
STANDIN_BUDGET = "all compositions of up to 4 lexical fragments (15 fragments) + 30000 random compositions of 5-8"


def extra_obligations(world, tier, seed):
    return lemma_obligations()


# ------------------------------------------------------------------ native side (no z3 here)
def ref_location(body, p):
    line, start, i, n = 1, 0, 0, len(body)
    while i < min(p, n):
        c = body[i]
        if c == "\r":
            if i + 1 < n and body[i + 1] == "\n":
                if i + 1 >= p:
                    break
                i += 1
            line += 1
            start = i + 1
        elif c == "\n":
            line += 1
            start = i + 1
        i += 1
    return line, p + 1 - start


def find_bodies(model, out):
    if isinstance(model, dict):
        for k, v in model.items():
            if k == "body" and isinstance(v, str):
                out.append(v)
            else:
                find_bodies(v, out)
    elif isinstance(model, list):
        for v in model:
            find_bodies(v, out)
    return out


def check_body(body):
    """Differential check of one source text against the reference; returns a failure or None."""
    from graphql.language import Lexer, Source, TokenKind
    from graphql.error import GraphQLSyntaxError
    src = Source(body)
    for p in range(len(body) + 1):
        if 0 < p < len(body) and body[p - 1] == "\r" and body[p] == "\n":
            continue
        loc = src.get_location(p)
        if (loc.line, loc.column) != ref_location(body, p):
            return {"input": body, "offset": p, "observed": [loc.line, loc.column],
                    "expected": list(ref_location(body, p)), "what": "Source.get_location"}
        try:
            str(GraphQLSyntaxError(src, p, "x"))
        except Exception as e:  # noqa: BLE001
            return {"input": body, "offset": p, "what": "str(GraphQLSyntaxError)",
                    "observed": f"{type(e).__name__}: {e}"}
    lx = Lexer(src)
    try:
        while True:
            t = lx.advance()
            if (t.line, t.column) != ref_location(body, t.start):
                return {"input": body, "offset": t.start, "observed": [t.line, t.column],
                        "expected": list(ref_location(body, t.start)), "what": f"Token {t.kind}"}
            if t.kind == TokenKind.EOF:
                break
    except GraphQLSyntaxError as e:
        exp = ref_location(body, e.positions[0])
        got = (e.locations[0].line, e.locations[0].column)
        if got != exp:
            return {"input": body, "offset": e.positions[0], "observed": list(got),
                    "expected": list(exp), "what": "syntax error location"}
        try:
            str(e)
        except Exception as e2:  # noqa: BLE001
            return {"input": body, "what": "str(error)", "observed": f"{type(e2).__name__}: {e2}"}
    return None


FRAGMENTS = ['"""', "\r\n", "\n", "\r", "a", " ", '\\"""', "#c", '"s"', "1.5", "{", " ", "?",
             "\x0c", "x" * 130]


def search(budget=30000, seed=0, **_):
    """Search short compositions of lexical fragments for a location disagreement."""
    import itertools
    import random
    for n in range(1, 5):
        for combo in itertools.product(FRAGMENTS, repeat=n):
            f = check_body("".join(combo))
            if f:
                return f
    rnd = random.Random(seed)
    for _ in range(budget):
        body = "".join(rnd.choice(FRAGMENTS) for _ in range(rnd.randint(5, 8)))
        f = check_body(body)
        if f:
            return f
    return None


def lift(model, req):
    for body in find_bodies(model, []):
        f = check_body(body)
        if f:
            return {"confirmed": True, "entry": "Lexer/Source.get_location on the model's body",
                    "failure": f}
    f = search()
    if f:
        return {"confirmed": True, "entry": "search over short compositions of lexical fragments",
                "failure": f}
    return {"confirmed": False}


WITNESSES = {
 'F2-get_location-terminators': r'''
from graphql import Source, GraphQLSyntaxError, parse
assert tuple(Source('{\n?').get_location(2)) == (2, 1)
assert tuple(Source('\u2028?').get_location(1)) == (1, 2)
assert tuple(Source('a\r\nb\rc').get_location(5)) == (3, 1)
try:
    parse('"\u2028" ?')
except GraphQLSyntaxError as e:
    str(e)
''',
}


def bounded_checks(tier, seed):
    """Thorough tier: the bounded stand-in search of this property also runs when nothing is
    undecided (deeper exploration, labelled bounded; a failing input is replayed by construction)."""
    if tier != "thorough":
        return []
    from pyvc.checker import run_standin
    res = run_standin(STANDIN, seed)
    return [{"id": "C10/bounded/standin-search", "function": STANDIN,
             "tool": "native differential search", "bound": STANDIN_BUDGET,
             "failed": bool(res), "input": res, "output": ""}]


def native_checks(tier, seed):
    """Replays of the witnesses of repaired defects (KNOWN_FINDINGS.json 'fixed'): a fixed entry
    suppresses nothing, so the violation is reported again if it ever returns."""
    out = []
    for name, code in WITNESSES.items():
        rc, outp = run_native(code)
        out.append({"id": f"C10/native/{name}", "failed": rc != 0, "output": outp,
                    "input": code.strip()})
    return out
