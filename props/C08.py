"""C08 - print/parse round trip (partial: string values)."""
from .common import A, lemma_obligations, run_native

LEVEL = "other"
EXPLANATION = (
    "String values, where the suite is blind. (1) print_block_string, verified for every value "
    "and both layouts: it splits the value on exactly the lexer's line terminators (len(lines) == "
    "1 + #terminators, through the assumed contract of the module's regex), and takes the layout "
    "decisions a print->lex round trip needs - no leading new line for a single line that starts "
    "with white space (space or tab), a leading new line whenever every later line is blank or "
    "indented, a trailing new line after a final quote or backslash - stated as assertions over "
    "the function's locals at every return. (2) Quoted strings: the per-character inverse "
    "lex(print_string(c)) == c is decided for every Unicode scalar value by exhaustive evaluation "
    "of the real print_string table against the real lexer (a finite domain; whole strings follow "
    "because read_string's loop keeps no state but the position - argued, not proved). "
    "(3) the witnesses of the repaired splitlines defect are replayed.")
UNVERIFIED = [
    "structural round trip of all node kinds (the parser/printer pair as a whole); printing as a fixed point",
    "dedent_block_string_lines == BlockStringValue (contract planned); that the four layout decisions are also sufficient",
    "programmatic block strings that no block string denotes (values with a trailing new line, only-indented lines, CR): known limitation of the format, see DESIGN.md",
]
TRUSTED = []
ASSUMPTIONS = [A["A1"], A["A2"], A["A3"], A["ENGINE"]]
LIFTERS = []
STANDIN = "props.C08:search"
STANDIN_BUDGET = "all block-string values up to length 5 over {a, space, tab, LF, CR, U+2028, \", \\}"

WITNESSES = {
 "F3-block-string-line-terminators": r'''
from graphql import parse, print_ast
for s in ['{ f(a: """ x y""") }', '{ f(a: """ x\x0cy""") }', '{ f(a: """\n  a\n   b\n""") }',
          '{ f(a: """ x\r y""") }', '{ f(a: """""") }', '{ f(a: """\tsay "hi"\n""") }']:
    d = parse(s, no_location=True)
    p = print_ast(d)
    assert parse(p, no_location=True) == d, (s, p)
    assert print_ast(parse(p, no_location=True)) == p
''',
}

PER_CHAR = r'''
import sys
from graphql.language import Lexer, Source, TokenKind
from graphql.language.print_string import print_string
full = sys.argv[1] == "thorough"
bad = []
n = 0
def check(cp):
    global n
    c = chr(cp)
    n += 1
    for ctx in (c, "a" + c + "b"):
        t = Lexer(Source(print_string(ctx))).advance()
        if t.kind != TokenKind.STRING or t.value != ctx:
            bad.append(cp)
            return
rng = range(0, 0x110000) if full else list(range(0, 0x3000)) + list(range(0x3000, 0x110000, 97)) + \
    [0xD7FF, 0xE000, 0xFFFE, 0xFFFF, 0x10000, 0x10FFFF, 0x2028, 0x2029, 0x85]
for cp in rng:
    if 0xD800 <= cp <= 0xDFFF:
        continue
    check(cp)
print("checked", n, "bad", bad[:10])
assert not bad
'''


def search(seed=0, **_):
    """Bounded stand-in: exhaustive block-string values over a small alphabet."""
    import itertools
    from graphql import parse_value, print_ast
    from graphql.language import StringValueNode
    from graphql.language.block_string import print_block_string
    from graphql.language import Lexer, Source
    alpha = ["a", " ", "\t", "\n", "\r", " ", '"', "\\"]
    for n in range(0, 6):
        for tup in itertools.product(alpha, repeat=n):
            raw = "".join(tup)
            try:
                v = Lexer(Source('"""' + raw + '"""')).advance().value
            except Exception:
                continue
            for minimize in (False, True):
                printed = print_block_string(v, minimize)
                try:
                    v2 = Lexer(Source(printed)).advance().value
                except Exception as e:
                    return {"input": v, "printed": printed, "observed": f"{type(e).__name__}: {e}"}
                if v2 != v:
                    return {"input": v, "printed": printed, "observed": v2, "minimize": minimize}
    return None


def extra_obligations(world, tier, seed):
    import subprocess, os, time
    out = lemma_obligations()
    t0 = time.time()
    repo = os.environ.get("VERIF_REPO", "/repo")
    env = dict(os.environ)
    env["PYTHONPATH"] = os.path.join(repo, "src")
    p = subprocess.run([os.environ.get("VERIF_NATIVE_PY", "/venv/bin/python"), "-c", PER_CHAR, tier],
                       capture_output=True, text=True, timeout=3600, env=env)
    ok = p.returncode == 0
    scope = "every Unicode scalar value" if tier == "thorough" else \
        "U+0000..U+2FFF, every 97th code point above, and the boundary code points (quick tier)"
    out.append({"func": "graphql.language.print_string.print_string", "kind": "FINITE",
                "text": f"lex(print_string(c)) == c alone and between letters, for {scope}",
                "status": "discharged" if ok else "refuted", "backend": "finite",
                "detail": (p.stdout + p.stderr)[-300:], "time_s": round(time.time() - t0, 2),
                "model": None if ok else {"output": (p.stdout + p.stderr)[-500:]}})
    return out


def bounded_checks(tier, seed):
    """Thorough tier: the bounded stand-in search of this property also runs when nothing is
    undecided (deeper exploration, labelled bounded; a failing input is replayed by construction)."""
    if tier != "thorough":
        return []
    from pyvc.checker import run_standin
    res = run_standin(STANDIN, seed)
    return [{"id": "C08/bounded/standin-search", "function": STANDIN,
             "tool": "native differential search", "bound": STANDIN_BUDGET,
             "failed": bool(res), "input": res, "output": ""}]


def native_checks(tier, seed):
    out = []
    for name, code in WITNESSES.items():
        rc, outp = run_native(code)
        out.append({"id": f"C08/native/{name}", "failed": rc != 0, "output": outp,
                    "input": code.strip()})
    return out
