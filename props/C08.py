"""C08 - print/parse round trip (partial: string values)."""
from .common import A, lemma_obligations, run_native

LEVEL = "other"
EXPLANATION = (
    "String values, where the suite is blind. (1) print_block_string, verified for every value "
    "and both layouts: it splits the value on exactly the lexer's line terminators (len(lines) == "
    "1 + #terminators, through the assumed contract of the module's regex), and takes the layout "
    "decisions a print->lex round trip needs - no leading new line for a single line that starts "
    "with white space (space or tab), a leading new line whenever every later line is blank or "
    "indented, a trailing new line after a final quote or backslash - stated as assertions over "
    "the function's locals at every return. (2) Quoted strings: the per-character inverse "
    "lex(print_string(c)) == c is decided for every Unicode scalar value by exhaustive evaluation "
    "of the real print_string table against the real lexer (a finite domain; whole strings follow "
    "because read_string's loop keeps no state but the position - argued, not proved). "
    "(3) the witnesses of the repaired splitlines defect are replayed.")
UNVERIFIED = [
    "structural round trip of all node kinds (the parser/printer pair as a whole); printing as a fixed point",
    "dedent_block_string_lines == BlockStringValue (contract planned); that the four layout decisions are also sufficient",
    "programmatic block strings that no block string denotes (values with a trailing new line, only-indented lines, CR): known limitation of the format, see DESIGN.md",
]
TRUSTED = []
ASSUMPTIONS = [A["A1"], A["A2"], A["A3"], A["ENGINE"]]
LIFTERS = []
STANDIN = "props.C08:search"
STANDIN_BUDGET = "all block-string values up to length 5 over {a, space, tab, LF, CR, U+2028, \", \\}"

WITNESSES = {
 "F3-block-string-line-terminators": r'''
from graphql import parse, print_ast
for s in ['{ f(a: """ x y""") }', '{ f(a: """ x\x0cy""") }', '{ f(a: """\n  a\n   b\n""") }',
          '{ f(a: """ x\r y""") }', '{ f(a: """""") }', '{ f(a: """\tsay "hi"\n""") }']:
    d = parse(s, no_location=True)
    p = print_ast(d)
    assert parse(p, no_location=True) == d, (s, p)
    assert print_ast(parse(p, no_location=True)) == p
''',
}

PER_CHAR = r'''
import sys
from graphql.language import Lexer, Source, TokenKind
from graphql.language.print_string import print_string
full = sys.argv[1] == "thorough"
bad = []
n = 0
def check(cp):
    global n
    c = chr(cp)
    n += 1
    for ctx in (c, "a" + c + "b"):
        t = Lexer(Source(print_string(ctx))).advance()
        if t.kind != TokenKind.STRING or t.value != ctx:
            bad.append(cp)
            return
rng = range(0, 0x110000) if full else list(range(0, 0x3000)) + list(range(0x3000, 0x110000, 97)) + \
    [0xD7FF, 0xE000, 0xFFFE, 0xFFFF, 0x10000, 0x10FFFF, 0x2028, 0x2029, 0x85]
for cp in rng:
    if 0xD800 <= cp <= 0xDFFF:
        continue
    check(cp)
print("checked", n, "bad", bad[:10])
assert not bad
'''


def search(seed=0, **_):
    """Bounded stand-in: exhaustive block-string values over a small alphabet."""
    import itertools
    from graphql import parse_value, print_ast
    from graphql.language import StringValueNode
    from graphql.language.block_string import print_block_string
    from graphql.language import Lexer, Source
    alpha = ["a", " ", "\t", "\n", "\r", " ", '"', "\\"]
    for n in range(0, 6):
        for tup in itertools.product(alpha, repeat=n):
            raw = "".join(tup)
            try:
                v = Lexer(Source('"""' + raw + '"""')).advance().value
            except Exception:
                continue
            for minimize in (False, True):
                printed = print_block_string(v, minimize)
                try:
                    v2 = Lexer(Source(printed)).advance().value
                except Exception as e:
                    return {"input": v, "printed": printed, "observed": f"{type(e).__name__}: {e}"}
                if v2 != v:
                    return {"input": v, "printed": printed, "observed": v2, "minimize": minimize}
    return None


def print_order_obligations(world):
    """print(parse(text)) can only parse back if the printer emits the parts of a node in the order
    in which the parser expects them.  Both orders are read off the current tree, nothing is
    executed: for every `XNode(k=..., ...)` constructor call in a Parser method, the keywords whose
    values are parsed, in the order of those parses; for the printer's leave_<kind>, the order in
    which `node.<field>` contributes to the returned string (locals expanded where they are used).
    The two must agree on the fields both mention.  Finite, syntactic; one obligation per kind."""
    import ast as pyast
    from graphql.language import ast as gast
    _m, tree, _ = world.load_module("graphql.language.parser")
    _m2, ptree, _ = world.load_module("graphql.language.printer")
    cls = next(n for n in tree.body if isinstance(n, pyast.ClassDef) and n.name == "Parser")
    pcls = next(n for n in ptree.body if isinstance(n, pyast.ClassDef) and n.name == "PrintAstVisitor")

    def parses(e):
        return any(isinstance(x, pyast.Call) and isinstance(x.func, pyast.Attribute)
                   and isinstance(x.func.value, pyast.Name) and x.func.value.id == "self"
                   for x in pyast.walk(e))
    parse_order = {}
    for fn in [n for n in cls.body if isinstance(n, pyast.FunctionDef)]:
        when = {}
        stmts = sorted((n for n in pyast.walk(fn) if isinstance(n, (pyast.Assign, pyast.AnnAssign))
                        and getattr(n, "value", None) is not None), key=lambda n: (n.lineno, n.col_offset))
        for st in stmts:
            tgt = st.targets[0] if isinstance(st, pyast.Assign) else st.target
            if not isinstance(tgt, pyast.Name) or tgt.id in when:
                continue
            if parses(st.value):
                when[tgt.id] = (st.value.lineno, st.value.col_offset)
            elif isinstance(st.value, pyast.Name) and st.value.id in when:
                when[tgt.id] = when[st.value.id]
        for call in [n for n in pyast.walk(fn) if isinstance(n, pyast.Call)
                     and isinstance(n.func, pyast.Name) and n.func.id.endswith("Node")]:
            kind = getattr(getattr(gast, call.func.id, None), "kind", None)
            timed = []
            for kw in call.keywords:
                v, t = kw.value, None
                if isinstance(v, pyast.Name):
                    t = when.get(v.id)
                elif parses(v):
                    sub = [x for x in pyast.walk(v) if isinstance(x, pyast.Call) and isinstance(x.func, pyast.Attribute)
                           and isinstance(x.func.value, pyast.Name) and x.func.value.id == "self"]
                    t = min((x.lineno, x.col_offset) for x in sub)
                if t is not None and kw.arg != "loc":
                    timed.append((t, kw.arg))
            parse_order.setdefault(kind, []).append((fn.name, call.func.id, [k for _, k in sorted(timed)]))

    def print_order(fn):
        assigns = {}
        for st in pyast.walk(fn):
            if isinstance(st, pyast.Assign) and isinstance(st.targets[0], pyast.Name):
                assigns.setdefault(st.targets[0].id, []).append(st.value)
            elif isinstance(st, pyast.AugAssign) and isinstance(st.target, pyast.Name):
                assigns.setdefault(st.target.id, []).append(st.value)
        rets = [r.value for r in pyast.walk(fn) if isinstance(r, pyast.Return) and r.value is not None]
        out = []

        def emit(e, depth=0):
            for x in sorted((x for x in pyast.walk(e) if isinstance(x, (pyast.Attribute, pyast.Name))),
                            key=lambda x: (x.lineno, x.col_offset)):
                if isinstance(x, pyast.Attribute) and isinstance(x.value, pyast.Name) and x.value.id == "node":
                    if x.attr not in out:
                        out.append(x.attr)
                elif isinstance(x, pyast.Name) and x.id in assigns and depth < 4:
                    for v in assigns[x.id]:
                        emit(v, depth + 1)
        for r in rets[-1:]:
            emit(r)
        return out
    obls = []
    for fn in [n for n in pcls.body if isinstance(n, pyast.FunctionDef) and n.name.startswith("leave_")]:
        kind = fn.name[6:]
        mentions = print_order(fn)
        for (pf, nc, po) in parse_order.get(kind, []):
            pm = [m for m in mentions if m in po]
            pp = [k for k in po if k in mentions]
            ok = pm == pp
            obls.append({"func": "graphql.language.printer.PrintAstVisitor." + fn.name, "kind": "FINITE",
                         "text": f"{kind}: the printer emits the parts in the order Parser.{pf} parses them ({nc})",
                         "status": "discharged" if ok else "refuted", "backend": "finite",
                         "detail": f"print order {pm}, parse order {pp}",
                         "model": None if ok else {"kind": kind, "print_order": pm, "parse_order": pp}})
    return obls


ORDER_REPLAY = r'''
import itertools, json
from graphql import parse, print_ast
from graphql.utilities import ast_to_dict
OPTS = {"experimental_fragment_arguments": True, "experimental_directives_on_directive_definitions": True}
# constructs with several optional clauses, the clauses in every order: whichever order parses must
# survive print -> parse
PARTS = [
    ("directive @foo%s on FIELD", [" @bar", " repeatable", "(a: Int)"]),
    ("{ ...F%s }", ["(a: 1)", " @d"]),
    ("{ f%s }", ["(a: 1)", " @d", " { g }"]),
    ("query Q%s { f }", ["($v: Int)", " @d"]),
    ("fragment F%s on T { f }", ["($v: Int)"]),
    ("fragment F on T%s { f }", [" @d"]),
    ("type T%s { f: Int }", [" implements I", " @d"]),
    ("extend type T%s", [" implements I", " @d", " { f: Int }"]),
    ("type T { f%s: Int%s }", ["(a: Int = 1 @d)"], [" @d"]),
    ("input I { f: Int%s }", [" = 1", " @d"]),
    ("query ($v: Int%s) { f }", [" = 1", " @d"]),
    ("enum E%s { A%s }", [" @d"], [" @e"]),
    ("scalar S%s", [" @d"]), ("union U%s = A | B", [" @d"]), ("schema%s { query: Q }", [" @d"]),
    ("interface I%s { f: Int }", [" implements J", " @d"]),
    ('"desc" directive @foo%s on FIELD | QUERY', [" @bar", " repeatable"]),
    ('"desc" union U%s = A | B', [" @d"]), ('"desc" scalar S%s', [" @d"]), ('"desc" enum E%s { "v" A @e }', [" @d"]),
    ('"desc" input I%s { "f" f: Int = 1 @d }', [" @d"]), ('"desc" interface J%s { "f" f("a" a: Int): Int }', [" @d"]),
    ('"desc" type T%s { "f" f("a" a: Int = 1 @d): Int @d }', [" implements I & J", " @d"]),
    ('"desc" schema%s { query: Q }', [" @d"]), ('"desc" query Q%s { f }', [" @d"]), ('"desc" fragment F on T%s { f }', [" @d"]),
]
bad = None
for spec in PARTS:
    tmpl, groups = spec[0], spec[1:]
    choices = []
    for g in groups:
        alts = []
        for r in range(len(g) + 1):
            for perm in itertools.permutations(g, r):
                alts.append("".join(perm))
        choices.append(alts)
    for combo in itertools.product(*choices):
        text = tmpl % combo
        try:
            doc = parse(text, no_location=True, **OPTS)
        except Exception:
            continue
        printed = print_ast(doc)
        try:
            again = parse(printed, no_location=True, **OPTS)
        except Exception as e:
            bad = {"input": text, "printed": printed, "observed": f"the printed text does not parse: {e}"}
            break
        if ast_to_dict(again) != ast_to_dict(doc):
            bad = {"input": text, "printed": printed, "observed": "print -> parse gives a different tree"}
            break
    if bad:
        break
if not bad:
    # trees built by hand (a source for them may not parse any more): print -> parse must give them back
    from graphql.language import (ArgumentNode, DirectiveNode, DirectiveDefinitionNode, DocumentNode,
                                  FieldNode, FragmentSpreadNode, IntValueNode, NameNode,
                                  OperationDefinitionNode, OperationType, SelectionSetNode)
    nm = lambda s: NameNode(value=s)
    arg = ArgumentNode(name=nm("a"), value=IntValueNode(value="1"))
    dr = DirectiveNode(name=nm("d"), arguments=())
    spread = FragmentSpreadNode(name=nm("F"), arguments=(arg,), directives=(dr,))
    field = FieldNode(name=nm("f"), alias=nm("x"), arguments=(arg,), directives=(dr,),
                      selection_set=SelectionSetNode(selections=(spread,)))
    op = OperationDefinitionNode(operation=OperationType.QUERY, name=nm("Q"), variable_definitions=(),
                                 directives=(dr,), selection_set=SelectionSetNode(selections=(field,)))
    dd = DirectiveDefinitionNode(name=nm("foo"), arguments=(), directives=(dr,), repeatable=True,
                                 locations=(nm("FIELD"),))
    for tree in (DocumentNode(definitions=(op,)), DocumentNode(definitions=(dd,))):
        printed = print_ast(tree)
        try:
            again = parse(printed, no_location=True, **OPTS)
        except Exception as e:
            bad = {"input": "a tree built from node constructors: " + printed.replace("\n", " "),
                   "printed": printed, "observed": f"the printed text does not parse: {e}"}
            break
        if print_ast(again) != printed:
            bad = {"input": "a tree built from node constructors", "printed": printed,
                   "observed": "print -> parse -> print gives " + print_ast(again)}
            break
print("REPLAY " + json.dumps(bad))
'''


def replay_extra(o):
    if "the printer emits the parts in the order" not in o.get("text", "") \
            and "the key table lists exactly" not in o.get("text", ""):
        return None
    rc, outp = run_native(ORDER_REPLAY)
    for line in outp.splitlines():
        if line.startswith("REPLAY "):
            import json
            bad = json.loads(line[7:])
            if bad:
                return dict(bad, confirmed=True, entry="parse + print_ast + parse (experimental syntaxes on)")
            return {"confirmed": False}
    return {"confirmed": False, "error": outp[-500:]}


def extra_obligations(world, tier, seed):
    import subprocess, os, time
    # the printer is a visitor: a child that the key table does not list is never printed (its repr
    # ends up in the text) - the table must list exactly the node-valued fields of every node class
    from .C11 import key_table_obligations
    out = lemma_obligations() + print_order_obligations(world) + key_table_obligations()
    t0 = time.time()
    repo = os.environ.get("VERIF_REPO", "/repo")
    env = dict(os.environ)
    env["PYTHONPATH"] = os.path.join(repo, "src")
    p = subprocess.run([os.environ.get("VERIF_NATIVE_PY", "/venv/bin/python"), "-c", PER_CHAR, tier],
                       capture_output=True, text=True, timeout=3600, env=env)
    ok = p.returncode == 0
    scope = "every Unicode scalar value" if tier == "thorough" else \
        "U+0000..U+2FFF, every 97th code point above, and the boundary code points (quick tier)"
    out.append({"func": "graphql.language.print_string.print_string", "kind": "FINITE",
                "text": "lex(print_string(c)) == c alone and between letters, for every code point in the scope of the tier",
                "status": "discharged" if ok else "refuted", "backend": "finite",
                "detail": f"scope: {scope}; " + (p.stdout + p.stderr)[-300:], "time_s": round(time.time() - t0, 2),
                "model": None if ok else {"output": (p.stdout + p.stderr)[-500:]}})
    return out


DOC_ROUNDTRIP = r'''
import itertools, json
from graphql import parse, print_ast
# string values (block and quoted) at every nesting depth of a printed document: parse -> print ->
# parse must give the same tree, and printing is a fixed point.  The printer indents nested
# selections, arguments and descriptions: interior blank / whitespace-only lines and characters that
# Python (but not GraphQL) treats as line breaks are the interesting values.
LINES = ["a", "", " ", "  b", "\t", "\u2028x", "\x0c", " \u2029", "c ", '\\"""']
TEMPLATES = [
    '{ f(a: %s) }',
    'query Q($v: String = %s) { a { b { c(x: [%s]) } } }',
    '{ a { b(x: {k: %s}) @d(y: %s) } }',
    '%s type T { %s f(%s a: String = %s): Int }',
    'extend schema @d(a: %s) %s directive @e(%s x: [String] = [%s]) on FIELD',
    '%s query { a }',
    '%s fragment F on T { a(x: %s) }',
]
bad = None
n = 0
values = []
for k in (1, 2, 3):
    for tup in itertools.product(LINES, repeat=k):
        values.append("\n".join(tup))
for raw in values:
    for lit in ('"""' + raw + '"""', '"""\n' + raw + '\n"""'):
        for t in TEMPLATES:
            src = t.replace("%s", lit)
            try:
                doc = parse(src, no_location=True)
            except Exception:
                continue
            n += 1
            try:
                printed = print_ast(doc)
                doc2 = parse(printed, no_location=True)
            except Exception as e:
                bad = {"source": src, "observed": f"{type(e).__name__}: {e}"}
                break
            if doc2 != doc:
                bad = {"source": src, "printed": printed, "observed": "print -> parse gives a different tree"}
                break
            if print_ast(doc2) != printed:
                bad = {"source": src, "printed": printed, "observed": "printing is not a fixed point"}
                break
        if bad:
            break
    if bad:
        break
print("DOCRT " + json.dumps(bad) + f" ({n} documents)")
'''


def _doc_roundtrip():
    """print -> parse round trip of whole documents whose string values sit at nesting depth 0-3
    (the printer's indentation and wrapping helpers are outside the verified subset: str.split /
    replace on built strings) - BOUNDED."""
    import json
    rc, outp = run_native(DOC_ROUNDTRIP, timeout=900)
    res, ok = None, False
    for line in outp.splitlines():
        if line.startswith("DOCRT "):
            res, ok = json.loads(line[6:line.rindex(" (")]), True
    if not ok:
        raise RuntimeError(outp[-600:])
    return [{"id": "C08/bounded/documents-with-string-values-at-depth",
             "function": "print_ast (indent, block, join, wrap, leave_string_value) / parse",
             "tool": "parse -> print_ast -> parse over generated documents, native",
             "bound": "block-string values of 1-3 lines over 10 line shapes (blank, white-space only, indented, "
                      "U+2028/U+2029/FF inside, escaped triple quote) x 2 literal layouts x 7 document templates "
                      "(arguments, variable defaults, list / object values, directive arguments, descriptions "
                      "of types, fields, arguments, operations and fragments) at nesting depth 0-3",
             "failed": res is not None, "input": res, "output": outp[-600:]}]


def bounded_checks(tier, seed):
    """Thorough tier: the bounded stand-in search of this property also runs when nothing is
    undecided (deeper exploration, labelled bounded; a failing input is replayed by construction)."""
    out = _doc_roundtrip()
    if tier != "thorough":
        return out
    from pyvc.checker import run_standin
    res = run_standin(STANDIN, seed)
    return out + [{"id": "C08/bounded/standin-search", "function": STANDIN,
             "tool": "native differential search", "bound": STANDIN_BUDGET,
             "failed": bool(res), "input": res, "output": ""}]


def native_checks(tier, seed):
    out = []
    for name, code in WITNESSES.items():
        rc, outp = run_native(code)
        out.append({"id": f"C08/native/{name}", "failed": rc != 0, "output": outp,
                    "input": code.strip()})
    return out
