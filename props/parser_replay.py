"""Native replay search for refuted parser obligations (runs under the repository's interpreter).

The solver's counter-model of a parser method is a parser state, not a source text; to confirm a
refuted obligation on the real code the entry points are run over a corpus built around the
grammar: the two kitchen-sink documents (embedded below, so nothing outside /verif is needed),
every truncation at a token boundary, every single-token deletion and a set of single-token
substitutions.  A confirmation is an input on which an entry point raises something other than
GraphQLSyntaxError, or breaks the token-limit statement."""
QUERY = r'''
query queryName($foo: ComplexType, $site: Site = MOBILE) @onQuery {
  whoever123is: node(id: [123, 456]) {
    id
    ... on User @onInlineFragment {
      field2 {
        id
        alias: field1(first: 10, after: $foo) @include(if: $foo) {
          id
          ...frag @onFragmentSpread
        }
      }
    }
    ... @skip(unless: $foo) {
      id
    }
    ... {
      id
    }
  }
}

mutation likeStory @onMutation {
  like(story: 123) @onField {
    story {
      id @onField
    }
  }
}

subscription StoryLikeSubscription($input: StoryLikeSubscribeInput @onVariableDefinition) @onSubscription {
  storyLikeSubscribe(input: $input) {
    story {
      likers {
        count
      }
      likeSentence {
        text
      }
    }
  }
}

"Fragment description"
fragment frag on Friend @onFragmentDefinition {
  foo(size: $size, bar: $b, obj: {key: "value", block: """
  block string uses \"""
  """}, n: null, t: true, f: false, e: ENUM, fl: -1.5e3)
}

{
  unnamed(truthy: true, falsy: false, nullish: null)
  query
}

{ __typename }
'''
SDL = r'''
"""This is a description of the schema as a whole."""
schema @dir {
  query: QueryType
  mutation: MutationType
}

"""
This is a description
of the `Foo` type.
"""
type Foo implements Bar & Baz & Two @onObject {
  "Description of the `one` field."
  one: Type
  two(argument: InputType!): Type
  three(argument: InputType, other: String): Int
  four(argument: String = "string"): String
  five(argument: [String] = ["string", "string"]): String
  six(argument: InputType = {key: "value"}): Type
  seven(argument: Int = null): Type
  eight(argument: OneOfInputType): Type
}

type AnnotatedObject @onObject(arg: "value") {
  annotatedField(arg: Type = "default" @onArgumentDefinition): Type @onField
}

type UndefinedType

extend type Foo { seven(argument: [String]): Type }
extend type Foo @onType
interface Bar @onInterface { one: Type four(argument: String = "string"): String }
interface Baz implements Bar & Two { one: Type }
extend interface Bar implements Two { two(argument: InputType!): Type }
extend interface Bar @onInterface
union Feed @onUnion = | Story | Article | Advert
union UndefinedUnion
extend union Feed = Photo | Video
extend union Feed @onUnion
scalar CustomScalar @onScalar
extend scalar CustomScalar @onScalar
enum Site @onEnum { "d" DESKTOP @onEnumValue MOBILE }
enum UndefinedEnum
extend enum Site { VR }
extend enum Site @onEnum
input InputType @onInputObject { key: String! answer: Int = 42 @onInputFieldDefinition }
input UndefinedInput
extend input InputType { other: Float = 1.23e4 @onInputFieldDefinition }
extend input InputType @onInputObject
directive @skip(if: Boolean! @onArgumentDefinition) on FIELD | FRAGMENT_SPREAD | INLINE_FRAGMENT
directive @include2(if: Boolean!) repeatable on | FIELD | FRAGMENT_SPREAD
extend schema @onSchema
extend schema @onSchema { subscription: SubscriptionType }
'''
EXTRA = ['{ f(a: $v, b: [1, [2]], c: {d: {e: $x}}) }', 'fragment F($a: Int = 1) on T { ...G(x: $a) }',
         'query ($v: [Int!]! = [1] @d) { a }', 'directive @a @b on FIELD', '"d" directive @a(x: Int = 1 @c, y: [T!]) @b @c repeatable on FIELD | QUERY',
         'query Q($a: Int = 1 @d, "desc" $b: [T] @e) @f { a }', 'extend directive @a @b',
         '"d" { a }', '"d" extend type A @b', 'extend', 'extend foo', '... on', '{ ...on }',
         'enum E { true }', 'fragment on on T { a }', 'query Q($a: Int = $b) { a }',
         'directive @d on FOO', 'schema { foo: T }', '{ a(b: {c: $d}) @e(f: [$g]) }']
VALUES = ['1', '-1.5e3', '"s"', '"""b"""', 'true', 'null', 'E', '$v', '[1, $v, [E]]',
          '{a: 1, b: {c: [$v]}}', '[', '{', '{a:', '$', '{a: $}']
TYPES = ['T', '[T]', 'T!', '[T!]!', '[[T]]', '[', '[T', 'T!!', '!', '[T]]']
COORDS = ['T', 'T.f', 'T.f(a:)', '@d', '@d(a:)', 'T.', 'T.f(', 'T.f(a', 'T.f(a:', '@', '@d(', 'T f',
          'T.f.g', '@d.f', '(', 'T(a:)', '']
SUBST = ['{', '}', '(', ')', '[', ']', ':', '=', '@', '$', '!', '|', '&', '...', 'on', 'true', 'null',
         'extend', 'fragment', 'query', '"s"', '"""b"""', '1', '1.5', 'x', '.',
         # names that are attributes of Enum classes / of str but no GraphQL keywords
         'mro', '__doc__', '__members__', 'name', 'value', '__class__']


def token_spans(text):
    from graphql.language import Lexer, Source, TokenKind
    lx = Lexer(Source(text))
    out = []
    while True:
        t = lx.advance()
        if t.kind is TokenKind.EOF:
            return out
        out.append((t.start, t.end))


def corpus():
    docs = [QUERY, SDL] + EXTRA
    seen = set()
    for d in docs:
        try:
            spans = token_spans(d)
        except Exception:
            spans = []
        cands = [d]
        for (a, b) in spans:
            cands.append(d[:a])
            cands.append(d[:b])
            cands.append(d[:a] + d[b:])
        if len(spans) <= 400:
            step = max(1, len(spans) // 60)
            for (a, b) in spans[::step]:
                for s in SUBST:
                    cands.append(d[:a] + s + d[b:])
        for c in cands:
            if c not in seen:
                seen.add(c)
                yield c


def search(budget_s=90):
    """Returns a dict describing a failing input, or None."""
    import time
    from graphql import parse, parse_value, parse_const_value, parse_type, GraphQLSyntaxError
    from graphql.language import parse_schema_coordinate, Lexer, Source, TokenKind
    t0 = time.time()
    opts = [{}, {"no_location": True}, {"experimental_fragment_arguments": True},
            {"experimental_directives_on_directive_definitions": True}]

    def run(fn, text, **kw):
        try:
            return ("ok", fn(text, **kw))
        except GraphQLSyntaxError as e:
            return ("syntax", e)
        except RecursionError:
            return ("syntax", None)
        except Exception as e:  # noqa: BLE001
            return ("crash", e)
    small = [(parse_value, VALUES), (parse_const_value, VALUES), (parse_type, TYPES),
             (parse_schema_coordinate, COORDS)]
    for fn, texts in small:
        for text in texts:
            for kw in ({}, {"no_location": True}, {"max_tokens": 2}):
                r = run(fn, text, **kw)
                if r[0] == "crash":
                    return {"confirmed": True, "entry": fn.__name__, "input": text, "options": kw,
                            "observed": f"{type(r[1]).__name__}: {r[1]}"}
    for text in corpus():
        if time.time() - t0 > budget_s:
            break
        for kw in opts:
            r = run(parse, text, **kw)
            if r[0] == "crash":
                return {"confirmed": True, "entry": "parse", "input": text, "options": kw,
                        "observed": f"{type(r[1]).__name__}: {r[1]}"}
        # token limit: n accepts exactly the documents with at most n tokens
        r = run(parse, text)
        try:
            count = len(token_spans(text))
        except Exception:  # noqa: BLE001
            continue
        if r[0] == "ok" and getattr(r[1], "token_count", count) != count:
            return {"confirmed": True, "entry": "parse", "input": text,
                    "observed": f"token_count {r[1].token_count} != {count} tokens"}
        if r[0] == "ok":
            for n in (count - 1, count, count + 1, 0):
                if n < 0:
                    continue
                r2 = run(parse, text, max_tokens=n)
                if r2[0] == "crash" or (r2[0] == "ok") != (n >= count):
                    return {"confirmed": True, "entry": "parse", "input": text,
                            "options": {"max_tokens": n},
                            "observed": f"{count} tokens, limit {n}: outcome {r2[0]}"}
    return {"confirmed": False}
