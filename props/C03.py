"""C03 - the response does not depend on when resolvers complete (narrow)."""
from .common import A, run_native
from .C02 import memo_obligations

LEVEL = "other"
EXPLANATION = (
    "The quantifier of this property is over schedules, which contracts on synchronous functions "
    "cannot express (A3). Decided is only the mechanism the anchors name as a per-function fact: "
    "(1) the collect_subfields memo can only hit for the same field group: its key determines the "
    "return type and every field detail (MEMO-M1) and the objects whose id() it contains are kept "
    "alive by the entry, so an id cannot be reused while the entry exists (MEMO-M2); (2) "
    "CollectedErrors: an error under an already nulled position (the position itself, an ancestor "
    "or the root) is dropped, otherwise exactly one error and exactly that position are recorded, "
    "independent of the order in which errors arrive (whole-view frame); (3) complete_value never "
    "returns None for a non-null type on the synchronous path; handle_field_error's decision.")
UNVERIFIED = [
    "all schedule dependent statements: independence of completion order, gather_with_cancel, serial execution of mutation fields under awaitables "
    "(BOUNDED stand-in only: props/C02_ref.search_async, seeded completion schedules against a reference executor)",
    "the asynchronous completion paths (complete_awaitable_value, async list items, async type resolution)",
]
TRUSTED = []
ASSUMPTIONS = [A["A1"], A["A2"], A["A3"], A["A6"], A["ENGINE"]]
LIFTERS = []


def extra_obligations(world, tier, seed):
    return [o for o in memo_obligations(world) if o["func"] == "Executor.collect_subfields"]


WITNESS_F6 = r'''
import asyncio
from graphql import build_schema, graphql
schema = build_schema("""
type P { id: Int name: String bestFriend: P }
type Query { a: P b: P c: P me: P slow: P }
""")
class P:
    def __init__(s, i): s.id = i; s.name = f"n{i}"
    def bestFriend(s, info): return P(s.id + 100)
class Root:
    def a(s, info): return P(1)
    def b(s, info): return P(2)
    def c(s, info): return P(3)
    def me(s, info): return P(4)
    async def slow(s, info):
        await asyncio.sleep(0); return P(5)
q = '{ a{id} b{id} c{id} me{id} slow{bestFriend{name}} }'
bad = 0
for i in range(60):
    r = asyncio.run(graphql(schema, q, Root()))
    if r.data['slow'] != {'bestFriend': {'name': 'n105'}}:
        bad += 1
assert bad == 0, bad
'''


def bounded_checks(tier, seed):
    """Independence of the completion order is a statement about schedules, outside what a
    per-activation contract can say (A3): BOUNDED stand-in - the requests of props/C02_ref.py executed
    with a seeded subset of the fields resolving through coroutines that finish after 0-3 event-loop
    turns; the response must equal the reference executor's, which knows nothing of time."""
    import json
    code = ("import json, warnings\nwarnings.simplefilter('ignore')\nfrom props.C02_ref import search_async\n"
            f"r = search_async(seed={int(seed)}, thorough={tier == 'thorough'!r})\n"
            "print('BOUNDED ' + json.dumps(r, default=str))")
    rc, outp = run_native(code, timeout=1500)
    res, ok = None, False
    for line in outp.splitlines():
        if line.startswith("BOUNDED "):
            res, ok = json.loads(line[8:]), True
    if not ok:
        raise RuntimeError(outp[-600:])
    return [{"id": "C03/bounded/completion-order-vs-reference-executor",
             "function": "execute (async resolvers; complete_awaitable_value, gather, async list items)",
             "tool": "reference executor (props/C02_ref.py) vs execute under seeded completion schedules, native",
             "bound": "the request corpus of props/C02_ref.py (ordered pairs + 200 seeded triples per parent, "
                      + ("every 2nd" if tier == "thorough" else "every 7th") + " request), data variants 0, 1, 4, "
                      + ("8" if tier == "thorough" else "3") + " seeded schedules per request: each field resolves synchronously "
                      "or through a coroutine finishing after 0-3 event-loop turns; no @defer/@stream",
             "failed": res is not None, "input": res, "output": outp[-1500:]}]


AWAITABLE_ZOO = r'''
import asyncio, inspect, json, types
from graphql.pyutils import is_awaitable
from graphql import build_schema, execute

async def coro():
    return 1

@types.coroutine
def gen_coro():
    yield
    return 2

def plain_gen():
    yield 1

async def agen():
    yield 1

class Aw:
    def __await__(self):
        return iter(())

class NotAw:
    __await__ = None

bad = None

async def main():
    global bad
    loop = asyncio.get_running_loop()
    fut = loop.create_future(); fut.set_result(3)
    task = asyncio.ensure_future(coro())
    zoo = {"coroutine": coro(), "generator based coroutine (types.coroutine)": gen_coro(), "plain generator": plain_gen(),
           "async generator": agen(), "future": fut, "task": task, "object with __await__": Aw(),
           "None": None, "int": 1, "str": "s", "list": [], "coroutine function": coro}
    for name, v in zoo.items():
        want = inspect.isawaitable(v)
        got = is_awaitable(v)
        if bool(got) != want:
            bad = {"value": name, "observed": f"is_awaitable -> {got}, `await value` is {'possible' if want else 'a TypeError'}"}
            break
    for v in zoo.values():
        if inspect.iscoroutine(v):
            v.close()
    await task
    if bad is None:
        schema = build_schema("type Query { a: Int b: Int }")
        r = execute(schema, __import__("graphql").parse("{ a b }"), {"a": lambda info: gen_coro(), "b": lambda info: coro()})
        if inspect.isawaitable(r):
            r = await r
        if r.data != {"a": 2, "b": 1} or r.errors:
            bad = {"value": "resolver returning a generator based coroutine",
                   "observed": f"data {r.data!r} errors {r.errors!r}; awaited it would be {{'a': 2, 'b': 1}}"}
asyncio.run(main())
print("ZOO " + json.dumps(bad))
'''


TYPE_RESOLUTION = r'''
import asyncio, inspect, itertools, json
from graphql import (GraphQLField, GraphQLInt, GraphQLObjectType, GraphQLSchema, GraphQLString, GraphQLUnionType,
                     execute, parse)
bad = None
async def main():
    global bad
    names = ["A", "B", "C"]
    for truth in range(3):
        for modes in itertools.product(("sync", "async"), repeat=3):
            types = []
            for i, n in enumerate(names):
                def make(i=i):
                    if modes[i] == "sync":
                        return lambda value, info: i == truth
                    async def f(value, info):
                        await asyncio.sleep(0)
                        return i == truth
                    return f
                types.append(GraphQLObjectType(n, {"x": GraphQLField(GraphQLInt)}, is_type_of=make()))
            u = GraphQLUnionType("U", types)
            schema = GraphQLSchema(GraphQLObjectType("Query", {"u": GraphQLField(u)}))
            r = execute(schema, parse("{ u { __typename } }"), {"u": {"x": 1}})
            if inspect.isawaitable(r):
                r = await r
            want = {"u": {"__typename": names[truth]}}
            if r.data != want or r.errors:
                bad = {"is_type_of": {n: f"{modes[i]}, {'True' if i == truth else 'False'}" for i, n in enumerate(names)},
                       "observed": f"data {r.data!r} errors {[e.message for e in r.errors or []]!r}; expected {want!r}"}
                return
asyncio.run(main())
print("TYPERES " + json.dumps(bad))
'''


SERIAL_MUTATION = r'''
import asyncio, inspect, itertools, json
from graphql import (GraphQLField, GraphQLInt, GraphQLNonNull, GraphQLObjectType, GraphQLSchema, execute, parse)
bad = None
async def main():
    global bad
    for broken_ticks, slow_ticks, cleanup_ticks in itertools.product((0, 1, 2), (3, 5), (0, 1, 3)):
        log = []
        def resolve_broken(_s, _i):
            async def run():
                for _ in range(broken_ticks):
                    await asyncio.sleep(0)
                raise RuntimeError("broken")
            return run()
        def resolve_slow(_s, _i):
            async def run():
                try:
                    for _ in range(slow_ticks):
                        await asyncio.sleep(0)
                    return 7
                except asyncio.CancelledError:
                    for _ in range(cleanup_ticks):
                        await asyncio.sleep(0)
                    raise
                finally:
                    log.append("slow:end")
            return run()
        def resolve_second(_s, _i):
            log.append("second:start")
            return 2
        first = GraphQLObjectType("First", {"broken": GraphQLField(GraphQLNonNull(GraphQLInt), resolve=resolve_broken),
                                            "slow": GraphQLField(GraphQLInt, resolve=resolve_slow)})
        schema = GraphQLSchema(GraphQLObjectType("Query", {"q": GraphQLField(GraphQLInt)}),
                               GraphQLObjectType("Mutation", {"first": GraphQLField(first, resolve=lambda *_: {}),
                                                              "second": GraphQLField(GraphQLInt, resolve=resolve_second)}))
        r = execute(schema, parse("mutation { first { broken slow } second }"))
        if inspect.isawaitable(r):
            r = await r
        for _ in range(8):
            await asyncio.sleep(0)
        if r.data != {"first": None, "second": 2}:
            bad = {"ticks": [broken_ticks, slow_ticks, cleanup_ticks], "observed": f"data {r.data!r}"}
            return
        if "slow:end" not in log or log.index("slow:end") > log.index("second:start"):
            bad = {"mutation": "mutation { first { broken slow } second }",
                   "ticks (broken fails after, slow needs, cleanup after cancel)": [broken_ticks, slow_ticks, cleanup_ticks],
                   "observed": f"order of events {log!r}: the resolver of `second` started before the cancelled sibling "
                               "of the failed non-null field had settled"}
            return
asyncio.run(main())
print("SERIAL " + json.dumps(bad))
'''

ASYNC_RESOLVE_TYPE = r'''
import asyncio, inspect, itertools, json
from graphql import (GraphQLField, GraphQLInt, GraphQLList, GraphQLObjectType, GraphQLSchema, GraphQLString,
                     GraphQLInterfaceType, GraphQLUnionType, execute, parse)
bad = None
async def main():
    global bad
    for abstract, async_rt, async_field in itertools.product(("union", "interface"), (False, True), (False, True)):
        def rt(value, info, _t):
            if async_rt:
                async def f():
                    await asyncio.sleep(0)
                    return value["t"]
                return f()
            return value["t"]
        def res_x(value, info):
            if async_field:
                async def f():
                    return value["x"]
                return f()
            return value["x"]
        if abstract == "interface":
            ab = GraphQLInterfaceType("Ab", {"x": GraphQLField(GraphQLInt)}, resolve_type=rt)
            types = [GraphQLObjectType(n, {"x": GraphQLField(GraphQLInt, resolve=res_x)}, interfaces=[ab]) for n in ("A", "B")]
        else:
            types = [GraphQLObjectType(n, {"x": GraphQLField(GraphQLInt, resolve=res_x)}) for n in ("A", "B")]
            ab = GraphQLUnionType("Ab", types, resolve_type=rt)
        schema = GraphQLSchema(GraphQLObjectType("Query", {"one": GraphQLField(ab), "many": GraphQLField(GraphQLList(ab))}),
                               types=types)
        root = {"one": {"t": "B", "x": 1}, "many": [{"t": "A", "x": 2}, {"t": "B", "x": 3}, None]}
        q = "{ one { __typename ... on A { x } ... on B { x } } many { __typename ... on A { x } ... on B { x } } }"
        r = execute(schema, parse(q), root)
        if inspect.isawaitable(r):
            r = await r
        want = {"one": {"__typename": "B", "x": 1},
                "many": [{"__typename": "A", "x": 2}, {"__typename": "B", "x": 3}, None]}
        if r.data != want or r.errors:
            bad = {"abstract type": abstract, "resolve_type awaitable": async_rt, "sub-field awaitable": async_field,
                   "observed": f"data {r.data!r} errors {[e.message for e in r.errors or []]!r}; expected {want!r}"}
            return
asyncio.run(main())
print("ASYNCRT " + json.dumps(bad))
'''


K4_BACKGROUND_SIBLING = r'''
import asyncio
from graphql import *
events = []
async def slow(src, info):
    events.append("a:start")
    try:
        await asyncio.sleep(0.01)
    finally:
        events.append("a:end")
    return 1
def boom(src, info):
    events.append("b")
    raise RuntimeError("boom")
def m2(src, info):
    events.append("m2:start")
    return 2
Sub = GraphQLObjectType("Sub", {"a": GraphQLField(GraphQLInt, resolve=slow), "b": GraphQLField(GraphQLNonNull(GraphQLInt), resolve=boom)})
M = GraphQLObjectType("Mutation", {"m1": GraphQLField(Sub, resolve=lambda *_: {}), "m2": GraphQLField(GraphQLInt, resolve=m2)})
schema = GraphQLSchema(GraphQLObjectType("Query", {"x": GraphQLField(GraphQLInt)}), M)
async def main():
    r = execute(schema, parse("mutation { m1 { a b } m2 }"))
    if asyncio.iscoroutine(r):
        r = await r
    await asyncio.sleep(0.05)
    # the subtree of m1 (the coroutine of `a`) must have completed before m2 starts
    assert "a:start" not in events or events.index("a:end") < events.index("m2:start"), events
asyncio.run(main())
'''

K5_SHARED_FUTURE = r'''
import asyncio
from graphql import *
async def run(x_first):
    loop = asyncio.get_running_loop()
    shared = loop.create_future()          # e.g. a data loader future handed to two fields
    gate = asyncio.Event()
    async def x(src, info):
        await gate.wait()
        raise RuntimeError("x failed")
    Sub = GraphQLObjectType("Sub", {"x": GraphQLField(GraphQLNonNull(GraphQLInt), resolve=x),
                                    "y": GraphQLField(GraphQLInt, resolve=lambda *_: shared)})
    Q = GraphQLObjectType("Query", {"a": GraphQLField(Sub, resolve=lambda *_: {}),
                                    "b": GraphQLField(GraphQLInt, resolve=lambda *_: shared)})
    task = asyncio.ensure_future(execute(GraphQLSchema(Q), parse("{ a { x y } b }")))
    await asyncio.sleep(0); await asyncio.sleep(0)
    if not x_first:
        shared.set_result(7); await asyncio.sleep(0); gate.set()
    else:
        gate.set()
        for _ in range(3):
            await asyncio.sleep(0)
        if not shared.done():
            shared.set_result(7)
    return (await task).formatted
async def main():
    want = await run(False)
    try:
        got = await run(True)
    except BaseException as e:
        raise AssertionError(f"completion order x-first: execute() raised {type(e).__name__} instead of returning {want}")
    assert got == want, (got, want)
asyncio.run(main())
'''


def native_checks(tier, seed):
    known = []
    for kid, code, what in (
            ("K4-synchronous-failure-leaves-a-sibling-coroutine-running-into-the-next-mutation-field", K4_BACKGROUND_SIBLING,
             "mutation { m1 { a b } m2 }: a awaitable, b (Int!) raises synchronously"),
            ("K5-cancelling-a-sibling-cancels-a-future-shared-with-a-position-outside-the-nulled-subtree", K5_SHARED_FUTURE,
             "{ a { x y } b }: y and b return the same future, x (Int!) fails first")):
        rc, outp = run_native(code)
        known.append({"id": f"C03/native/{kid}", "failed": rc != 0, "output": outp[-800:], "input": what})
    return known + _native_checks2(tier, seed)


def _native_checks2(tier, seed):
    rc2, outp2 = run_native(SERIAL_MUTATION)
    rc3, outp3 = run_native(ASYNC_RESOLVE_TYPE)
    extra = [
        {"id": "C03/native/serial-mutation-waits-for-cancelled-siblings", "failed": "SERIAL null" not in outp2,
         "output": outp2[-800:],
         "input": "mutation { first { broken slow } second }: broken (Int!) fails after 0-2 loop turns, slow needs 3/5 turns and "
                  "0-3 turns of cleanup when cancelled (18 schedules): `second` must not start before slow has settled"},
        {"id": "C03/native/resolve-type-sync-or-awaitable-gives-the-same-response", "failed": "ASYNCRT null" not in outp3,
         "output": outp3[-800:],
         "input": "union / interface whose resolve_type is synchronous or a coroutine x sub-fields synchronous or awaitable, "
                  "single value and list: the response must not depend on the mix"}]
    return extra + _native_checks1(tier, seed)


def _native_checks1(tier, seed):
    rc1, outp1 = run_native(TYPE_RESOLUTION)
    tr = {"id": "C03/native/type-resolution-independent-of-which-is_type_of-are-async",
          "failed": "TYPERES null" not in outp1, "output": outp1[-800:],
          "input": "union of A, B, C; each is_type_of synchronous or a coroutine (all 8 mixes) x which one answers True: "
                   "the resolved __typename must be that type"}
    return [tr] + _native_checks0(tier, seed)


def _native_checks0(tier, seed):
    rc0, outp0 = run_native(AWAITABLE_ZOO)
    zoo_failed = "ZOO null" not in outp0
    zoo = {"id": "C03/native/is-awaitable-agrees-with-await", "failed": zoo_failed, "output": outp0[-800:],
           "input": "is_awaitable(v) == inspect.isawaitable(v) over 12 kinds of value (coroutine, generator based "
                    "coroutine, future, task, __await__ object, generators, plain values), and a resolver returning a "
                    "generator based coroutine is awaited"}
    return [zoo] + _native_checks(tier, seed)


def _native_checks(tier, seed):
    rc, outp = run_native(WITNESS_F6)
    return [{"id": "C03/native/F6-subfield-memo-id-reuse", "failed": rc != 0, "output": outp,
             "input": "{ a{id} b{id} c{id} me{id} slow{bestFriend{name}} } with only slow awaitable, 60 runs"}]
