"""C03 - the response does not depend on when resolvers complete (narrow)."""
from .common import A, run_native
from .C02 import memo_obligations

LEVEL = "other"
EXPLANATION = (
    "The quantifier of this property is over schedules, which contracts on synchronous functions "
    "cannot express (A3). Decided is only the mechanism the anchors name as a per-function fact: "
    "(1) the collect_subfields memo can only hit for the same field group: its key determines the "
    "return type and every field detail (MEMO-M1) and the objects whose id() it contains are kept "
    "alive by the entry, so an id cannot be reused while the entry exists (MEMO-M2); (2) "
    "CollectedErrors: an error under an already nulled position (the position itself, an ancestor "
    "or the root) is dropped, otherwise exactly one error and exactly that position are recorded, "
    "independent of the order in which errors arrive (whole-view frame); (3) complete_value never "
    "returns None for a non-null type on the synchronous path; handle_field_error's decision.")
UNVERIFIED = [
    "all schedule dependent statements: independence of completion order, gather_with_cancel, serial execution of mutation fields under awaitables "
    "(BOUNDED stand-in only: props/C02_ref.search_async, seeded completion schedules against a reference executor)",
    "the asynchronous completion paths (complete_awaitable_value, async list items, async type resolution)",
]
TRUSTED = []
ASSUMPTIONS = [A["A1"], A["A2"], A["A3"], A["A6"], A["ENGINE"]]
LIFTERS = []


def extra_obligations(world, tier, seed):
    return [o for o in memo_obligations(world) if o["func"] == "Executor.collect_subfields"]


WITNESS_F6 = r'''
import asyncio
from graphql import build_schema, graphql
schema = build_schema("""
type P { id: Int name: String bestFriend: P }
type Query { a: P b: P c: P me: P slow: P }
""")
class P:
    def __init__(s, i): s.id = i; s.name = f"n{i}"
    def bestFriend(s, info): return P(s.id + 100)
class Root:
    def a(s, info): return P(1)
    def b(s, info): return P(2)
    def c(s, info): return P(3)
    def me(s, info): return P(4)
    async def slow(s, info):
        await asyncio.sleep(0); return P(5)
q = '{ a{id} b{id} c{id} me{id} slow{bestFriend{name}} }'
bad = 0
for i in range(60):
    r = asyncio.run(graphql(schema, q, Root()))
    if r.data['slow'] != {'bestFriend': {'name': 'n105'}}:
        bad += 1
assert bad == 0, bad
'''


def bounded_checks(tier, seed):
    """Independence of the completion order is a statement about schedules, outside what a
    per-activation contract can say (A3): BOUNDED stand-in - the requests of props/C02_ref.py executed
    with a seeded subset of the fields resolving through coroutines that finish after 0-3 event-loop
    turns; the response must equal the reference executor's, which knows nothing of time."""
    import json
    code = ("import json\nfrom props.C02_ref import search_async\n"
            f"r = search_async(seed={int(seed)}, thorough={tier == 'thorough'!r})\n"
            "print('BOUNDED ' + json.dumps(r, default=str))")
    rc, outp = run_native(code, timeout=1500)
    res, ok = None, False
    for line in outp.splitlines():
        if line.startswith("BOUNDED "):
            res, ok = json.loads(line[8:]), True
    if not ok:
        raise RuntimeError(outp[-600:])
    return [{"id": "C03/bounded/completion-order-vs-reference-executor",
             "function": "execute (async resolvers; complete_awaitable_value, gather, async list items)",
             "tool": "reference executor (props/C02_ref.py) vs execute under seeded completion schedules, native",
             "bound": "the request corpus of props/C02_ref.py (ordered pairs + 200 seeded triples per parent, "
                      + ("every 2nd" if tier == "thorough" else "every 7th") + " request), data variants 0, 1, 4, "
                      + ("8" if tier == "thorough" else "3") + " seeded schedules per request: each field resolves synchronously "
                      "or through a coroutine finishing after 0-3 event-loop turns; no @defer/@stream",
             "failed": res is not None, "input": res, "output": outp[-1500:]}]


def native_checks(tier, seed):
    rc, outp = run_native(WITNESS_F6)
    return [{"id": "C03/native/F6-subfield-memo-id-reuse", "failed": rc != 0, "output": outp,
             "input": "{ a{id} b{id} c{id} me{id} slow{bestFriend{name}} } with only slow awaitable, 60 runs"}]
