"""Bounded stand-in for the part of C14 that the contracts only wire up: that the within / between /
fragment decomposition of the overlapping-fields rule finds a conflict exactly when the
specification's FieldsInSetCanMerge / SameResponseShape does on the selection set with fragments
expanded.  A reference written from the specification text (no pair tables, no decomposition:
fragments are expanded while collecting, pairs are compared directly, recursion on merged
sub-selections with a visited set for cyclic fragments) is compared with
validate(schema, doc, [OverlappingFieldsCanBeMergedRule]) on generated documents.

BOUNDED, never counted as proved.  Bound: one schema (interface + 2 object types + union, scalar /
enum / list / non-null / nested fields, arguments); documents `{ pet { A B } }` and
`{ pet { A B C } }` where A, B, C range over 9 field atoms x 6 wrappers (plain, inline fragments on
Dog / Cat / Pet, spreads of fragments on Dog / Cat, a fragment holding only a spread, nested one level,
fragments spreading each other incl. a cycle); quick: all pairs + every pair of named spreads with an unrelated spread between them + 1500 seeded
triples, thorough: the same with 20000 triples.
@stream and fragment arguments (experimental) are not generated.  Runs natively."""
import itertools
import random

SCHEMA = '''
interface Pet { name: String nick: String friend: Pet vol: Int tags: [String] tagsNN: [String!] }
type Dog implements Pet { name: String nick: String friend: Pet vol: Int tags: [String] tagsNN: [String!]
  barkVolume: Int does(cmd: Int): Boolean id: Int! kind: DogKind sub: DogSub }
type Cat implements Pet { name: String nick: String friend: Pet vol: Int tags: [String] tagsNN: [String!]
  meowVolume: String does(cmd: Int): Boolean id: String kind: CatKind sub: CatSub }
enum DogKind { A B } enum CatKind { A B }
type DogSub { v: Int w: String } type CatSub { v: String w: String }
union CatOrDog = Cat | Dog
type Query { pet: Pet catOrDog: CatOrDog dog: Dog }
'''
ATOMS = ["name", "x: name", "x: nick", "x: vol", "x: tags", "x: tagsNN", "x: barkVolume", "x: meowVolume",
         "x: does(cmd: 1)", "x: does(cmd: 2)", "x: id", "x: kind", "x: sub { v }", "x: sub { y: v }",
         "x: sub { y: w }", "friend { x: name }", "friend { x: nick }", "friend { ...OnDogX }", "x: __typename"]
# atoms that only exist on Dog / Cat are wrapped in a fragment of that type by the generator
DOG_ONLY = {"x: barkVolume"}
CAT_ONLY = {"x: meowVolume"}
FRAGS = '''
fragment OnDogX on Dog { x: barkVolume }
fragment Cyc1 on Pet { friend { ...Cyc2 } x: name }
fragment Cyc2 on Pet { friend { ...Cyc1 } x: nick }
'''


def wrappers(atom, k):
    out = []
    if atom not in DOG_ONLY and atom not in CAT_ONLY:
        out.append((atom, ""))
        out.append(("... on Pet { %s }" % atom, ""))
        out.append(("... { %s }" % atom, ""))
    if atom not in CAT_ONLY:
        out.append(("... on Dog { %s }" % atom, ""))
        out.append(("...D%d" % k, "fragment D%d on Dog { %s }" % (k, atom)))
    if atom not in DOG_ONLY:
        out.append(("... on Cat { %s }" % atom, ""))
        out.append(("...C%d" % k, "fragment C%d on Cat { %s }" % (k, atom)))
    # a fragment that holds nothing but a spread (its own field map is empty)
    # an inline fragment without a type condition inside a typed one (its parent is the enclosing type)
    if atom not in CAT_ONLY:
        out.append(("... on Dog { ... { %s } }" % atom, ""))
    if atom not in DOG_ONLY:
        out.append(("... on Cat { ... @include(if: true) { %s } }" % atom, ""))
    if atom not in DOG_ONLY and atom not in CAT_ONLY:
        out.append(("...AG%d" % k, "fragment AG%d on Pet { ...LF%d }\nfragment LF%d on Pet { %s }" % (k, k, k, atom)))
    return out


# ----------------------------------------------------------------------------- the reference
def reference_conflict(schema, doc):
    """True iff some selection set of the document violates FieldsInSetCanMerge."""
    from graphql.language import (FieldNode, FragmentDefinitionNode, FragmentSpreadNode,
                                  InlineFragmentNode, OperationDefinitionNode, print_ast)
    from graphql.type import (get_named_type, is_leaf_type, is_list_type, is_non_null_type,
                              is_object_type, is_interface_type)
    from graphql.utilities import type_from_ast
    frags = {d.name.value: d for d in doc.definitions if isinstance(d, FragmentDefinitionNode)}

    def field_def(parent, name):
        if name == "__typename" and parent is not None:
            # the meta field every composite type has (specification: Type Name Introspection): String!
            from graphql.type import TypeNameMetaFieldDef
            return TypeNameMetaFieldDef
        if parent is None or not (is_object_type(parent) or is_interface_type(parent)):
            return None
        return parent.fields.get(name)

    def collect(sel_set, parent, out, visited):
        for sel in sel_set.selections:
            if isinstance(sel, FieldNode):
                out.append((parent, sel, field_def(parent, sel.name.value)))
            elif isinstance(sel, InlineFragmentNode):
                p = type_from_ast(schema, sel.type_condition) if sel.type_condition else parent
                collect(sel.selection_set, p, out, visited)
            elif isinstance(sel, FragmentSpreadNode):
                n = sel.name.value
                if n in visited or n not in frags:
                    continue
                visited.add(n)
                f = frags[n]
                collect(f.selection_set, type_from_ast(schema, f.type_condition), out, visited)
        return out

    def args_of(node):
        return sorted((a.name.value, print_ast(a.value)) for a in (node.arguments or ()))

    def same_shape(ta, tb):
        while True:
            if is_non_null_type(ta) or is_non_null_type(tb):
                if not (is_non_null_type(ta) and is_non_null_type(tb)):
                    return False
                ta, tb = ta.of_type, tb.of_type
                continue
            if is_list_type(ta) or is_list_type(tb):
                if not (is_list_type(ta) and is_list_type(tb)):
                    return False
                ta, tb = ta.of_type, tb.of_type
                continue
            break
        if is_leaf_type(ta) or is_leaf_type(tb):
            return ta is tb
        return True     # composite: the sub-selections are compared by the caller

    seen = set()

    def set_conflicts(fields):
        """fields: list of (parent, node, def) of ONE merged set."""
        by_name = {}
        for f in fields:
            by_name.setdefault(f[1].alias.value if f[1].alias else f[1].name.value, []).append(f)
        for group in by_name.values():
            for (pa, na, da), (pb, nb, db) in itertools.combinations(group, 2):
                if pair_conflict(pa, na, da, pb, nb, db, False):
                    return True
        return False

    def pair_conflict(pa, na, da, pb, nb, db, exclusive):
        key = (id(na), id(nb), id(pa), id(pb), exclusive)
        if key in seen or (key[1], key[0], key[3], key[2], exclusive) in seen:
            return False
        seen.add(key)
        exclusive = exclusive or (pa is not pb and is_object_type(pa) and is_object_type(pb))
        if not exclusive:
            if na.name.value != nb.name.value or args_of(na) != args_of(nb):
                return True
        if da is not None and db is not None and not same_shape(da.type, db.type):
            return True
        if na.selection_set and nb.selection_set:
            ta = get_named_type(da.type) if da is not None else None
            tb = get_named_type(db.type) if db is not None else None
            fa = collect(na.selection_set, ta, [], set())
            fb = collect(nb.selection_set, tb, [], set())
            by_a, by_b = {}, {}
            for f in fa:
                by_a.setdefault(f[1].alias.value if f[1].alias else f[1].name.value, []).append(f)
            for f in fb:
                by_b.setdefault(f[1].alias.value if f[1].alias else f[1].name.value, []).append(f)
            for name, ga in by_a.items():
                for x in ga:
                    for y in by_b.get(name, ()):
                        if x[1] is y[1] and x[0] is y[0]:
                            continue
                        if pair_conflict(x[0], x[1], x[2], y[0], y[1], y[2], exclusive):
                            return True
        return False

    def walk(sel_set, parent):
        if set_conflicts(collect(sel_set, parent, [], set())):
            return True
        for sel in sel_set.selections:
            if isinstance(sel, FieldNode) and sel.selection_set:
                d = field_def(parent, sel.name.value)
                if walk(sel.selection_set, get_named_type(d.type) if d is not None else None):
                    return True
            elif isinstance(sel, InlineFragmentNode):
                p = type_from_ast(schema, sel.type_condition) if sel.type_condition else parent
                if walk(sel.selection_set, p):
                    return True
        return False
    for d in doc.definitions:
        if isinstance(d, OperationDefinitionNode):
            if walk(d.selection_set, schema.query_type):
                return True
        elif isinstance(d, FragmentDefinitionNode):
            if walk(d.selection_set, type_from_ast(schema, d.type_condition)):
                return True
    return False


def search(seed=0, thorough=False, budget_s=420):
    import time
    from graphql import build_schema, parse, validate
    from graphql.validation import OverlappingFieldsCanBeMergedRule
    t0 = time.time()
    schema = build_schema(SCHEMA)
    items = []
    for k, atom in enumerate(ATOMS):
        items += wrappers(atom, k)
    items += [("...Cyc1", ""), ("...Cyc2", "")]
    rnd = random.Random(seed)
    combos = list(itertools.combinations(range(len(items)), 2))
    triples = [tuple(sorted(rnd.sample(range(len(items)), 3))) for _ in range(20000 if thorough else 1500)]
    n = 0
    # two sibling spreads with an unrelated spread between them (siblings that are not adjacent)
    NEUTRAL = ("...Neutral", "fragment Neutral on Pet { zz: name }")
    items.append(NEUTRAL)
    neutral = len(items) - 1
    spread_ix = [i for i, it_ in enumerate(items) if it_[0].startswith("...") and " " not in it_[0] and i != neutral]
    apart = [(i, neutral, j) for i, j in itertools.combinations(spread_ix, 2)]
    for combo in combos + apart + triples:
        if time.time() - t0 > budget_s:
            break
        sels = " ".join(items[i][0] for i in combo)
        fr = "\n".join(sorted({items[i][1] for i in combo if items[i][1]}))
        for root in ("pet", "catOrDog"):
            if root == "catOrDog" and any(not items[i][0].startswith("...") for i in combo):
                continue        # a union has no fields of its own
            text = "{ %s { %s } }\n%s\n%s" % (root, sels, fr, FRAGS)
            doc = parse(text)
            n += 1
            try:
                got = bool(validate(schema, doc, [OverlappingFieldsCanBeMergedRule]))
            except Exception as e:  # noqa: BLE001
                return {"document": text, "observed": f"validate raised {type(e).__name__}: {e}"}
            want = reference_conflict(schema, doc)
            if got != want:
                return {"document": text,
                        "observed": f"rule reports {'a' if got else 'no'} conflict, the specification's "
                                    f"FieldsInSetCanMerge finds {'one' if want else 'none'}"}
    return None
