"""C14 - field-merge validation accepts exactly what the specification accepts (partial)."""
from .common import A, gtypes_lemmas, run_native

LEVEL = "other"
EXPLANATION = (
    "Decides the mechanisms the property names: (1) PairSet and OrderedPairSet (the memo tables "
    "of compared fragment pairs) against an abstract view over a symbolic dict heap: add changes "
    "exactly the pair {a,b} (whole-view frame, representation invariant preserved), has(a,b,e) "
    "<=> present and (e or stored flag is non-exclusive) - a non-exclusive entry subsumes an "
    "exclusive query and not vice versa, symmetric in a,b; (2) do_types_conflict == not "
    "SameResponseShape on wrappers and leaves, for every type nesting; (3) MEMO-M1 of the "
    "per-selection-set cache: its keys are AST nodes with structural equality, so the container "
    "must be identity keyed (decided on the classes and the constructor of the current source); "
    "(4) the wiring of the decomposition: find_conflicts_within_selection_set, "
    "collect_conflicts_between_fields_and_fragment, collect_conflicts_between_fragments, "
    "find_conflicts_between_sub_selection_sets, collect_conflicts_within and collect_conflicts_between "
    "hand every callee the operands the decomposition needs (which field map meets which spread of "
    "which side, each pair of fields of one response name once, the exclusivity flag and the shared "
    "tables passed through, a conflict found is recorded); (5) find_conflict: names and arguments may "
    "differ only for parents known to be mutually exclusive (the flag, or two different object "
    "types), differing names / arguments / streams / response shapes each give a conflict and "
    "nothing else does; sort_field normalises every field value.")
UNVERIFIED = [
    "equivalence of the within/between decomposition with FieldsInSetCanMerge on expanded fragments: the "
    "wiring of every orchestration function and find_conflict's decisions are decided, the induction over "
    "the fragment graph is not; a bounded reference comparison (props/C14_ref.py) stands in",
    "same_arguments / same_streams / subfield_conflicts (assumed pure helpers of find_conflict)",
    "termination on cyclic fragment spreads (follows from the pair tables only together with the traversal, not decided)",
]
TRUSTED = []
ASSUMPTIONS = [A["A1"], A["A2"], A["A3"], A["A6"], A["A7"], A["ENGINE"],
               "string keys of PairSet are abstracted to a totally ordered set (only == and < are used)"]
LIFTERS = []

F8_WITNESS = r'''
from graphql import build_schema, parse, validate
from graphql.validation import OverlappingFieldsCanBeMergedRule
s = build_schema("""
type DogF { v: Int } type CatF { v: String }
type Dog { f: DogF } type Cat { f: CatF }
union Pet = Dog | Cat
type Query { pets: [Pet] }""")
q = '{ pets { ... on Dog { f { v } } ... on Cat { f { v } } } }'
for nl in (False, True):
    errs = validate(s, parse(q, no_location=nl), [OverlappingFieldsCanBeMergedRule])
    assert errs, f"conflict hidden with no_location={nl}"
'''


def extra_obligations(world, tier, seed):
    return gtypes_lemmas() + refmap_obligation(world)


def refmap_obligation(world):
    import ast
    out = []
    # MEMO-M1 for cached_fields_and_fragment_spreads
    mod, tree, _ = world.load_module("graphql.validation.rules.overlapping_fields_can_be_merged")
    from graphql.language.ast import SelectionSetNode
    from graphql.pyutils import RefMap
    structural = SelectionSetNode.__eq__ is not object.__eq__
    ctor = None
    for n in ast.walk(tree):
        if isinstance(n, (ast.Assign, ast.AnnAssign)):
            t = n.targets[0] if isinstance(n, ast.Assign) else n.target
            if isinstance(t, ast.Attribute) and t.attr == "cached_fields_and_fragment_spreads":
                ctor = n.value
    ok = False
    detail = "assignment of self.cached_fields_and_fragment_spreads not found"
    if ctor is not None:
        detail = ast.unparse(ctor)
        if isinstance(ctor, ast.Call) and isinstance(ctor.func, ast.Name):
            cls = getattr(mod, ctor.func.id, None)
            ok = isinstance(cls, type) and issubclass(cls, RefMap)
        if not structural:
            ok = True
    out.append({"func": "OverlappingFieldsCanBeMergedRule.__init__", "kind": "MEMO-M1",
                "text": "cache keyed by SelectionSetNode (structural ==) must be identity keyed",
                "status": "discharged" if ok else "refuted", "backend": "finite",
                "detail": f"key class eq structural={structural}; container={detail}",
                "model": None if ok else {"witness": "props.C14.F8_WITNESS"}})
    return out


def bounded_checks(tier, seed):
    """That the within / between / fragment decomposition covers every pair the specification
    compares is wired up by contracts but its induction is not mechanised: a reference written from
    the specification text stands in, bounded (props/C14_ref.py)."""
    import json
    code = ("import json\nfrom props.C14_ref import search\n"
            f"r = search(seed={int(seed)}, thorough={tier == 'thorough'!r})\n"
            "print('BOUNDED ' + json.dumps(r, default=str))")
    rc, outp = run_native(code, timeout=1500)
    res, ok = None, False
    for line in outp.splitlines():
        if line.startswith("BOUNDED "):
            res, ok = json.loads(line[8:]), True
    if not ok:
        raise RuntimeError(outp[-600:])
    return [{"id": "C14/bounded/fields-in-set-can-merge-reference",
             "function": "OverlappingFieldsCanBeMergedRule (validate)",
             "tool": "reference FieldsInSetCanMerge / SameResponseShape (fragments expanded) vs the rule, native",
             "bound": "one schema; documents { pet { A B [C] } } over 18 field atoms x up to 7 wrappers "
                      "(plain, inline fragments, spreads, nested, cyclic fragments): all pairs + "
                      + ("20000" if tier == "thorough" else "1500") + " seeded triples; no @stream, no fragment arguments",
             "failed": res is not None, "input": res, "output": outp[-1500:]}]


def native_checks(tier, seed):
    code, outp = run_native(F8_WITNESS)
    return [{"id": "C14/native/F8-structural-cache-witness", "failed": code != 0, "output": outp,
             "input": "{ pets { ... on Dog { f { v } } ... on Cat { f { v } } } } with no_location=True"}]
