"""Bounded stand-in for the stages of the request pipeline that are not under contract as a whole
(validate() with all specified rules, variable coercion, execution glue): run the public entry point
over a grammar-driven corpus and require the statement itself - a result object, never an exception.

BOUNDED, never counted as proved.  Bound: the documents of props/parser_replay.corpus() (two
kitchen-sink documents and 17 small ones; every truncation at a token boundary, single-token
deletions and substitutions) that parse, plus the documents of semantic_corpus() (fragment cycles
under every operation type and directive, unknown / duplicate definitions; always all of them), against two schemas, with five variable mappings (one with keys that are not strings inside input objects, one full of integers beyond the int->str digit limit); quick
runs every 4th candidate (seeded offset), thorough all.  Runs natively."""
SCHEMA_A = '''
directive @onField on FIELD
directive @onQuery(a: Int) on QUERY | MUTATION | SUBSCRIPTION | FRAGMENT_SPREAD | INLINE_FRAGMENT | FRAGMENT_DEFINITION | VARIABLE_DEFINITION
interface Node { id: ID! }
type User implements Node { id: ID! field2: Inner friends(first: Int, after: ComplexType): [User] }
type Inner { id: ID field1(first: Int, after: ComplexType): Inner }
input ComplexType { key: String, n: [Int!] = [1], inner: ComplexType }
enum Site { MOBILE DESKTOP }
type Story { id: ID likers: Likers likeSentence: Text }
type Likers { count: Int }
type Text { text: String }
type Like { story: Story }
input StoryLikeSubscribeInput { id: ID! }
type Friend { foo(size: Int, bar: Int, obj: ComplexType, n: Int, t: Boolean, f: Boolean, e: Site, fl: Float): String }
union Feed = Story | User
type Query { friend: Friend feed: Feed feeds: [Feed] node(id: [ID]): Node whoever123is: Node unnamed(truthy: Boolean, falsy: Boolean, nullish: Int): String query: String a: String f(a: [Int], b: ComplexType, c: ComplexType): String }
type Mutation { like(story: Int): Like }
type Subscription { storyLikeSubscribe(input: StoryLikeSubscribeInput): Like }
'''
HUGE = 10 ** 5000      # beyond the interpreter's int -> str digit limit (4300)
SCHEMA_B = "type Query { a: String b: B } type B { c: [B!]! d(x: Int = 1): Int }"


def semantic_corpus():
    """Documents that parse but are semantically pathological; never sampled, always all of them:
    fragment cycles (self, mutual, through inline fragments and nested fields) under every operation
    type, with and without @defer / @stream / @skip, unknown fragments and types, duplicates."""
    roots = {"query": "node(id: 1) { id }", "mutation": "like(story: 1) { story { id } }",
             "subscription": "storyLikeSubscribe(input: {id: 1}) { story { id } }"}
    types = {"query": "Query", "mutation": "Mutation", "subscription": "Subscription"}
    for op, field in roots.items():
        t = types[op]
        for d in ("", "@defer", "@skip(if: false)", "@onQuery"):
            yield f"{op} {{ ...A {d} }} fragment A on {t} {{ {field} ...A {d} }}"
            yield f"{op} {{ ...A {d} }} fragment A on {t} {{ ...B }} fragment B on {t} {{ {field} ...A {d} }}"
            yield f"{op} {{ ...A }} fragment A on {t} {{ ... on {t} {d} {{ ...A {field} }} }}"
            yield f"{op} {{ ... {d} {{ ...A }} }} fragment A on {t} {{ ... {{ ... {{ ...A }} }} {field} }}"
            yield f"{op} {{ ...A ...A {d} ...Missing }} fragment A on {t} {{ {field} }}"
            yield f"{op} {{ ...A }} fragment A on Nope {{ ...A {d} }}"
            yield f"{op} Q {{ {field} }} {op} Q {{ ...A {d} }} fragment A on {t} {{ {field} }} fragment A on {t} {{ ...A }}"
        yield f"{op} {{ {field.replace('{ id }', '{ ...N }').replace('{ story { id } }', '{ ...N }')} }} " \
              f"fragment N on Node {{ id ... on User {{ friends @stream {{ ...N }} }} }}"
    # every directive on meta fields and ordinary fields under object / interface / union parents
    for parent in ("node", "feed", "feeds", "whoever123is", "node(id: 1)"):
        for fld in ("__typename", "... on User { __typename D id D friends D { id } }", "id", "... on Story { likers D { count D } }"):
            for d in ("@stream", "@stream(initialCount: 1)", "@stream(if: false, label: \"l\")", "@defer", "@defer(label: \"x\")",
                      "@skip(if: true)", "@include(if: $x)", "@onField", "@deprecated", "@specifiedBy(url: \"u\")", "@oneOf"):
                yield "{ %s { %s } }" % (parent, fld.replace("D", d) if "D" in fld.replace("Dog", "") else fld + " " + d)
    for d in ("@stream", "@defer", "@skip(if: true)", "@onField"):
        yield "{ __typename %s __schema %s { queryType %s { name %s } } __type(name: \"Feed\") %s { possibleTypes %s { name } } }" % ((d,) * 6)
        yield "mutation { __typename %s like(story: 1) %s { story %s { id } } }" % ((d,) * 3)
        yield "subscription { storyLikeSubscribe(input: {id: 1}) %s { story %s { id } } }" % ((d,) * 2)
    yield "{ node { ...U } } fragment U on User { friends { ...U } friends @stream(initialCount: 0) { ...U } }"
    # valid documents whose variables are coerced (the variable mappings of VARIABLES meet every input kind)
    yield "query ($v: Int) { unnamed(nullish: $v) }"
    yield "query ($foo: ComplexType, $b: [ID]) { f(b: $foo) node(id: $b) { id } }"
    yield "query ($v: Int, $x: Float, $site: Site, $a: Boolean, $foo: ComplexType) { friend { foo(size: $v, fl: $x, e: $site, t: $a, obj: $foo) } }"
    yield "query ($v: [Int], $a: String = \"d\", $x: ID) { f(a: $v) node(id: [$x]) { id } unnamed(truthy: true) @include(if: true) }"
    yield "subscription ($input: StoryLikeSubscribeInput) { storyLikeSubscribe(input: $input) { story { id } } }"
    # every operation shape with and without name, variables and directives (short form included)
    for op, body in (("query", "{ a }"), ("mutation", "{ like(story: 1) { story { id } } }"),
                     ("subscription", "{ storyLikeSubscribe(input: {id: 1}) { story { id } } }")):
        for name in ("", " N"):
            for vars_ in ("", "($v: Int)", "($v: Int = 1 @onQuery)"):
                for d in ("", " @onQuery", " @unknown", " @skip(if: true)", " @onQuery @onQuery", " @onQuery(a: \"x\")"):
                    yield f"{op}{name}{vars_}{d} {body}"
    # string values whose printed form differs from their source form (block strings with leading tab or
    # space, trailing quote or backslash, long single lines, escapes)
    TAB, BS, Q = chr(9), chr(92), chr(34)
    T3 = Q * 3
    for sv in (T3 + TAB + "say " + BS + T3 + "hi" + T3, T3 + TAB + "x" * 75 + T3, T3 + " lead" + T3,
               T3 + TAB + "ends with a quote" + BS + T3 + T3, T3 + "a" + chr(10) + "  b" + chr(10) + " c" + T3,
               T3 + TAB + "say " + Q + "hi" + Q + " " + T3, Q + BS + "u2029" + Q, Q + chr(0x2029) + Q, Q + chr(0x2028) + BS + "t" + Q,
               Q + Q):
        yield "{ unnamed(nullish: %s) @onField f(a: [%s]) }" % (sv, sv)
        yield "{ a @stream(label: %s) b: a @stream(label: %s) }" % (sv, sv.replace(TAB, "", 1))
    # names and numbers with digit runs beyond the interpreter's int <-> str digit limit (4300)
    run = "7" * 5000
    yield "{ f(b: {k%s: 1}) f(b: {k%sx: 1}) }" % (run, run)
    yield "{ k%s: a k%s: query }" % (run, run)
    yield "{ f(a: [%s]) unnamed(nullish: %s) }" % (run, run)
    yield "{ f(a: [1.%s]) f(a: [1e%s]) }" % (run, run[:400])
    yield "query ($k%s: Int = %s) { unnamed(nullish: $k%s) }" % (run, run, run)
    # names that later stages look up in tables / Enum classes without a guard of their own
    for nm in ("mro", "__doc__", "__members__", "name", "value", "_member_map_", "QUERY", "query"):
        yield "directive @d on %s\n{ a }" % nm
        yield "{ a @%s }" % nm
        yield "{ %s: a %s }" % (nm, nm)
        yield "query %s ($%s: Int) { unnamed(nullish: $%s) @include(if: true) }" % (nm, nm, nm)
        yield "%s { a }" % nm
    yield "query ($a: Int = $a) { unnamed(nullish: $a) }"
    yield "query ($a: ComplexType = {inner: $a}) { f(b: $a) }"
    yield "{ f(b: {inner: {inner: {inner: {n: [1, null]}}}}) }"
    yield "{ __schema { types { name fields { type { ofType { ofType { name } } } } } } __type(name: \"Query\") { name } }"
    yield "{ __typename ...T } fragment T on Query { __typename ...T }"


VARIABLES = [None, {}, {"foo": {HUGE: 1, "key": "k"}, "b": [HUGE], "v": HUGE},
             {"foo": {1: "k", "key": "k"}, "input": {None: 1, "id": 1}, "v": {}, "b": {("t",): 1}, "x": {b"id": 2}},
             {"foo": {"key": HUGE, "n": [HUGE]}, "site": HUGE, "v": HUGE, "input": {"id": HUGE},
                        "a": HUGE, "b": [HUGE], "x": HUGE}, {"foo": {"key": "k", "extra": 1}, "site": "MOBILE", "v": 7, "input": {"id": 1},
                        "a": "x", "b": [None]}]


def search(seed=0, thorough=False, budget_s=300):
    import time
    from graphql import build_schema, graphql_sync, parse, validate, GraphQLError, ExecutionResult
    from .parser_replay import corpus
    t0 = time.time()
    schemas = [build_schema(SCHEMA_A), build_schema(SCHEMA_B)]
    step = 1 if thorough else 4
    n = 0
    import itertools
    always = list(semantic_corpus())
    for k, text in enumerate(itertools.chain(always, corpus())):
        if k >= len(always) and (k + seed) % step:
            continue
        if time.time() - t0 > budget_s:
            break
        try:
            doc = parse(text)
        except GraphQLError:
            continue
        except RecursionError:
            continue
        n += 1
        for schema in schemas:
            try:
                errs = validate(schema, doc)
                assert isinstance(errs, list) and all(isinstance(e, GraphQLError) for e in errs)
            except Exception as e:  # noqa: BLE001
                return {"entry": "validate", "input": text[:400],
                        "observed": f"{type(e).__name__}: {e}"}
            for vv in VARIABLES:
                try:
                    r = graphql_sync(schema, text, variable_values=vv)
                    assert isinstance(r, ExecutionResult)
                    f = r.formatted
                    assert r.errors is None or (isinstance(r.errors, list) and r.errors)
                    assert "data" in f or "errors" in f
                    for e in f.get("errors", ()):
                        assert isinstance(e.get("message"), str)
                        assert isinstance(e.get("extensions", {}), dict)
                except Exception as e:  # noqa: BLE001
                    return {"entry": "graphql_sync", "input": text[:400],
                            "variables": "the mapping of 5000-digit integers (VARIABLES with 5000-digit integers)" if vv and vv.get("v") == HUGE else repr(vv)[:300],
                            "observed": f"{type(e).__name__}: {e}"}
    return None
