"""Bounded stand-in for the stages of the request pipeline that are not under contract as a whole
(validate() with all specified rules, variable coercion, execution glue): run the public entry point
over a grammar-driven corpus and require the statement itself - a result object, never an exception.

BOUNDED, never counted as proved.  Bound: the documents of props/parser_replay.corpus() (two
kitchen-sink documents and 17 small ones; every truncation at a token boundary, single-token
deletions and substitutions) that parse, against two schemas, with three variable mappings; quick
runs every 4th candidate (seeded offset), thorough all.  Runs natively."""
SCHEMA_A = '''
directive @onField on FIELD
directive @onQuery(a: Int) on QUERY | MUTATION | SUBSCRIPTION | FRAGMENT_SPREAD | INLINE_FRAGMENT | FRAGMENT_DEFINITION | VARIABLE_DEFINITION
interface Node { id: ID! }
type User implements Node { id: ID! field2: Inner friends(first: Int, after: ComplexType): [User] }
type Inner { id: ID field1(first: Int, after: ComplexType): Inner }
input ComplexType { key: String, n: [Int!] = [1], inner: ComplexType }
enum Site { MOBILE DESKTOP }
type Story { id: ID likers: Likers likeSentence: Text }
type Likers { count: Int }
type Text { text: String }
type Like { story: Story }
input StoryLikeSubscribeInput { id: ID! }
type Friend { foo(size: Int, bar: Int, obj: ComplexType, n: Int, t: Boolean, f: Boolean, e: Site, fl: Float): String }
type Query { node(id: [ID]): Node whoever123is: Node unnamed(truthy: Boolean, falsy: Boolean, nullish: Int): String query: String a: String f(a: [Int], b: ComplexType, c: ComplexType): String }
type Mutation { like(story: Int): Like }
type Subscription { storyLikeSubscribe(input: StoryLikeSubscribeInput): Like }
'''
SCHEMA_B = "type Query { a: String b: B } type B { c: [B!]! d(x: Int = 1): Int }"
VARIABLES = [None, {}, {"foo": {"key": "k", "extra": 1}, "site": "MOBILE", "v": 7, "input": {"id": 1},
                        "a": "x", "b": [None]}]


def search(seed=0, thorough=False, budget_s=300):
    import time
    from graphql import build_schema, graphql_sync, parse, validate, GraphQLError, ExecutionResult
    from .parser_replay import corpus
    t0 = time.time()
    schemas = [build_schema(SCHEMA_A), build_schema(SCHEMA_B)]
    step = 1 if thorough else 4
    n = 0
    for k, text in enumerate(corpus()):
        if (k + seed) % step:
            continue
        if time.time() - t0 > budget_s:
            break
        try:
            doc = parse(text)
        except GraphQLError:
            continue
        except RecursionError:
            continue
        n += 1
        for schema in schemas:
            try:
                errs = validate(schema, doc)
                assert isinstance(errs, list) and all(isinstance(e, GraphQLError) for e in errs)
            except Exception as e:  # noqa: BLE001
                return {"entry": "validate", "input": text[:400],
                        "observed": f"{type(e).__name__}: {e}"}
            for vv in VARIABLES:
                try:
                    r = graphql_sync(schema, text, variable_values=vv)
                    assert isinstance(r, ExecutionResult)
                    f = r.formatted
                    assert r.errors is None or (isinstance(r.errors, list) and r.errors)
                    assert "data" in f or "errors" in f
                    for e in f.get("errors", ()):
                        assert isinstance(e.get("message"), str)
                        assert isinstance(e.get("extensions", {}), dict)
                except Exception as e:  # noqa: BLE001
                    return {"entry": "graphql_sync", "input": text[:400], "variables": vv,
                            "observed": f"{type(e).__name__}: {e}"}
    return None
