"""C12 - validation is a deterministic, compositional function of document and schema (narrow)."""
import ast

from .common import A, run_native

LEVEL = "other"
EXPLANATION = (
    "Decides the mechanisms the anchors name. (1) ParallelVisitor's enter/leave closures, "
    "verified for any number of visitors and any (havocked) visitor results: a control result "
    "(SKIP/False/BREAK/True) of one visitor is never returned to the traversal, enter leaves the "
    "entry of a visitor that is skipping or has stopped untouched and only ever sets an entry to "
    "the current node or BREAK; leave only resets an entry that is exactly (identity) the node "
    "being left and BREAK sticks - the isolation facts from which 'each rule sees the calls it "
    "would see alone' follows. (2) validate()'s error limit callback: appends iff below the limit, "
    "otherwise raises the abort error without appending, so the result has at most n entries plus "
    "the abort notice and is built as a prefix. (3) finite facts of the current source: the "
    "traversal table handed to visit() is QUERY_DOCUMENT_KEYS minus 'description' for every kind; "
    "validate() stores nothing into the schema or the document; `errors` is only touched by the "
    "callback, the abort handler and the return. (4) MEMO-M3 of the variable-usage caches of "
    "ValidationContext: a list taken from one cache is not mutated in place.")
UNVERIFIED = [
    "independence of the individual rules and of TypeInfo's stack discipline; determinism of the traversal order",
    "that validate() returns a prefix of the unlimited list (needs the traversal to be deterministic)",
    "the other context caches (fragments, spreads): their keys are nodes with structural equality and the cached values are structural too (argued, not proved)",
]
TRUSTED = []
ASSUMPTIONS = [A["A1"], A["A2"], A["A3"], A["A5"], A["ENGINE"]]
LIFTERS = []

MUTATORS = {"extend", "append", "insert", "pop", "remove", "clear", "sort", "reverse"}


def _finite(func, kind, text, ok, detail=""):
    return {"func": func, "kind": kind, "text": text, "backend": "finite",
            "status": "discharged" if ok else "refuted", "detail": detail,
            "model": None if ok else {"detail": detail}}


MEMO_MODULES = {"graphql.type.schema", "graphql.validation.validation_context"}


def memo_key_obligations():
    """Every memo of the form  v = self.X.get(K) ... self.X[K2] = ...  (the schema's sub-type and
    implementation maps, the validation context's caches, ...) must be filled under the key it is
    read with: K and K2 are the same expression.  A memo filled under another key answers later
    questions with the result of a different one - validation then depends on what was validated
    before.  Finite, syntactic, over every function of graphql.type.schema and
    graphql.validation.validation_context that has this shape."""
    import os
    from pyvc.world import SRC
    out = []
    for root, _dirs, files in os.walk(os.path.join(SRC, "graphql")):
        for f in sorted(files):
            if not f.endswith(".py"):
                continue
            path = os.path.join(root, f)
            rel = os.path.relpath(path, SRC)[:-3].replace(os.sep, ".")
            if rel not in MEMO_MODULES:
                continue      # the memos validation reads: schema maps and the context's caches
            tree = ast.parse(open(path, encoding="utf-8").read())
            for fn in ast.walk(tree):
                if not isinstance(fn, (ast.FunctionDef, ast.AsyncFunctionDef)):
                    continue
                reads, writes = {}, {}
                for n in ast.walk(fn):
                    if isinstance(n, ast.Call) and isinstance(n.func, ast.Attribute) \
                            and n.func.attr == "get" and isinstance(n.func.value, ast.Attribute) \
                            and isinstance(n.func.value.value, ast.Name) \
                            and n.func.value.value.id == "self" and n.args:
                        reads.setdefault(n.func.value.attr, []).append(ast.unparse(n.args[0]))
                    if isinstance(n, ast.Subscript) and isinstance(n.ctx, ast.Store) \
                            and isinstance(n.value, ast.Attribute) \
                            and isinstance(n.value.value, ast.Name) and n.value.value.id == "self":
                        writes.setdefault(n.value.attr, []).append(ast.unparse(n.slice))
                for attr in sorted(set(reads) & set(writes)):
                    ok = set(reads[attr]) == set(writes[attr]) and len(set(reads[attr])) == 1
                    out.append(_finite(f"{rel}.{fn.name}", "MEMO-KEY",
                                       f"self.{attr} is filled under the key it is read with",
                                       ok, f"read with {reads[attr]}, filled under {writes[attr]}"))
    return out


def rule_state_obligations(world):
    """Validating twice gives the same answer only if a rule keeps no state between runs: every
    specified rule class (and its bases inside the library) must not define mutable class-level
    containers - instances are created per validation, class attributes are not.  Finite, over the
    classes of the current tree."""
    from graphql.validation import specified_rules
    from graphql.validation.specified_rules import specified_sdl_rules
    out = []
    seen = set()
    for rule in tuple(specified_rules) + tuple(specified_sdl_rules):
        for k in rule.__mro__:
            if k in seen or not k.__module__.startswith("graphql."):
                continue
            seen.add(k)
            bad = sorted(n for n, v in vars(k).items()
                         if isinstance(v, (list, dict, set, bytearray)) and not n.startswith("__"))
            out.append(_finite(f"{k.__module__}.{k.__name__}", "FRAME",
                               "no mutable class-level container (state would survive a validation)",
                               not bad, ", ".join(bad)))
    return out


def extra_obligations(world, tier, seed):
    out = []
    mod, tree, _ = world.load_module("graphql.validation.validate")
    from graphql.language.ast import QUERY_DOCUMENT_KEYS
    table = mod.query_document_keys_to_validate
    ok = set(table) == set(QUERY_DOCUMENT_KEYS) and all(
        table[k] == tuple(x for x in QUERY_DOCUMENT_KEYS[k] if x != "description") for k in table)
    out.append(_finite("graphql.validation.validate", "FINITE",
                       "query_document_keys_to_validate == QUERY_DOCUMENT_KEYS minus 'description' (every kind)",
                       ok))
    out += rule_state_obligations(world)
    out += memo_key_obligations()
    fn = world.find_def(tree, "validate")
    visit_calls = [n for n in ast.walk(fn) if isinstance(n, ast.Call)
                   and isinstance(n.func, ast.Name) and n.func.id == "visit"]
    ok = len(visit_calls) == 1 and len(visit_calls[0].args) >= 3 and isinstance(
        visit_calls[0].args[2], ast.Name) and visit_calls[0].args[2].id == "query_document_keys_to_validate"
    out.append(_finite("graphql.validation.validate.validate", "FINITE",
                       "visit() is called once, with query_document_keys_to_validate as key table", ok))
    stores = [ast.unparse(n) for n in ast.walk(fn) if isinstance(n, (ast.Attribute, ast.Subscript))
              and isinstance(n.ctx, (ast.Store, ast.Del)) and any(
                  isinstance(x, ast.Name) and x.id in ("schema", "document_ast") for x in ast.walk(n))]
    out.append(_finite("graphql.validation.validate.validate", "FRAME",
                       "no store into schema or document_ast", not stores, ", ".join(stores)))
    # `errors` occurrences: definition, on_error, abort handler, return
    uses = []
    for n in ast.walk(fn):
        if isinstance(n, ast.Name) and n.id == "errors":
            uses.append(n.lineno)
    inner = world.find_def(tree, "validate.on_error")
    inner_lines = set(range(inner.lineno, inner.end_lineno + 1)) if inner else set()
    outside = []
    for n in ast.walk(fn):
        if isinstance(n, ast.Call) and isinstance(n.func, ast.Attribute) and isinstance(
                n.func.value, ast.Name) and n.func.value.id == "errors" and n.lineno not in inner_lines:
            arg = ast.unparse(n.args[0]) if n.args else ""
            if not (n.func.attr == "append" and arg == "validation_aborted_error"):
                outside.append(ast.unparse(n))
    out.append(_finite("graphql.validation.validate.validate", "FRAME",
                       "errors is mutated only by on_error and by appending the abort notice",
                       not outside, ", ".join(outside)))
    # MEMO-M3: a list obtained from the per-node cache must not be mutated in place
    cmod, ctree, _ = world.load_module("graphql.validation.validation_context")
    g = world.find_def(ctree, "ValidationContext.get_recursive_variable_usages")
    tainted, bad = set(), []
    aliases = {"get_variable_usages"}
    for st in ast.walk(g):
        if isinstance(st, ast.Assign) and isinstance(st.value, ast.Attribute) \
                and st.value.attr == "get_variable_usages":
            aliases |= {t.id for t in st.targets if isinstance(t, ast.Name)}
    for st in g.body[0].body if isinstance(g.body[0], ast.If) else []:
        pass
    for st in ast.walk(g):
        if isinstance(st, ast.Assign) and isinstance(st.value, ast.Call):
            f = st.value.func
            name = f.id if isinstance(f, ast.Name) else (f.attr if isinstance(f, ast.Attribute) else None)
            if name in aliases:
                tainted |= {t.id for t in st.targets if isinstance(t, ast.Name)}
    for st in ast.walk(g):
        if isinstance(st, ast.Call) and isinstance(st.func, ast.Attribute) and st.func.attr in MUTATORS \
                and isinstance(st.func.value, ast.Name) and st.func.value.id in tainted:
            bad.append(ast.unparse(st))
        if isinstance(st, ast.AugAssign) and isinstance(st.target, ast.Name) and st.target.id in tainted:
            bad.append(ast.unparse(st))
    out.append(_finite("ValidationContext.get_recursive_variable_usages", "MEMO-M3",
                       "the list cached by get_variable_usages is not mutated in place",
                       not bad, "; ".join(bad)))
    # MEMO: the recursive result is stored in _recursive_variable_usages (the cache that is read)
    reads = [n for n in ast.walk(g) if isinstance(n, ast.Call) and isinstance(n.func, ast.Attribute)
             and n.func.attr == "get" and isinstance(n.func.value, ast.Attribute)]
    writes = [n for n in ast.walk(g) if isinstance(n, ast.Subscript) and isinstance(n.ctx, ast.Store)
              and isinstance(n.value, ast.Attribute)]
    ok = len(reads) == 1 and len(writes) == 1 and reads[0].func.value.attr == writes[0].value.attr
    out.append(_finite("ValidationContext.get_recursive_variable_usages", "MEMO-M1",
                       "the memo that is read is the memo that is filled", ok,
                       f"reads {[r.func.value.attr for r in reads]} writes {[x.value.attr for x in writes]}"))
    return out


WITNESS_M3 = r'''
from graphql import build_schema, parse, validate
from graphql.validation import ValidationRule, NoUndefinedVariablesRule
schema = build_schema("type Query { f(a: Int): Int }")
doc = parse("query Q($x: Int) { f(a: $x) ...F } fragment F on Query { g: f(a: $y) h: f(a: $z) }")
seen = {}
class Count(ValidationRule):
    def leave_operation_definition(self, node, *_):
        seen[self.tag] = len(self.context.get_variable_usages(node))
class A(Count): tag = "alone"
validate(schema, doc, [A])
class B(Count): tag = "with"
validate(schema, doc, [NoUndefinedVariablesRule, B])
assert seen["alone"] == seen["with"], seen
'''


def native_checks(tier, seed):
    rc, outp = run_native(WITNESS_M3)
    return [{"id": "C12/native/F12-variable-usages-cache-mutated", "failed": rc != 0,
             "output": outp, "input": WITNESS_M3.strip()}]
