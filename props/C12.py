"""C12 - validation is a deterministic, compositional function of document and schema (narrow)."""
import ast

from .common import A, run_native

LEVEL = "other"
EXPLANATION = (
    "Decides the mechanisms the anchors name. (1) ParallelVisitor's enter/leave closures, "
    "verified for any number of visitors and any (havocked) visitor results: a control result "
    "(SKIP/False/BREAK/True) of one visitor is never returned to the traversal, enter leaves the "
    "entry of a visitor that is skipping or has stopped untouched and only ever sets an entry to "
    "the current node or BREAK; leave only resets an entry that is exactly (identity) the node "
    "being left and BREAK sticks - the isolation facts from which 'each rule sees the calls it "
    "would see alone' follows. (2) validate()'s error limit callback: appends iff below the limit, "
    "otherwise raises the abort error without appending, so the result has at most n entries plus "
    "the abort notice and is built as a prefix. (3) finite facts of the current source: the "
    "traversal table handed to visit() is QUERY_DOCUMENT_KEYS minus 'description' for every kind; "
    "validate() stores nothing into the schema or the document; `errors` is only touched by the "
    "callback, the abort handler and the return. (4) MEMO-M3 of the variable-usage caches of "
    "ValidationContext: a list taken from one cache is not mutated in place.")
UNVERIFIED = [
    "independence of the individual rules and of TypeInfo's stack discipline; determinism of the traversal order",
    "that validate() returns a prefix of the unlimited list, the union of the rules run alone, reprint invariance "
    "(BOUNDED stand-in props/C12_ref.py over a corpus; deductively only: at most n errors plus the notice, and no "
    "handler inside the rules swallows the abort that report_error raises)",
    "the other context caches (fragments, spreads): their keys are nodes with structural equality and the cached values are structural too (argued, not proved)",
]
TRUSTED = []
ASSUMPTIONS = [A["A1"], A["A2"], A["A3"], A["A5"], A["ENGINE"]]
LIFTERS = []

MUTATORS = {"extend", "append", "insert", "pop", "remove", "clear", "sort", "reverse"}


def _finite(func, kind, text, ok, detail=""):
    return {"func": func, "kind": kind, "text": text, "backend": "finite",
            "status": "discharged" if ok else "refuted", "detail": detail,
            "model": None if ok else {"detail": detail}}


MEMO_MODULES = {"graphql.type.schema", "graphql.validation.validation_context"}


def memo_key_obligations():
    """Every memo of the form  v = self.X.get(K) ... self.X[K2] = ...  (the schema's sub-type and
    implementation maps, the validation context's caches, ...) must be filled under the key it is
    read with: K and K2 are the same expression.  A memo filled under another key answers later
    questions with the result of a different one - validation then depends on what was validated
    before.  Finite, syntactic, over every function of graphql.type.schema and
    graphql.validation.validation_context that has this shape."""
    import os
    from pyvc.world import SRC
    out = []
    for root, _dirs, files in os.walk(os.path.join(SRC, "graphql")):
        for f in sorted(files):
            if not f.endswith(".py"):
                continue
            path = os.path.join(root, f)
            rel = os.path.relpath(path, SRC)[:-3].replace(os.sep, ".")
            if rel not in MEMO_MODULES:
                continue      # the memos validation reads: schema maps and the context's caches
            tree = ast.parse(open(path, encoding="utf-8").read())
            for fn in ast.walk(tree):
                if not isinstance(fn, (ast.FunctionDef, ast.AsyncFunctionDef)):
                    continue
                reads, writes = {}, {}
                for n in ast.walk(fn):
                    if isinstance(n, ast.Call) and isinstance(n.func, ast.Attribute) \
                            and n.func.attr == "get" and isinstance(n.func.value, ast.Attribute) \
                            and isinstance(n.func.value.value, ast.Name) \
                            and n.func.value.value.id == "self" and n.args:
                        reads.setdefault(n.func.value.attr, []).append(ast.unparse(n.args[0]))
                    if isinstance(n, ast.Subscript) and isinstance(n.ctx, ast.Store) \
                            and isinstance(n.value, ast.Attribute) \
                            and isinstance(n.value.value, ast.Name) and n.value.value.id == "self":
                        writes.setdefault(n.value.attr, []).append(ast.unparse(n.slice))
                params = {a.arg for a in fn.args.args + fn.args.kwonlyargs} - {"self"}
                # simple aliases `k = <expr>` (assigned once) are looked through
                assigned = {}
                for n in ast.walk(fn):
                    if isinstance(n, ast.Assign) and len(n.targets) == 1 and isinstance(n.targets[0], ast.Name):
                        assigned.setdefault(n.targets[0].id, []).append(ast.unparse(n.value))
                for attr in sorted(set(reads) & set(writes)):
                    # M1 (determinacy): the key must determine the argument the cached result was computed
                    # from - it is that parameter itself (AST nodes: the node object), or, for the schema's
                    # maps, the name of a type parameter (type names are unique within a schema, A_TYPES).
                    # A key derived otherwise (e.g. the *name* of a fragment definition: two definitions may
                    # share a name) lets one argument answer for another.
                    keys = set(reads[attr]) | set(writes[attr])
                    resolved = set()
                    for k in keys:
                        while k in assigned and len(assigned[k]) == 1 and k not in params:
                            k = assigned[k][0]
                        resolved.add(k)
                    def allowed(k):
                        if k in params or (rel == "graphql.type.schema" and k.endswith(".name") and k[:-5] in params):
                            return True
                        try:
                            t = ast.parse(k, mode="eval").body
                        except SyntaxError:
                            return False
                        # a tuple of such components determines each of them
                        return isinstance(t, ast.Tuple) and bool(t.elts) and all(allowed(ast.unparse(e)) for e in t.elts)
                    ok1 = all(allowed(k) for k in resolved)
                    out.append(_finite(f"{rel}.{fn.name}", "MEMO-M1",
                                       f"the key of self.{attr} determines the argument it caches for",
                                       ok1, f"keys {sorted(resolved)}, parameters {sorted(params)}"))
                    ok = set(reads[attr]) == set(writes[attr]) and len(set(reads[attr])) == 1
                    out.append(_finite(f"{rel}.{fn.name}", "MEMO-KEY",
                                       f"self.{attr} is filled under the key it is read with",
                                       ok, f"read with {reads[attr]}, filled under {writes[attr]}"))
    return out


def rule_state_obligations(world):
    """Validating twice gives the same answer only if a rule keeps no state between runs: every
    specified rule class (and its bases inside the library) must not define mutable class-level
    containers - instances are created per validation, class attributes are not.  Finite, over the
    classes of the current tree."""
    from graphql.validation import specified_rules
    from graphql.validation.specified_rules import specified_sdl_rules
    out = []
    seen = set()
    for rule in tuple(specified_rules) + tuple(specified_sdl_rules):
        for k in rule.__mro__:
            if k in seen or not k.__module__.startswith("graphql."):
                continue
            seen.add(k)
            bad = sorted(n for n, v in vars(k).items()
                         if isinstance(v, (list, dict, set, bytearray)) and not n.startswith("__"))
            out.append(_finite(f"{k.__module__}.{k.__name__}", "FRAME",
                               "no mutable class-level container (state would survive a validation)",
                               not bad, ", ".join(bad)))
    return out


def abort_propagates_obligations(world):
    """The error limit works by an exception: the callback handed to the rules raises
    ValidationAbortedError (a GraphQLError) out of report_error, and validate() catches it.  That only
    works if nothing in between swallows it: in every function of graphql/validation/rules/*.py and
    validation_context.py, a `try` whose body can report an error (a call of report_error / on_error,
    directly or through a function of the same module that does) must not have a handler that
    catches GraphQLError or one of its bases without re-raising.  Finite, syntactic, over the modules
    of the current tree; one obligation per function that contains a `try`."""
    import importlib
    import pkgutil
    import graphql.validation.rules as pkg
    mods = ["graphql.validation.validation_context", "graphql.validation.validate"] + sorted(
        m.name for m in pkgutil.iter_modules(pkg.__path__, pkg.__name__ + ".") if not m.ispkg)
    CATCHES = {"GraphQLError", "Exception", "BaseException", "ValidationAbortedError"}
    out = []
    for name in mods:
        importlib.import_module(name)
        _m, tree, _ = world.load_module(name)
        funcs = {n.name: n for n in ast.walk(tree) if isinstance(n, (ast.FunctionDef, ast.AsyncFunctionDef))}

        def reports(node, seen=()):
            for c in ast.walk(node):
                if isinstance(c, ast.Call):
                    f = c.func
                    nm = f.attr if isinstance(f, ast.Attribute) else (f.id if isinstance(f, ast.Name) else None)
                    if nm in ("report_error", "on_error"):
                        return True
                    if nm in funcs and nm not in seen and reports(funcs[nm], seen + (nm,)):
                        return True
            return False
        for fname, fn in sorted(funcs.items()):
            tries = [t for t in ast.walk(fn) if isinstance(t, ast.Try)]
            if not tries:
                continue
            bad = []
            for t in tries:
                body = ast.Module(body=t.body, type_ignores=[])
                if not reports(body):
                    continue
                for h in t.handlers:
                    names = set()
                    if h.type is None:
                        names = {"BaseException"}
                    else:
                        for x in ast.walk(h.type):
                            if isinstance(x, ast.Name):
                                names.add(x.id)
                            elif isinstance(x, ast.Attribute):
                                names.add(x.attr)
                    reraises = any(isinstance(x, ast.Raise) and x.exc is None for x in ast.walk(
                        ast.Module(body=h.body, type_ignores=[])))
                    if names & CATCHES and not reraises and name != "graphql.validation.validate":
                        bad.append(f"line {t.lineno}: except {sorted(names & CATCHES)[0]}")
            if name == "graphql.validation.validate":
                continue     # validate() itself is where the abort is meant to be caught (its contract)
            out.append(_finite(f"{name}.{fname}", "FRAME",
                               "no handler swallows the abort raised by report_error inside its try body "
                               "(the error limit must reach validate())", not bad, "; ".join(bad)))
    return out


def extra_obligations(world, tier, seed):
    out = []
    out += abort_propagates_obligations(world)
    # the overlapping-fields cache must be keyed by node identity: with structural keys two equal
    # selection sets under different parents share an entry and the verdict depends on whether the
    # document carries locations (reprinting / no_location would change the messages)
    from .C14 import refmap_obligation
    out += refmap_obligation(world)
    mod, tree, _ = world.load_module("graphql.validation.validate")
    from graphql.language.ast import QUERY_DOCUMENT_KEYS
    table = mod.query_document_keys_to_validate
    ok = set(table) == set(QUERY_DOCUMENT_KEYS) and all(
        table[k] == tuple(x for x in QUERY_DOCUMENT_KEYS[k] if x != "description") for k in table)
    out.append(_finite("graphql.validation.validate", "FINITE",
                       "query_document_keys_to_validate == QUERY_DOCUMENT_KEYS minus 'description' (every kind)",
                       ok))
    out += rule_state_obligations(world)
    out += memo_key_obligations()
    fn = world.find_def(tree, "validate")
    visit_calls = [n for n in ast.walk(fn) if isinstance(n, ast.Call)
                   and isinstance(n.func, ast.Name) and n.func.id == "visit"]
    ok = len(visit_calls) == 1 and len(visit_calls[0].args) >= 3 and isinstance(
        visit_calls[0].args[2], ast.Name) and visit_calls[0].args[2].id == "query_document_keys_to_validate"
    out.append(_finite("graphql.validation.validate.validate", "FINITE",
                       "visit() is called once, with query_document_keys_to_validate as key table", ok))
    stores = [ast.unparse(n) for n in ast.walk(fn) if isinstance(n, (ast.Attribute, ast.Subscript))
              and isinstance(n.ctx, (ast.Store, ast.Del)) and any(
                  isinstance(x, ast.Name) and x.id in ("schema", "document_ast") for x in ast.walk(n))]
    out.append(_finite("graphql.validation.validate.validate", "FRAME",
                       "no store into schema or document_ast", not stores, ", ".join(stores)))
    # `errors` occurrences: definition, on_error, abort handler, return
    uses = []
    for n in ast.walk(fn):
        if isinstance(n, ast.Name) and n.id == "errors":
            uses.append(n.lineno)
    inner = world.find_def(tree, "validate.on_error")
    inner_lines = set(range(inner.lineno, inner.end_lineno + 1)) if inner else set()
    outside = []
    for n in ast.walk(fn):
        if isinstance(n, ast.Call) and isinstance(n.func, ast.Attribute) and isinstance(
                n.func.value, ast.Name) and n.func.value.id == "errors" and n.lineno not in inner_lines:
            arg = ast.unparse(n.args[0]) if n.args else ""
            if not (n.func.attr == "append" and arg == "validation_aborted_error"):
                outside.append(ast.unparse(n))
    out.append(_finite("graphql.validation.validate.validate", "FRAME",
                       "errors is mutated only by on_error and by appending the abort notice",
                       not outside, ", ".join(outside)))
    # MEMO-M3: a list obtained from the per-node cache must not be mutated in place
    cmod, ctree, _ = world.load_module("graphql.validation.validation_context")
    g = world.find_def(ctree, "ValidationContext.get_recursive_variable_usages")
    tainted, bad = set(), []
    aliases = {"get_variable_usages"}
    for st in ast.walk(g):
        if isinstance(st, ast.Assign) and isinstance(st.value, ast.Attribute) \
                and st.value.attr == "get_variable_usages":
            aliases |= {t.id for t in st.targets if isinstance(t, ast.Name)}
    for st in g.body[0].body if isinstance(g.body[0], ast.If) else []:
        pass
    for st in ast.walk(g):
        if isinstance(st, ast.Assign) and isinstance(st.value, ast.Call):
            f = st.value.func
            name = f.id if isinstance(f, ast.Name) else (f.attr if isinstance(f, ast.Attribute) else None)
            if name in aliases:
                tainted |= {t.id for t in st.targets if isinstance(t, ast.Name)}
    for st in ast.walk(g):
        if isinstance(st, ast.Call) and isinstance(st.func, ast.Attribute) and st.func.attr in MUTATORS \
                and isinstance(st.func.value, ast.Name) and st.func.value.id in tainted:
            bad.append(ast.unparse(st))
        if isinstance(st, ast.AugAssign) and isinstance(st.target, ast.Name) and st.target.id in tainted:
            bad.append(ast.unparse(st))
    out.append(_finite("ValidationContext.get_recursive_variable_usages", "MEMO-M3",
                       "the list cached by get_variable_usages is not mutated in place",
                       not bad, "; ".join(bad)))
    # MEMO: the recursive result is stored in _recursive_variable_usages (the cache that is read)
    reads = [n for n in ast.walk(g) if isinstance(n, ast.Call) and isinstance(n.func, ast.Attribute)
             and n.func.attr == "get" and isinstance(n.func.value, ast.Attribute)]
    writes = [n for n in ast.walk(g) if isinstance(n, ast.Subscript) and isinstance(n.ctx, ast.Store)
              and isinstance(n.value, ast.Attribute)]
    ok = len(reads) == 1 and len(writes) == 1 and reads[0].func.value.attr == writes[0].value.attr
    out.append(_finite("ValidationContext.get_recursive_variable_usages", "MEMO-M1",
                       "the memo that is read is the memo that is filled", ok,
                       f"reads {[r.func.value.attr for r in reads]} writes {[x.value.attr for x in writes]}"))
    return out


WITNESS_M3 = r'''
from graphql import build_schema, parse, validate
from graphql.validation import ValidationRule, NoUndefinedVariablesRule
schema = build_schema("type Query { f(a: Int): Int }")
doc = parse("query Q($x: Int) { f(a: $x) ...F } fragment F on Query { g: f(a: $y) h: f(a: $z) }")
seen = {}
class Count(ValidationRule):
    def leave_operation_definition(self, node, *_):
        seen[self.tag] = len(self.context.get_variable_usages(node))
class A(Count): tag = "alone"
validate(schema, doc, [A])
class B(Count): tag = "with"
validate(schema, doc, [NoUndefinedVariablesRule, B])
assert seen["alone"] == seen["with"], seen
'''


def _ref_search(tier, seed):
    import json
    code = ("import json\nfrom props.C12_ref import search\n"
            f"r = search(seed={int(seed)}, thorough={tier == 'thorough'!r})\n"
            "print('BOUNDED ' + json.dumps(r, default=str))")
    rc, outp = run_native(code, timeout=1500)
    for line in outp.splitlines():
        if line.startswith("BOUNDED "):
            return json.loads(line[8:]), outp
    raise RuntimeError(outp[-600:])


def bounded_checks(tier, seed):
    """Union of the rules run alone, invariance under reprinting, determinism, no modification and the
    prefix property of the error limit are statements about validate() as a whole: the statement
    itself is run over a corpus, bounded (props/C12_ref.py)."""
    res, outp = _ref_search(tier, seed)
    return [{"id": "C12/bounded/statement-over-corpus", "function": "graphql.validation.validate.validate",
             "tool": "the statement of C12 (prefix property of max_errors 0..5, union of single rules, reprint / "
                     "no_location invariance, determinism, no modification) over a corpus, native",
             "bound": "semantic_corpus() of props/C01_pipeline.py + the parseable documents of props/parser_replay.corpus() ("
                      + ("all" if tier == "thorough" else "every 6th") + "), one schema, all specified rules and each alone",
             "failed": res is not None, "input": res, "output": outp[-1500:]}]


def replay_extra(o):
    """The abort-propagation obligation is replayed by the bounded statement search (the prefix
    property fails when a handler swallows the abort)."""
    if "must be identity keyed" in o.get("text", ""):
        from .C14 import F8_WITNESS
        rc, outp = run_native(F8_WITNESS)
        if rc != 0:
            return {"confirmed": True, "entry": "validate(schema, parse(q, no_location=...))",
                    "input": "{ pets { ... on Dog { f { v } } ... on Cat { f { v } } } } with and without locations",
                    "observed": outp[-400:]}
        return {"confirmed": False}
    if "swallows the abort" not in o.get("text", ""):
        return None
    res, outp = _ref_search("quick", 0)
    if res:
        return dict(res, confirmed=True, entry="validate(schema, document, max_errors=n)")
    return {"confirmed": False}


def native_checks(tier, seed):
    rc, outp = run_native(WITNESS_M3)
    return [{"id": "C12/native/F12-variable-usages-cache-mutated", "failed": rc != 0,
             "output": outp, "input": WITNESS_M3.strip()}]
