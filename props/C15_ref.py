"""Bounded stand-in for the agreement statements of C15 on composite input types (the contracts decide
the leaf and list cases and, for input objects, the frame / operands / required-field decisions only):
the statement itself over a pool of values and types.

BOUNDED, never counted as proved.  Bound: one schema (input objects with required fields, defaults,
nested and recursive objects, a OneOf object, lists) x the value pool below (every value at every
type); checked:  coerce_input_value(v, T) is Undefined  <=>  validate_input_value reports an error;
an accepted value has a literal (value_to_literal) that validates and coerces back to the same
coerced value;  coerce_input_literal(lit, T) is Undefined  <=>  validate_input_literal reports an error
for a pool of literals."""

SDL = '''
input Pt { x: Int! y: Int = 7 tag: String }
input Req { id: ID! pt: Pt! opt: Pt pts: [Pt!] }
input Dflt { n: Int! = 3 s: String! = "d" l: [Int!]! = [1] f: Float = 1.5 }
input One @oneOf { i: Int s: String b: Boolean f: Float l: [Int] p: Pt }
input Rec { v: Int next: Rec list: [Rec] }
enum Color { RED GREEN }
input WithEnum { c: Color! = RED cs: [Color] }
type Query { f(a: Pt, b: Req, c: Dflt, d: One, e: Rec, g: WithEnum): Int }
'''
TYPES = ["Pt", "Req", "Dflt", "One", "Rec", "WithEnum", "[Pt]", "[One!]", "Pt!", "[[Dflt]]", "Color", "[Color!]",
         "Float", "[Float!]", "Int", "ID", "String", "Boolean"]


def values():
    from graphql.pyutils import Undefined
    U = Undefined
    scal = [0, 1, -1, 0.0, 1.5, "", "s", "RED", True, False, None, U, [], [0], {}, 2 ** 31, float("inf"),
            # doubles that need 16-17 significant digits: value -> literal -> value must be exact
            0.1 + 0.2, 1.7976931348623157e308, 5e-324, 123456789.12345678, -2.2250738585072014e-308, 1e21, 1e-7]
    out = list(scal)
    out += [{"x": v} for v in scal] + [{"x": 1, "y": v} for v in scal] + [{"x": 1, "tag": v} for v in scal]
    out += [{"id": v, "pt": {"x": 1}} for v in scal] + [{"id": "1", "pt": v} for v in scal]
    out += [{"id": 1, "pt": {"x": 1}, "opt": v} for v in (None, U, {}, {"x": 2}, {"x": None})]
    out += [{"id": 1, "pt": {"x": 1}, "pts": v} for v in (None, U, [], [{"x": 1}], [None], {"x": 1}, [{"x": U}])]
    out += [{"n": v} for v in scal] + [{"s": v} for v in scal] + [{"l": v} for v in scal] + [{"f": v} for v in scal]
    out += [{"n": U, "s": U, "l": U, "f": U}, {"n": 1, "s": "a", "l": [2], "f": None}]
    for k in ("i", "s", "b", "f", "l", "p"):
        out += [{k: v} for v in scal] + [{k: {"x": 1}}]
    out += [{"i": 1, "s": "a"}, {"i": 1, "s": U}, {"i": None, "s": None}, {"i": U}, {"i": 0, "b": False}]
    out += [{"v": 1, "next": {"v": 2, "next": None}}, {"next": {"next": {"v": "bad"}}}, {"list": [{"v": 1}, None, {"list": []}]},
            {"list": [{"v": U}]}, {"v": U, "next": U}]
    out += [{"c": v} for v in ("RED", "BLUE", None, U, 1)] + [{"cs": v} for v in (["RED"], "GREEN", [None], ["X"], U)]
    out += [{"x": 1, "unknown": 1}, {"x": 1, 2: 3}, [{"x": 1}, {"x": 2}], [{"x": 1}, None], [[{"n": 1}], None, [None]]]
    return out


LITERALS = ["{x: 1}", "{x: 1, y: null}", "{x: null}", "{}", "{x: 1, x: 2}", "{x: 1, zz: 2}", "1", "null", "[{x: 1}]",
            "{id: 1, pt: {x: 1}}", "{id: \"a\", pt: {}}", "{pt: {x: 1}}", "{id: 1, pt: {x: 1}, pts: [{x: 1}, null]}",
            "{n: null}", "{n: 1, s: \"a\"}", "{l: 1}", "{l: [1, null]}", "{f: 1}", "{i: 1}", "{i: 0}", "{s: \"\"}", "{b: false}",
            "{i: null}", "{i: 1, s: \"a\"}", "{l: []}", "{p: {x: 1}}", "{v: 1, next: {v: 2}}", "{list: [{v: 1}, null]}",
            "{c: RED}", "{c: BLUE}", "{c: \"RED\"}", "{cs: GREEN}", "RED", "[RED, null]", "$v", "{x: $v}", "[$v]", "{i: $v}"]


def search(seed=0, thorough=False):
    from graphql import build_schema, parse_type, parse_value
    from graphql.pyutils import Undefined
    from graphql.utilities import (coerce_input_literal, coerce_input_value, type_from_ast, validate_input_literal,
                                   validate_input_value, value_to_literal)
    schema = build_schema(SDL)
    n = 0
    for tname in TYPES:
        t = type_from_ast(schema, parse_type(tname))
        for v in values():
            n += 1
            errs = []
            try:
                validate_input_value(v, t, lambda e, p: errs.append(e.message))
                c = coerce_input_value(v, t)
            except Exception as e:  # noqa: BLE001
                return {"type": tname, "value": repr(v), "observed": f"{type(e).__name__}: {e}"}
            if (c is Undefined) != bool(errs):
                return {"type": tname, "value": repr(v),
                        "observed": f"coerce_input_value gives {c!r}, validate_input_value reports {errs!r}"}
            if c is Undefined or v is Undefined:
                continue
            try:
                lit = value_to_literal(v, t)
            except Exception as e:  # noqa: BLE001
                return {"type": tname, "value": repr(v), "observed": f"value_to_literal raised {type(e).__name__}: {e}"}
            if lit is None:
                return {"type": tname, "value": repr(v), "observed": "accepted by coercion, but value_to_literal gives no literal"}
            lerrs = []
            validate_input_literal(lit, t, lambda e, p: lerrs.append(e.message))
            back = coerce_input_literal(lit, t)
            if lerrs or back is Undefined:
                return {"type": tname, "value": repr(v),
                        "observed": f"its literal is rejected: validation {lerrs!r}, coercion {back!r}"}
            if repr(back) != repr(c):
                return {"type": tname, "value": repr(v),
                        "observed": f"coerce_input_value gives {c!r}, its literal coerces to {back!r}"}
        for text in LITERALS:
            node = parse_value(text)
            for vv in (None, {"v": 1}):
                from graphql.execution.values import VariableValues
                var = None
                if vv is not None:
                    continue    # variables inside literals: the scope rule is decided by contract
                lerrs = []
                try:
                    validate_input_literal(node, t, lambda e, p: lerrs.append(e.message), var)
                    c = coerce_input_literal(node, t, var)
                except Exception as e:  # noqa: BLE001
                    return {"type": tname, "literal": text, "observed": f"{type(e).__name__}: {e}"}
                if "$" in text:
                    continue
                if (c is Undefined) != bool(lerrs):
                    return {"type": tname, "literal": text,
                            "observed": f"coerce_input_literal gives {c!r}, validate_input_literal reports {lerrs!r}"}
    bad = search_one_of_with_variables()
    if bad:
        return bad
    if n < 500:
        raise RuntimeError(f"C15_ref: only {n} cases")
    search.executed = n
    return None


def search_one_of_with_variables():
    """The literal pair on variable-bearing literals of a OneOf type whose fields carry an out_name
    (only constructible programmatically): with the same variable values on both sides,
    coerce_input_literal gives no value exactly when validate_input_literal reports - in particular
    for a variable that is null or has no value.  BOUNDED: 9 literals x 6 variable mappings x 3 positions."""
    from graphql import (GraphQLArgument, GraphQLField, GraphQLInputField, GraphQLInputObjectType, GraphQLInt,
                         GraphQLList, GraphQLNonNull, GraphQLObjectType, GraphQLSchema, GraphQLString, parse, parse_value)
    from graphql.execution.values import get_variable_values
    from graphql.pyutils import Undefined
    from graphql.utilities import coerce_input_literal, validate_input_literal
    one = GraphQLInputObjectType("One2", {
        "byId": GraphQLInputField(GraphQLInt, out_name="by_id"),
        "byName": GraphQLInputField(GraphQLString, out_name="by_name"),
        "plain": GraphQLInputField(GraphQLInt)}, is_one_of=True)
    query = GraphQLObjectType("Query", {"f": GraphQLField(GraphQLInt, args={"a": GraphQLArgument(one)})})
    schema = GraphQLSchema(query)
    op = parse("query ($i: Int, $s: String, $p: Int) { f }").definitions[0]
    lits = ["{byId: $i}", "{byName: $s}", "{plain: $p}", "{byId: 1}", "{byId: null}", "{byId: $i, byName: $s}",
            "{plain: $i}", "{}", "{byName: \"\"}"]
    mappings = [{}, {"i": None}, {"i": 1}, {"s": None, "i": 1}, {"s": "", "p": 0}, {"i": None, "s": None, "p": None}]
    for types in (one, GraphQLNonNull(one), GraphQLList(one)):
        for text in lits:
            node = parse_value(text)
            for m in mappings:
                vv = get_variable_values(schema, op.variable_definitions, m)
                if isinstance(vv, list):
                    raise RuntimeError(f"variable values rejected: {vv}")
                errs = []
                try:
                    validate_input_literal(node, types, lambda e, p: errs.append(e.message), vv)
                    c = coerce_input_literal(node, types, vv)
                except Exception as e:  # noqa: BLE001
                    return {"type": str(types), "literal": text, "variables": repr(m),
                            "observed": f"{type(e).__name__}: {e}"}
                if (c is Undefined) != bool(errs):
                    return {"type": str(types), "literal": text, "variables": repr(m),
                            "observed": f"coerce_input_literal gives {c!r}, validate_input_literal reports {errs!r}"}
    return None
