"""C13 - a validated document cannot go wrong (partial; DESIGN.md section 4, C13)."""
from .common import A

LEVEL = "other"
EXPLANATION = (
    "Decides the places where validation and execution rely on the same predicate, each "
    "verified against a spec function transcribed from the specification text: "
    "is_equal_type == EqT; is_type_sub_type_of == Sub (IsValidImplementationFieldType/IsSubType) "
    "and, on input types, == Compat (AreTypesCompatible); allowed_variable_usage == "
    "IsVariableUsageAllowed including the one run-time-deferred case (nullable variable, "
    "non-null location, default present). Type objects are an uninterpreted sort with kind/of_type "
    "functions (A7), so the result holds for every type nesting; recursion is handled through the "
    "functions' own contracts with the spec definitions unfolded at the terms of each query.")
UNVERIFIED = [
    "every other validation rule (FieldsOnCorrectType, ScalarLeafs, PossibleFragmentSpreads, ...) versus the executor "
    "(the overlapping-fields rule: the wiring contracts and pair tables of C14 are checked here as well, since a merge "
    "conflict that validation misses lets execution return a value of the wrong type for an accepted document)",
    "ProvidedRequiredArgumentsRule versus coerce_argument's required-argument raise (planned)",
    "the Sub/Compat => Valid/Conf transfer lemmas (depend on the C15 input-validity theory)",
    "shape of the response for an accepted document (BOUNDED stand-in: props/C02_ref.py over conforming data; deductively only: the sub-selection memo that assembles it is keyed by the return type and the field group, MEMO-M1/M2)",
]
TRUSTED = []
ASSUMPTIONS = [A["A1"], A["A2"], A["A3"], A["A7"], A["A8"], A["ENGINE"],
               "GraphQLSchema.is_sub_type is the relation `possible` (assumed contract); members of unions are object types"]
LIFTERS = []


def _memo(world):
    from .C02 import memo_obligations
    return [o for o in memo_obligations(world) if o["func"] == "Executor.collect_subfields"]


def extra_obligations(world, tier, seed):
    from .C02 import schema_memo_obligations
    return _memo(world) + _lemmas() + schema_memo_obligations()


def bounded_checks(tier, seed):
    """BOUNDED stand-in for the response shape of an accepted document: every generated document that
    validate() accepts is executed over conforming data and compared with the reference executor
    (props/C02_ref.py); any error, exception or deviation is reported."""
    from .C02 import bounded_checks as b
    out = b(tier, seed, pid="C13", variants="(0, 6)")
    # documents whose definitions share names / reuse variables across definitions
    import json
    from .common import run_native
    code = ("import json\nfrom props.C02_ref import search_accepted_documents\n"
            "print('ACCEPTED ' + json.dumps(search_accepted_documents(), default=str))")
    rc, outp = run_native(code, timeout=900)
    res, ok = None, False
    for line in outp.splitlines():
        if line.startswith("ACCEPTED "):
            res, ok = json.loads(line[9:]), True
    if not ok:
        raise RuntimeError(outp[-600:])
    out.append({"id": "C13/bounded/accepted-documents-with-shared-names",
                "function": "validate (ValidationContext caches keyed by definitions) + execute_sync",
                "tool": "whatever validate() accepts executes over conforming data without errors, native",
                "bound": "5 document shapes (operation and fragment with one name, nested fragments, two operations sharing a "
                         "fragment) x 7 variable definitions x 6 usages x 5 variable mappings",
                "failed": res is not None, "input": res, "output": outp[-800:]})
    # the field-merge rule is what guarantees that a response key has one shape: its bounded reference
    # comparison (props/C14_ref.py) stands in here too
    from .C14 import bounded_checks as b14
    for bc in b14(tier, seed):
        out.append(dict(bc, id=bc["id"].replace("C14/", "C13/")))
    return out


def _lemmas():
    import time
    import z3
    from theories import gtypes
    out = []
    for name, f in gtypes.lemmas():
        s = z3.Solver()
        s.set("timeout", 20000)
        s.add(z3.Not(f))
        t0 = time.time()
        r = s.check()
        out.append({"func": "theories.gtypes", "kind": "LEMMA", "text": name,
                    "status": "discharged" if r == z3.unsat else ("refuted" if r == z3.sat else "unknown"),
                    "backend": "z3", "time_s": round(time.time() - t0, 4)})
    return out
