"""C13 - a validated document cannot go wrong (partial; DESIGN.md section 4, C13)."""
from .common import A

LEVEL = "other"
EXPLANATION = (
    "Decides the places where validation and execution rely on the same predicate, each "
    "verified against a spec function transcribed from the specification text: "
    "is_equal_type == EqT; is_type_sub_type_of == Sub (IsValidImplementationFieldType/IsSubType) "
    "and, on input types, == Compat (AreTypesCompatible); allowed_variable_usage == "
    "IsVariableUsageAllowed including the one run-time-deferred case (nullable variable, "
    "non-null location, default present). Type objects are an uninterpreted sort with kind/of_type "
    "functions (A7), so the result holds for every type nesting; recursion is handled through the "
    "functions' own contracts with the spec definitions unfolded at the terms of each query.")
UNVERIFIED = [
    "every other validation rule (FieldsOnCorrectType, ScalarLeafs, PossibleFragmentSpreads, ...) versus the executor "
    "(the overlapping-fields rule: the wiring contracts and pair tables of C14 are checked here as well, since a merge "
    "conflict that validation misses lets execution return a value of the wrong type for an accepted document)",
    "ProvidedRequiredArgumentsRule versus coerce_argument's required-argument raise (planned)",
    "the Sub/Compat => Valid/Conf transfer lemmas (depend on the C15 input-validity theory)",
    "shape of the response for an accepted document (BOUNDED stand-in: props/C02_ref.py over conforming data; deductively only: the sub-selection memo that assembles it is keyed by the return type and the field group, MEMO-M1/M2)",
]
TRUSTED = []
ASSUMPTIONS = [A["A1"], A["A2"], A["A3"], A["A7"], A["A8"], A["ENGINE"],
               "GraphQLSchema.is_sub_type is the relation `possible` (assumed contract); members of unions are object types"]
LIFTERS = []


def _memo(world):
    from .C02 import memo_obligations
    return [o for o in memo_obligations(world) if o["func"] == "Executor.collect_subfields"]


def extra_obligations(world, tier, seed):
    from .C02 import schema_memo_obligations
    return _memo(world) + _lemmas() + schema_memo_obligations()


def bounded_checks(tier, seed):
    """BOUNDED stand-in for the response shape of an accepted document: every generated document that
    validate() accepts is executed over conforming data and compared with the reference executor
    (props/C02_ref.py); any error, exception or deviation is reported."""
    from .C02 import bounded_checks as b
    out = b(tier, seed, pid="C13", variants="(0, 6)")
    # documents whose definitions share names / reuse variables across definitions
    import json
    from .common import run_native
    code = ("import json\nfrom props.C02_ref import search_accepted_documents\n"
            "print('ACCEPTED ' + json.dumps(search_accepted_documents(), default=str))")
    rc, outp = run_native(code, timeout=900)
    res, ok = None, False
    for line in outp.splitlines():
        if line.startswith("ACCEPTED "):
            res, ok = json.loads(line[9:]), True
    if not ok:
        raise RuntimeError(outp[-600:])
    out.append({"id": "C13/bounded/accepted-documents-with-shared-names",
                "function": "validate (ValidationContext caches keyed by definitions) + execute_sync",
                "tool": "whatever validate() accepts executes over conforming data without errors, native",
                "bound": "5 document shapes (operation and fragment with one name, nested fragments, two operations sharing a "
                         "fragment) x 7 variable definitions x 6 usages x 5 variable mappings",
                "failed": res is not None, "input": res, "output": outp[-800:]})
    # the field-merge rule is what guarantees that a response key has one shape: its bounded reference
    # comparison (props/C14_ref.py) stands in here too
    out += _oneof_search()
    from .C14 import bounded_checks as b14
    for bc in b14(tier, seed):
        out.append(dict(bc, id=bc["id"].replace("C14/", "C13/")))
    return out


ONEOF_SDL = '''
input OO @oneOf { a: String b: Int self: OO }
input Wrap { o: OO onn: OO! os: [OO] }
type Query { g(arg: OO): String f(arg: OO!): String h(arg: [OO]): String k(arg: [OO!]!): String w(arg: Wrap): String }
'''

WITNESSES = {
 "F28-oneof-field-variable-in-a-non-null-position": r'''
from graphql import build_schema, parse, validate
schema = build_schema(ONEOF_SDL)
for q in ("query ($v: String) { f(arg: {a: $v}) }", "query ($v: String) { k(arg: [{a: $v}]) }",
          "query ($v: String) { w(arg: {onn: {a: $v}}) }", "query ($v: String) { g(arg: {a: $v}) }"):
    errs = validate(schema, parse(q))
    assert errs and "must be non-nullable to be used for OneOf" in errs[0].message, (q, errs)
for q in ("query ($v: String!) { f(arg: {a: $v}) }", "query ($v: OO) { h(arg: [$v]) }", "query ($v: OO) { k(arg: [$v]) }"):
    assert not [e for e in validate(schema, parse(q)) if "OneOf" in e.message], q
'''.replace("ONEOF_SDL", repr(ONEOF_SDL)),
 "K2-oneof-field-variable-in-a-bare-object-standing-for-a-list": r'''
from graphql import build_schema, parse, validate, execute_sync
schema = build_schema(ONEOF_SDL)
doc = parse("query ($v: String) { h(arg: {a: $v}) }")
assert validate(schema, doc), "accepted although $v may be null in a OneOf field"
'''.replace("ONEOF_SDL", repr(ONEOF_SDL)),
 "K3-interface-argument-default-not-repeated-by-the-implementation": r'''
from graphql import build_schema, parse, validate, validate_schema, execute_sync
schema = build_schema("interface I { f(a: Int! = 1): Int } type T implements I { f(a: Int!): Int } type Query { i: I }")
assert not validate_schema(schema)
doc = parse("{ i { f } }")
assert not validate(schema, doc)
r = execute_sync(schema, doc, {"i": {"__typename": "T", "f": 3}})
assert not r.errors, r.errors
''',
}

ONEOF_SEARCH = r'''
import itertools, json
from graphql import build_schema, parse, validate, execute_sync
from graphql.execution.values import get_variable_values
schema = build_schema(ONEOF_SDL)
FIELDS = {"g": "OO", "f": "OO!", "h": "[OO]", "k": "[OO!]!", "w": "Wrap"}
VALUES = {"g": ["{a: $v}", "{b: $v}", "{self: {a: $v}}", "$v"],
          "f": ["{a: $v}", "{self: {b: $v}}", "$v"],
          "h": ["[{a: $v}]", "[$v]", "$v", "[{self: {a: $v}}]"],       # (a bare object for the list: known finding K2)
          "k": ["[{a: $v}]", "[$v]", "$v"],
          "w": ["{o: {a: $v}}", "{onn: {a: $v}}", "{os: [{a: $v}]}", "{o: $v}", "{onn: $v}"]}
VARDEFS = ["String", "String!", "String = \"x\"", "Int", "OO", "OO!", "[OO]"]
MAPPINGS = [{}, {"v": None}, {"v": "s"}, {"v": 1}, {"v": {"a": "s"}}, {"v": {"a": None}}, {"v": [{"b": 1}]}]
bad = None
n = 0
for (fname, _), vd in itertools.product(FIELDS.items(), VARDEFS):
    for val in VALUES[fname]:
        text = "query ($v: %s) { %s(arg: %s) }" % (vd, fname, val)
        doc = parse(text)
        if validate(schema, doc):
            continue
        for m in MAPPINGS:
            vv = get_variable_values(schema, doc.definitions[0].variable_definitions, m)
            if isinstance(vv, list):
                continue                    # variable values rejected by variable coercion
            n += 1
            r = execute_sync(schema, doc, {k: "ok" for k in FIELDS}, variable_values=m)
            if r.errors:
                bad = {"document": text, "variables": m,
                       "observed": "validate() and variable coercion accept, execution reports " + repr([e.message for e in r.errors])}
                break
        if bad:
            break
    if bad:
        break
print("ONEOF " + json.dumps(bad) + f" ({n} executions)")
'''.replace("ONEOF_SDL", repr(ONEOF_SDL))


def native_checks(tier, seed):
    from .common import run_native
    out = []
    for name, code in WITNESSES.items():
        rc, outp = run_native(code)
        out.append({"id": f"C13/native/{name}", "failed": rc != 0, "output": outp, "input": code.strip()})
    return out


def _oneof_search():
    import json
    from .common import run_native
    rc, outp = run_native(ONEOF_SEARCH, timeout=600)
    res, ok = None, False
    for line in outp.splitlines():
        if line.startswith("ONEOF "):
            res, ok = json.loads(line[6:line.rindex(" (")]), True
    if not ok:
        raise RuntimeError(outp[-600:])
    return [{"id": "C13/bounded/accepted-variables-inside-oneof-positions",
             "function": "VariablesInAllowedPositionRule (OneOf clause) / TypeInfo parent input type + coerce_argument",
             "tool": "whatever validate() and variable coercion accept executes without errors, native",
             "bound": "5 argument positions (OO, OO!, [OO], [OO!]!, an input object holding OO / OO! / [OO]) x 3-5 literal "
                      "shapes with a variable x 7 variable types x 7 variable mappings; the bare-object-for-a-list "
                      "shape is the recorded known finding K2 and is not generated",
             "failed": res is not None, "input": res, "output": outp[-600:]}]


def _lemmas():
    import time
    import z3
    from theories import gtypes
    out = []
    for name, f in gtypes.lemmas():
        s = z3.Solver()
        s.set("timeout", 20000)
        s.add(z3.Not(f))
        t0 = time.time()
        r = s.check()
        out.append({"func": "theories.gtypes", "kind": "LEMMA", "text": name,
                    "status": "discharged" if r == z3.unsat else ("refuted" if r == z3.sat else "unknown"),
                    "backend": "z3", "time_s": round(time.time() - t0, 4)})
    return out
