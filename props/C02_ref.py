"""Bounded stand-in for the glue of the executor that no single contract covers (C02, C13): a
reference implementation of the specification's ExecuteSelectionSet / CollectFields / ExecuteField /
CompleteValue / error handling, written from the specification text, compared with execute_sync on
generated requests.

BOUNDED, never counted as proved.  Bound: one schema (scalars, non-null, lists, objects, an
interface, a union, arguments with defaults and an input object); documents built from 24 selection
atoms (aliases, arguments, @skip/@include with literal and variable conditions, inline fragments,
fragment spreads incl. repeated and nested ones) taken 1, 2 and (seeded) 3 at a time under three
parents; 7 data variants (conforming, nulls at nullable and non-null positions, wrong kinds,
raising resolvers, mappings that are not dicts); quick: every 2nd request of the enumeration (seeded offset), thorough: all.
Leaf serialisation uses the library's own coerce_output_value (that is C16's subject); variable
coercion is not exercised beyond two Boolean variables.  Runs natively."""
import itertools
import random

SCHEMA = '''
interface Pet { name: String nick: String! say(w: String): String }
type Dog implements Pet { name: String nick: String! bark: Int friend: Pet friends: [Pet] say(w: String = "woof"): String }
type Cat implements Pet { name: String nick: String! meow: String friend: Pet say(w: String = "meow", n: Int = 2): String }
interface Node { id: ID }
interface Resource implements Node { id: ID url: String }
type Page implements Resource & Node { id: ID url: String title: String }
type Post implements Node { id: ID body: String }
union U = Dog | Cat
input In { a: Int = 7 b: [Int!] c: In }
type Obj { i: Int s: String! o: Obj onn: Obj! l: [Int] lnn: [Int!] lo: [Obj] lonn: [Obj!]!
           args(x: Int = 3, y: [Int], z: In, w: Boolean! = true): String pet: Pet u: U req(n: Int!): Int }
type Query { obj: Obj objnn: Obj! pet: Pet u: U i: Int node: Node nodes: [Node] }
'''
FRAGS = '''
fragment FObj on Obj { i k: s }
fragment FObj2 on Obj { ...FObj o { i } }
fragment FDog on Dog { bark name }
fragment FCat on Cat { meow }
fragment FPet on Pet { nick ... on Dog { bark } }
'''
OBJ_ATOMS = ["i", "s", "x: i", "x: s", "o { i }", "o { s }", "onn { s }", "onn { i o { s } }", "l", "lnn",
             "lo { i }", "lonn { s }", "lonn { i }", "args", "args(x: 1)", "a2: args(y: 5, z: {b: 1})",
             "a3: args(z: {a: null, c: {}})", "i @skip(if: true)", "i @include(if: false)",
             "s @skip(if: $t)", "x: i @include(if: $f)", "...FObj", "...FObj2",
             "... on Obj { i }", "... @skip(if: $t) { s }", "...FObj @include(if: $f)", "__typename"]
NODE_ATOMS = ["id", "__typename", "... on Page { title }", "... on Post { body }", "... on Resource { url }",
              "... on Node { x: id }", "... on Resource { ... on Page { t: title } }"]
PET_ATOMS = ["name", "nick", "... on Dog { bark }", "... on Cat { meow }", "...FDog", "...FCat", "...FPet",
             "...FDog @skip(if: true)", "... on Dog { friend { nick } }", "... on Dog { friends { name } }",
             "__typename", "x: name", "... on Pet { x: nick }",
             "... on Dog { friends { ... on Dog { bark } } }", "... on Dog { friends { ... on Cat { meow } nick } }",
             "... on Dog { friends { ...FPet } }",
             # one field node executed for several runtime types whose argument defaults differ
             "say", "... on Dog { friends { say } }", "... on Dog { friends { s2: say(w: \"x\") } friend { say } }"]


class Boom(Exception):
    pass


def raiser(*_a, **_k):
    raise Boom("boom")


def make_data(variant):
    """root value trees (dicts with __typename where abstract)."""
    def dog(depth=0):
        d = {"__typename": "Dog", "name": "d", "nick": "dn", "bark": 3,
             "say": lambda info, **kw: repr(sorted(kw.items()))}
        if depth < 1:
            d["friend"] = cat(depth + 1)
            d["friends"] = [cat(depth + 1), dog(depth + 1), None]
        return d

    def cat(depth=0):
        c = {"__typename": "Cat", "name": None, "nick": "cn", "meow": "m",
             "say": lambda info, **kw: repr(sorted(kw.items()))}
        if depth < 1:
            c["friend"] = dog(depth + 1)
        return c

    def obj(depth=0):
        o = {"i": 1, "s": "s", "l": [1, None, 3], "lnn": [1, 2], "args": lambda info, **kw: repr(sorted(kw.items())),
             "pet": dog(), "u": cat()}
        if depth < 2:
            o["o"] = obj(depth + 1)
            o["onn"] = obj(depth + 1)
            o["lo"] = [obj(depth + 2), None]
            o["lonn"] = [obj(depth + 2)]
        return o
    # values of the interface-of-interfaces positions carry no __typename: they are typed by is_type_of
    page = {"kind": "Page", "id": "1", "url": "u", "title": "t"}
    post = {"kind": "Post", "id": 2, "body": "b"}
    root = {"obj": obj(), "objnn": obj(), "pet": dog(), "u": cat(), "i": 5,
            "node": dict(page), "nodes": [dict(post), None, dict(page)]}
    if variant == 1:
        root["obj"]["s"] = None                      # null at a non-null leaf
        root["objnn"]["onn"] = None
    elif variant == 2:
        root["obj"]["lnn"] = [1, None]               # null item in [Int!]
        root["obj"]["lonn"] = [None]
        root["objnn"]["s"] = None                    # propagates to the root
    elif variant == 3:
        root["obj"]["i"] = "not an int"              # wrong kinds
        root["obj"]["l"] = 7
        root["obj"]["o"] = 5
        root["pet"] = {"name": "no typename", "nick": "x"}
    elif variant == 4:
        root["obj"]["i"] = raiser                    # raising resolvers
        root["obj"]["onn"]["s"] = raiser
        root["pet"]["nick"] = raiser
    elif variant == 5:
        root["obj"] = None
        root["u"] = {"__typename": "Nope"}
        root["pet"]["friend"] = {"__typename": "Cat", "nick": None}
    elif variant == 6:
        # mappings that are not dicts (the default resolvers accept any Mapping)
        import types
        import collections
        root["pet"] = types.MappingProxyType(dog())
        root["u"] = collections.ChainMap({}, cat())
        root["obj"]["pet"] = types.MappingProxyType(cat())
        root["objnn"]["u"] = collections.ChainMap(dog())
        root["obj"]["o"] = types.MappingProxyType(obj(2))
    return root


# ----------------------------------------------------------------------------- the reference
class FieldError(Exception):
    def __init__(self, path):
        super().__init__("field error")
        self.path = path


def ref_execute(schema, doc, root, variables):
    from graphql.language import (FieldNode, FragmentDefinitionNode, FragmentSpreadNode,
                                  InlineFragmentNode, OperationDefinitionNode, BooleanValueNode,
                                  VariableNode, IntValueNode, ListValueNode, ObjectValueNode, NullValueNode)
    from graphql.type import (is_non_null_type, is_list_type, is_leaf_type, is_object_type,
                              is_abstract_type, is_input_object_type)
    from graphql.utilities import type_from_ast
    from graphql.pyutils import Undefined
    from collections.abc import Mapping
    frags = {d.name.value: d for d in doc.definitions if isinstance(d, FragmentDefinitionNode)}
    op = next(d for d in doc.definitions if isinstance(d, OperationDefinitionNode))
    errors = []

    def cond(node, name, default):
        for d in node.directives or ():
            if d.name.value == name:
                v = d.arguments[0].value
                if isinstance(v, VariableNode):
                    return variables[v.name.value]
                return v.value
        return default

    def included(node):
        if cond(node, "skip", False):
            return False
        return cond(node, "include", True)

    def applies(tc, obj_type):
        if tc is None:
            return True
        t = type_from_ast(schema, tc)
        if t is obj_type:
            return True
        return is_abstract_type(t) and schema.is_sub_type(t, obj_type)

    def collect(obj_type, sel_set, grouped, visited):
        for sel in sel_set.selections:
            if not included(sel):
                continue
            if isinstance(sel, FieldNode):
                grouped.setdefault(sel.alias.value if sel.alias else sel.name.value, []).append(sel)
            elif isinstance(sel, FragmentSpreadNode):
                n = sel.name.value
                if n in visited:
                    continue
                visited.add(n)
                f = frags[n]
                if applies(f.type_condition, obj_type):
                    collect(obj_type, f.selection_set, grouped, visited)
            elif isinstance(sel, InlineFragmentNode):
                if applies(sel.type_condition, obj_type):
                    collect(obj_type, sel.selection_set, grouped, visited)
        return grouped

    def literal(node, t):
        """CoerceArgumentValues for literals (no variables in argument positions here)."""
        if is_non_null_type(t):
            return literal(node, t.of_type)
        if isinstance(node, NullValueNode):
            return None
        if is_list_type(t):
            if isinstance(node, ListValueNode):
                return [literal(v, t.of_type) for v in node.values]
            return [literal(node, t.of_type)]
        if is_input_object_type(t):
            given = {f.name.value: f.value for f in node.fields}
            out = {}
            for name, f in t.fields.items():
                if name in given:
                    out[name] = literal(given[name], f.type)
                elif f.default is not None or f.default_value is not Undefined:
                    out[name] = default_of(f)
            return out
        if isinstance(node, IntValueNode):
            return int(node.value)
        if isinstance(node, BooleanValueNode):
            return node.value
        return node.value

    def default_of(a):
        if a.default is not None:
            d = a.default
            return literal(d.literal, a.type) if d.literal is not None else d.value
        return a.default_value

    def arguments(fdef, node):
        given = {a.name.value: a.value for a in node.arguments or ()}
        out = {}
        for name, a in fdef.args.items():
            if name in given:
                out[name] = literal(given[name], a.type)
            elif a.default is not None or a.default_value is not Undefined:
                out[name] = default_of(a)
        return out

    def execute_set(obj_type, value, sel_sets, path):
        grouped = {}
        visited = set()
        for s in sel_sets:
            collect(obj_type, s, grouped, visited)
        result = {}
        for key, nodes in grouped.items():
            name = nodes[0].name.value
            if name == "__typename":
                result[key] = obj_type.name
                continue
            fdef = obj_type.fields.get(name)
            if fdef is None:
                continue
            result[key] = execute_field(obj_type, value, fdef, nodes, path + [key])
        return result

    def execute_field(obj_type, value, fdef, nodes, path):
        try:
            try:
                v = value.get(nodes[0].name.value) if isinstance(value, Mapping) else getattr(
                    value, nodes[0].name.value, None)
                if callable(v):
                    v = v(None, **arguments(fdef, nodes[0]))
            except FieldError:
                raise
            except Exception:
                raise FieldError(path)
            return complete(fdef.type, nodes, v, path)
        except FieldError as e:
            if is_non_null_type(fdef.type):
                raise
            if e.path not in errors:
                errors.append(e.path)
            return None

    def complete(t, nodes, v, path):
        if is_non_null_type(t):
            r = complete(t.of_type, nodes, v, path)
            if r is None:
                raise FieldError(path)
            return r
        if v is None:
            return None
        if is_list_type(t):
            if not isinstance(v, (list, tuple)):
                raise FieldError(path)
            out = []
            for k, item in enumerate(v):
                try:
                    out.append(complete(t.of_type, nodes, item, path + [k]))
                except FieldError as e:
                    if is_non_null_type(t.of_type):
                        raise
                    if e.path not in errors:
                        errors.append(e.path)
                    out.append(None)
            return out
        if is_leaf_type(t):
            try:
                r = t.coerce_output_value(v)
            except Exception:
                raise FieldError(path)
            if r is None or r is Undefined:
                raise FieldError(path)
            return r
        if is_abstract_type(t):
            tn = v.get("__typename") if isinstance(v, Mapping) else None
            if tn is None and isinstance(v, Mapping):
                # default type resolution: the object type (a possible type of t) whose is_type_of accepts the value
                for cand in schema.type_map.values():
                    if is_object_type(cand) and cand.is_type_of and schema.is_sub_type(t, cand) \
                            and cand.is_type_of(v, None):
                        tn = cand.name
                        break
            rt = schema.get_type(tn) if isinstance(tn, str) else None
            if rt is None or not is_object_type(rt) or not schema.is_sub_type(t, rt):
                raise FieldError(path)
            t = rt
        return execute_set(t, v, [n.selection_set for n in nodes if n.selection_set], path)

    def top():
        try:
            return execute_set(schema.query_type, root, [op.selection_set], [])
        except FieldError as e:
            if e.path not in errors:
                errors.append(e.path)
            return None
    data = top()
    return data, errors


def _set_is_type_of(schema):
    for n in ("Page", "Post"):
        schema.type_map[n].is_type_of = lambda v, info, _n=n: hasattr(v, "get") and v.get("kind") == _n


def ordered(x):
    """dicts compared with their key order (the response map is ordered)."""
    if isinstance(x, dict):
        return [(k, ordered(v)) for k, v in x.items()]
    if isinstance(x, list):
        return [ordered(v) for v in x]
    return x


def search(seed=0, thorough=False, budget_s=420, variants=range(7)):
    import time
    from graphql import build_schema, parse, validate, execute_sync
    t0 = time.time()
    schema = build_schema(SCHEMA)
    _set_is_type_of(schema)
    from graphql.validation import specified_rules, NoUnusedFragmentsRule
    rules = [r for r in specified_rules if r is not NoUnusedFragmentsRule]
    rnd = random.Random(seed)
    variables = {"t": True, "f": False}
    header = "query Q($t: Boolean = true, $f: Boolean = false) "
    reqs = []
    for parent, atoms in (("obj", OBJ_ATOMS), ("objnn", OBJ_ATOMS), ("pet", PET_ATOMS), ("u", PET_ATOMS[2:]),
                          ("node", NODE_ATOMS), ("nodes", NODE_ATOMS)):
        for n in (1, 2):
            for combo in itertools.permutations(atoms, n) if n == 2 else [(a,) for a in atoms]:
                reqs.append((parent, combo))
        for _ in range(400):
            reqs.append((parent, tuple(rnd.sample(atoms, 3))))
    step = 1 if thorough else 2
    n = 0
    for k, (parent, combo) in enumerate(reqs):
        if (k + seed) % step:
            continue
        if time.time() - t0 > budget_s:
            break
        text = header + "{ %s { %s } i @include(if: $t) j: i @skip(if: $f) }\n%s" % (parent, " ".join(combo), FRAGS)
        doc = parse(text)
        if validate(schema, doc, rules):
            continue        # only valid documents are executed (unused fragments are tolerated)
        for variant in variants:
            n += 1
            want_data, want_err = ref_execute(schema, doc, make_data(variant), variables)
            try:
                r = execute_sync(schema, doc, make_data(variant), variable_values=variables)
            except Exception as e:  # noqa: BLE001
                return {"document": text, "data_variant": variant,
                        "observed": f"execute_sync raised {type(e).__name__}: {e}"}
            if ordered(r.data) != ordered(want_data):
                return {"document": text, "data_variant": variant,
                        "observed": f"data {r.data!r}, the specification's algorithm gives {want_data!r}"}
            if bool(r.errors) != bool(want_err):
                return {"document": text, "data_variant": variant,
                        "observed": f"errors {[(e.message, e.path) for e in r.errors or []]!r}, "
                                    f"reference error positions {want_err!r}"}
            for e in r.errors or []:
                if e.path is not None and list(e.path) not in want_err:
                    return {"document": text, "data_variant": variant,
                            "observed": f"error at {e.path!r} ({e.message}) where the reference has none "
                                        f"(reference: {want_err!r})"}
    if n < 100:
        raise RuntimeError(f"C02_ref: only {n} requests were executed")
    search.executed = n
    return None


def search_async(seed=0, thorough=False, budget_s=420):
    """C03 stand-in: the same requests executed with `execute` where a seeded subset of the fields
    resolves through coroutines that finish after a seeded number of event-loop turns (0..3); the
    response must equal the reference's (which knows nothing of time), whatever the completion order.
    BOUNDED: the corpus of search(), 3 seeded schedules per request (thorough: 8), data variants 0, 1, 4."""
    import asyncio
    import inspect
    import time
    from graphql import build_schema, parse, validate, execute
    from graphql.execution import default_field_resolver
    from graphql.validation import specified_rules, NoUnusedFragmentsRule
    t0 = time.time()
    schema = build_schema(SCHEMA)
    _set_is_type_of(schema)
    rules = [r for r in specified_rules if r is not NoUnusedFragmentsRule]
    rnd = random.Random(seed)
    variables = {"t": True, "f": False}
    header = "query Q($t: Boolean = true, $f: Boolean = false) "
    reqs = []
    for parent, atoms in (("obj", OBJ_ATOMS), ("objnn", OBJ_ATOMS), ("pet", PET_ATOMS), ("u", PET_ATOMS[2:]),
                          ("node", NODE_ATOMS), ("nodes", NODE_ATOMS)):
        for combo in itertools.permutations(atoms, 2):
            reqs.append((parent, combo))
        for _ in range(200):
            reqs.append((parent, tuple(rnd.sample(atoms, 3))))
    step = 2 if thorough else 7
    n = 0
    for k, (parent, combo) in enumerate(reqs):
        if (k + seed) % step:
            continue
        if time.time() - t0 > budget_s:
            break
        text = header + "{ %s { %s } i @include(if: $t) j: i @skip(if: $f) }\n%s" % (parent, " ".join(combo), FRAGS)
        doc = parse(text)
        if validate(schema, doc, rules):
            continue
        for variant in (0, 1, 4):
            want_data, want_err = ref_execute(schema, doc, make_data(variant), variables)
            for sched in range(8 if thorough else 3):
                n += 1
                srnd = random.Random(seed * 1000003 + k * 101 + sched)
                delays = {}

                def resolver(source, info, **args):
                    key = tuple(info.path.as_list())
                    if key not in delays:
                        delays[key] = srnd.choice([None, None, 0, 1, 2, 3])
                    d = delays[key]
                    if d is None:
                        return default_field_resolver(source, info, **args)

                    async def later():
                        for _ in range(d):
                            await asyncio.sleep(0)
                        return default_field_resolver(source, info, **args)
                    return later()

                async def run():
                    r = execute(schema, doc, make_data(variant), variable_values=variables,
                                field_resolver=resolver)
                    if inspect.isawaitable(r):
                        r = await r
                    return r
                try:
                    r = asyncio.run(run())
                except Exception as e:  # noqa: BLE001
                    return {"document": text, "data_variant": variant, "schedule": repr(delays),
                            "observed": f"execute raised {type(e).__name__}: {e}"}
                sch = {"/".join(map(str, p)): d for p, d in delays.items()}
                if ordered(r.data) != ordered(want_data):
                    return {"document": text, "data_variant": variant, "delays_in_loop_turns": sch,
                            "observed": f"data {r.data!r}, independent of time it is {want_data!r}"}
                if bool(r.errors) != bool(want_err):
                    return {"document": text, "data_variant": variant, "delays_in_loop_turns": sch,
                            "observed": f"errors {[(e.message, e.path) for e in r.errors or []]!r}, "
                                        f"reference error positions {want_err!r}"}
    if n < 100:
        raise RuntimeError(f"C02_ref: only {n} async requests were executed")
    search_async.executed = n
    return None


def search_accepted_documents():
    """C13 on documents whose definitions share names or reuse variables across definitions (the
    caches of the validation context are keyed by definitions): whatever validate() accepts must execute
    over conforming data without any error.  BOUNDED: the documents built below (operation and
    fragment with the same name, two operations using one fragment with different variable
    definitions, nested fragments, the bad usage in every one of the positions)."""
    import itertools
    from graphql import build_schema, parse, validate, execute_sync
    schema = build_schema(SCHEMA)
    _set_is_type_of(schema)
    usages = ["req(n: $v)", "args(x: $v)", "req(n: 1) @include(if: $v)", "lo { req(n: $v) }", "args(y: [$v])", "args(z: {a: $v})"]
    var_defs = ["", "($v: Int)", "($v: Int!)", "($v: Int = 1)", "($v: Boolean)", "($v: String)", "($w: Int)"]
    shapes = [
        "query N%s { obj { ...N } } fragment N on Obj { %s }",
        "query N%s { obj { ...F } } fragment F on Obj { ...N } fragment N on Obj { %s }",
        "query A%s { obj { ...N } } query N { obj { i } } fragment N on Obj { %s }",
        "query N%s { obj { i } } query B { obj { ...N } } fragment N on Obj { %s }",
        "query A%s { obj { ...F } } query B($v: Int!) { obj { ...F } } fragment F on Obj { %s }",
    ]
    for shape, vd, use in itertools.product(shapes, var_defs, usages):
        text = shape % (vd, use)
        try:
            doc = parse(text)
        except Exception:
            continue
        if validate(schema, doc):
            continue
        from graphql.language import OperationDefinitionNode
        for op in [d.name.value for d in doc.definitions if isinstance(d, OperationDefinitionNode)]:
            # (an explicit null for a nullable variable with a default used in a non-null position is
            # the one error the specification defers to run time: not generated)
            for variables in ({}, {"v": 1}, {"v": True}, {"v": "s"}, {"w": 1}):
                r = execute_sync(schema, doc, make_data(0), variable_values=variables, operation_name=op)
                if r.errors and not any("Variable '$" in e.message and e.path is None for e in r.errors):
                    return {"document": text, "operation": op, "variables": variables,
                            "observed": f"validate() accepts the document, execution over conforming data reports "
                                        f"{[e.message for e in r.errors]!r}"}
    return None
