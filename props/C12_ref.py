"""Bounded stand-in for the statements of C12 that no per-function contract expresses (union of the
rules run alone, invariance under reprinting, determinism, no modification, prefix property of the
error limit): the statement itself, run natively over a corpus.

BOUNDED, never counted as proved.  Bound: the documents of props/C01_pipeline.semantic_corpus() and
the documents of props/parser_replay.corpus() that parse (quick: every 6th, seeded offset), against
SCHEMA_A of props/C01_pipeline.py; error limits 0..5; rule subsets: all specified rules, each
rule alone; reprinting with print_ast, and parsing the same text with no_location=True."""


def messages(errs):
    return [e.message for e in errs]


def search(seed=0, thorough=False, budget_s=300):
    import itertools
    import time
    from graphql import build_schema, parse, validate, print_ast, GraphQLError
    from graphql.utilities import ast_to_dict
    from graphql.validation import specified_rules
    from .C01_pipeline import SCHEMA_A, semantic_corpus
    from .parser_replay import corpus
    t0 = time.time()
    schema = build_schema(SCHEMA_A)
    always = list(semantic_corpus())
    step = 1 if thorough else 6
    n_docs = 0
    for k, text in enumerate(itertools.chain(always, corpus())):
        if k >= len(always) and (k + seed) % step:
            continue
        if time.time() - t0 > budget_s:
            break
        try:
            doc = parse(text)
        except (GraphQLError, RecursionError):
            continue
        n_docs += 1
        snap = ast_to_dict(doc, locations=True)
        try:
            full = validate(schema, doc, max_errors=10 ** 6)
            again = validate(schema, doc, max_errors=10 ** 6)
        except Exception as e:  # noqa: BLE001
            continue            # totality is C01's subject (props/C01_pipeline.py)
        if messages(full) != messages(again):
            return {"document": text, "observed": f"validating twice: {messages(full)!r} then {messages(again)!r}"}
        if ast_to_dict(doc, locations=True) != snap:
            return {"document": text, "observed": "validate() modified the document"}
        # the error limit: at most n errors plus the abort notice, a prefix of the unlimited list
        for n in range(0, 6):
            lim = validate(schema, doc, max_errors=n)
            want = messages(full)[:n]
            got = messages(lim)
            if len(full) > n:
                if got[:-1] != want or len(got) != n + 1 or "aborted" not in got[-1].lower():
                    return {"document": text, "max_errors": n,
                            "observed": f"limited {got!r}; the unlimited list is {messages(full)!r}: expected its first "
                                        f"{n} followed by the abort notice"}
            elif got != messages(full):
                return {"document": text, "max_errors": n,
                        "observed": f"limited {got!r} differs from the unlimited {messages(full)!r} (limit not reached)"}
        # union of the rules run alone (as multisets of messages)
        if len(full) <= 40:
            alone = []
            for r in specified_rules:
                try:
                    alone += messages(validate(schema, doc, [r], max_errors=10 ** 6))
                except Exception:  # noqa: BLE001
                    alone = None
                    break
            if alone is not None and sorted(alone) != sorted(messages(full)):
                return {"document": text,
                        "observed": f"all rules together {sorted(messages(full))!r}, the rules alone {sorted(alone)!r}"}
        # reprinting / location-free parse
        try:
            re = validate(schema, parse(print_ast(doc)), max_errors=10 ** 6)
            nl = validate(schema, parse(text, no_location=True), max_errors=10 ** 6)
        except Exception:  # noqa: BLE001
            continue
        if sorted(messages(re)) != sorted(messages(full)):
            return {"document": text, "observed": f"after reprinting {messages(re)!r}, before {messages(full)!r}"}
        if sorted(messages(nl)) != sorted(messages(full)):
            return {"document": text,
                    "observed": f"parsed with no_location=True {messages(nl)!r}, with locations {messages(full)!r}"}
    if n_docs < 50:
        raise RuntimeError(f"C12_ref: only {n_docs} documents")
    search.executed = n_docs
    return None
