"""C01 - the request pipeline is total (DESIGN.md section 4, C01)."""
from .common import run_native, A

LEVEL = "other"
EXPLANATION = (
    "Decides the lexing half deductively: for every lexer function (Lexer readers, escape "
    "readers, character classes, hex helpers, print_code_point_at) every index, key, ord/chr "
    "value and utf-16 decode is safe and the only exception that can leave is "
    "GraphQLSyntaxError, for all source strings and offsets (symbolic body, no bound). "
    "Loop variants prove termination of every lexer loop. The parser, graphql_impl and the "
    "resolver-exception half of the statement are listed under 'unverified' until their "
    "contracts are added.")
UNVERIFIED = [
    "Parser methods (exception frame), the five parse entry points",
    "graphql_impl parse/validate stages; validate() and the executor never raising",
    "execute_field/handle_field_error/located_error wrapping of resolver exceptions",
    "GraphQLSyntaxError.__init__ -> GraphQLError.__init__ is assumed total (it calls "
    "Source.get_location, which is under contract in C10)",
    "recursion depth (A4)",
]
TRUSTED = []
ASSUMPTIONS = [A["A1"], A["A2"], A["A3"], A["A4"], A["ALIAS"], A["ENGINE"]]
LIFTERS = ["props.C01:lift"]


def lift(model, req):
    """Replay on the public entry points: any exception other than GraphQLSyntaxError confirms."""
    from .C10 import find_bodies
    from graphql import parse, parse_value, parse_const_value, parse_type, GraphQLSyntaxError
    from graphql.language import parse_schema_coordinate, Lexer, Source, TokenKind
    bodies = find_bodies(model, [])
    for k in ("body",):
        if isinstance(model.get(k), str):
            bodies.append(model[k])
    cands = []
    for b in bodies:
        cands += [b, b[:50]]
        for i in range(min(len(b), 12)):
            cands += [b[i:], '"' + b[i:], '{ f(a: "' + b[i:], '"""' + b[i:]]
    seen = set()
    for text in cands:
        if text in seen:
            continue
        seen.add(text)
        for fn in (parse, parse_value, parse_const_value, parse_type, parse_schema_coordinate):
            try:
                fn(text)
            except GraphQLSyntaxError:
                pass
            except Exception as e:  # noqa: BLE001
                return {"confirmed": True, "entry": fn.__name__, "input": text,
                        "observed": f"{type(e).__name__}: {e}"}
    return {"confirmed": False}


WITNESSES = {
 "F13-subscription-defer-invalid-argument": r'''
from graphql import build_schema, graphql_sync, parse, validate
s = build_schema("type Query { a: Int } type Subscription { a: Int }")
for q in ['subscription { ... @defer(if: "bad") { a } }', 'subscription { ... @defer(if: 1) { a } }',
          'subscription { ... @defer(label: 3) { a } }']:
    r = graphql_sync(s, q)
    assert r.data is None and r.errors
''',
 'F1-lexer-escape-at-end-of-source': r'''
from graphql import parse, parse_value, GraphQLSyntaxError
for s in ['{ f(a: "\\', '"\\u12', '"\\uD83D\\u12', '{f(a:"\\u', '"\\u{', '"\\u{12']:
    for fn in (parse, parse_value):
        try:
            fn(s)
        except GraphQLSyntaxError:
            pass
''',
}


def native_checks(tier, seed):
    """Replays of the witnesses of repaired defects (KNOWN_FINDINGS.json 'fixed'): a fixed entry
    suppresses nothing, so the violation is reported again if it ever returns."""
    out = []
    for name, code in WITNESSES.items():
        rc, outp = run_native(code)
        out.append({"id": f"C01/native/{name}", "failed": rc != 0, "output": outp,
                    "input": code.strip()})
    return out
