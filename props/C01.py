"""C01 - the request pipeline is total (DESIGN.md section 4, C01)."""
from .common import run_native, A

LEVEL = "other"
EXPLANATION = (
    "Decides the lexing half deductively: for every lexer function (Lexer readers, escape "
    "readers, character classes, hex helpers, print_code_point_at) every index, key, ord/chr "
    "value and utf-16 decode is safe and the only exception that can leave is "
    "GraphQLSyntaxError, for all source strings and offsets (symbolic body, no bound). "
    "Loop variants prove termination of every lexer loop. Every method of Parser, Parser.__init__ "
    "and the five entry points (parse, parse_value, parse_const_value, parse_type, "
    "parse_schema_coordinate; source a str or a Source) are under generated contracts "
    "(contracts/parser.py): the only exception that can leave is GraphQLSyntaxError - keyword "
    "validity of every AST node constructor, the dispatch tables behind getattr(self, 'parse_...'), "
    "Enum lookups and None-able token values included. The higher-order helpers (many, any, "
    "optional_many, delimited_many) are verified against a generic parser-function contract that "
    "every call site must meet. Validation: the recursions that follow fragment spreads "
    "(forbid_defer_stream, forbid_unconditional_defer_stream, and collect_fields_impl on the execution "
    "side) terminate - every recursive call lowers (fragment names not yet visited, size of the "
    "selection set) lexicographically; 39 visitor methods of the validation rules have a generated "
    "exception-frame contract (only GraphQLError leaves, whatever the context getters return); "
    "coerce_input_value turns whatever a leaf type's coercion raises into 'invalid'; located_error "
    "forwards only well-typed arguments to the error constructor. graphql_impl, validate() as a whole "
    "and the rest of the resolver-exception half are listed under 'unverified' (bounded stand-ins).")
def _rule_methods_not_decided():
    """Visitor methods of the validation rules for which a frame contract is generated
    (contracts/zz_rules.py) but which the engine does not decide on the pinned tree."""
    try:
        from contracts import zz_rules
        names = sorted(f"{c.__name__}.{n}" for c in zz_rules.rule_classes()
                       for n, _f in zz_rules.visitor_methods(c)
                       if f"{c.__name__}.{n}" not in zz_rules.RULE_METHODS_DECIDED)
    except Exception as e:  # noqa: BLE001
        return ["the visitor methods of the validation rules that are not in contracts/zz_rules.RULE_METHODS_DECIDED "
                "(their generated exception-frame contract is outside the supported subset; named in evidence/C01.json)"]
    return ["validation rule methods whose generated exception-frame contract is NOT decided (outside the "
            "supported subset; covered by the bounded pipeline corpus only): " + ", ".join(names)]


UNVERIFIED = [
    "Lexer.advance / Lexer.lookahead are verified relative to the invariant of the linked token chain "
    "(assumed for the current token at calls and for every token read through .next; established by "
    "Lexer.__init__, kept by lookahead - first iteration peeled so the alias token is self.token is "
    "exact); for a SchemaCoordinateLexer the override of read_next_token is what runs: not covered",
    "termination of the parser's loops and recursion (no progress measure over the token chain)",
    "graphql_impl parse/validate stages; validate() as a whole and the executor never raising: the visitor "
    "methods of 39 rule methods have a decided exception frame (contracts/zz_rules.py, context getters "
    "assumed to return what their annotations say), the rest and the composition only a bounded "
    "stand-in over a grammar-driven and a semantic corpus (props/C01_pipeline.py), not proved",
    "execute_field/handle_field_error/located_error wrapping of resolver exceptions",
    "GraphQLSyntaxError.__init__ -> GraphQLError.__init__ is assumed total (it calls "
    "Source.get_location, which is under contract in C10)",
    "recursion depth (A4): the fragment walkers are proved to terminate, not to stay below the "
    "interpreter's recursion limit (known finding K1)",
] + _rule_methods_not_decided()
TRUSTED = []
ASSUMPTIONS = [A["A1"], A["A2"], A["A3"], A["A4"], A["ALIAS"], A["ENGINE"]]
LIFTERS = ["props.C01:lift"]


def lift(model, req):
    """Replay on the public entry points: any exception other than GraphQLSyntaxError confirms."""
    from .C10 import find_bodies
    from graphql import parse, parse_value, parse_const_value, parse_type, GraphQLSyntaxError
    from graphql.language import parse_schema_coordinate, Lexer, Source, TokenKind
    bodies = find_bodies(model, [])
    for k in ("body",):
        if isinstance(model.get(k), str):
            bodies.append(model[k])
    cands = []
    for b in bodies:
        cands += [b, b[:50]]
        for i in range(min(len(b), 12)):
            cands += [b[i:], '"' + b[i:], '{ f(a: "' + b[i:], '"""' + b[i:]]
    if "located_error" in str(req.get("target", "")):
        return lift_resolver_errors()
    if "suggestion_list" in str(req.get("target", "")):
        return lift_suggestions()
    if "coerce_input_value" in str(req.get("target", "")):
        return lift_custom_scalar_errors()
    if ".parser." in str(req.get("target", "")).replace(":", ".") and not bodies:
        from .parser_replay import search
        return search()
    seen = set()
    for text in cands:
        if text in seen:
            continue
        seen.add(text)
        for fn in (parse, parse_value, parse_const_value, parse_type, parse_schema_coordinate):
            try:
                fn(text)
            except GraphQLSyntaxError:
                pass
            except Exception as e:  # noqa: BLE001
                return {"confirmed": True, "entry": fn.__name__, "input": text,
                        "observed": f"{type(e).__name__}: {e}"}
    return {"confirmed": False}


def lift_custom_scalar_errors():
    """Custom scalars whose input coercion raises exceptions of odd classes on variable values
    (directly, in a list, in an input object): each must become an invalid-variable error."""
    import decimal
    from graphql import GraphQLScalarType, build_schema, graphql_sync

    class Odd(Exception):
        pass
    raisers = [KeyError("k"), OverflowError("o"), decimal.InvalidOperation(), Odd("odd"), ZeroDivisionError(),
               AttributeError("a"), RuntimeError("r"), LookupError(), UnicodeError("u"), AssertionError("x")]
    for exc in raisers:
        def coerce(value, _exc=exc):
            raise _exc
        schema = build_schema("scalar S input I { s: S, l: [S] } type Query { f(s: S, l: [S], i: I): String }")
        schema.type_map["S"].coerce_input_value = coerce
        schema.type_map["S"].parse_value = coerce
        for q, v in (("query($v: S){ f(s: $v) }", "x"), ("query($v: [S]){ f(l: $v) }", ["x"]),
                     ("query($v: I){ f(i: $v) }", {"s": "x"}), ("query($v: I){ f(i: $v) }", {"l": ["x"]})):
            try:
                r = graphql_sync(schema, q, variable_values={"v": v})
                assert r.data is None and r.errors
            except Exception as e:  # noqa: BLE001
                return {"confirmed": True, "entry": "graphql_sync",
                        "input": {"query": q, "variables": {"v": v},
                                  "schema": f"scalar S whose input coercion raises {type(exc).__name__}"},
                        "observed": f"{type(e).__name__}: {e}"}
    return {"confirmed": False}


def lift_resolver_errors():
    """Resolver exceptions of odd classes: attributes named like those of GraphQLError but of
    other types.  Each must surface as a located error in the result."""
    from graphql import build_schema, graphql_sync
    schema = build_schema("type Query { f: String }")
    attr_sets = [{"nodes": ["x"]}, {"nodes": "x"}, {"nodes": 5}, {"positions": "abc", "source": "zz"},
                 {"positions": [None]}, {"positions": 7}, {"positions": ["a"], "source": "q"},
                 {"source": 5}, {"path": 5}, {"locations": 7}, {"extensions": [1]},
                 {"original_error": 3}, {"message": None}, {"message": 5}, {"nodes": [None]},
                 {"nodes": (1, 2)}, {"positions": (1.5,), "source": "abc"}]
    for attrs in attr_sets:
        class Odd(Exception):
            pass

        def resolver(*_a, _attrs=attrs, **_k):
            e = Odd("boom")
            for k, v in _attrs.items():
                setattr(e, k, v)
            raise e
        try:
            r = graphql_sync(schema, "{ f }", root_value={"f": resolver})
            assert r.errors and r.data == {"f": None}
            for err in r.errors:
                f = err.formatted
                assert isinstance(f.get("message"), str)
                assert "extensions" not in f or isinstance(f["extensions"], dict)
        except Exception as ex:  # noqa: BLE001
            return {"confirmed": True, "entry": "graphql_sync",
                    "input": {"query": "{ f }", "resolver raises": f"Exception with attributes {attrs!r}"},
                    "observed": f"{type(ex).__name__}: {ex}"}
    return {"confirmed": False}


def lift_suggestions():
    """Unknown keys of an input-object variable value reach suggestion_list: search keys whose
    lower-cased form has another length (the solver's model leaves str.lower() unconstrained)."""
    import sys
    from graphql import build_schema, graphql_sync
    schema = build_schema("input I { abc: String, name: String } type Query { f(i: I): String }")
    odd = [chr(c) for c in range(sys.maxunicode + 1)
           if not 0xD800 <= c <= 0xDFFF and len(chr(c).lower()) != 1][:40]
    keys = []
    for ch in odd + ["\u0130"]:
        keys += [ch, ch + "b", "a" + ch, ch + "bc", "ab" + ch, ch + ch, "nam" + ch, ch + "ame"]
    for key in keys:
        try:
            r = graphql_sync(schema, "query($i: I){ f(i:$i) }", variable_values={"i": {key: 1}})
            assert r.errors
        except Exception as e:  # noqa: BLE001
            return {"confirmed": True, "entry": "graphql_sync",
                    "input": {"query": "query($i: I){ f(i:$i) }", "variables": {"i": {key: 1}}},
                    "observed": f"{type(e).__name__}: {e}"}
    return {"confirmed": False}


WITNESSES = {
 "K6-exception-whose-own-str-or-getattr-misbehaves-escapes-from-a-root-field": r'''
from graphql import build_schema, graphql_sync
schema = build_schema("type Query { x: String inner: Query }")
class E1(Exception):
    def __init__(self, code): self.code = code
    def __str__(self): return self.code            # sloppy: not a string
class E2(Exception):
    def __init__(self, payload):
        super().__init__("remote"); self.payload = payload
    def __getattr__(self, name): return self.payload[name]   # raises KeyError, not AttributeError
for exc in (E1(5), E2({"code": 1})):
    def raiser(*_a, _e=exc): raise _e
    r = graphql_sync(schema, "{ x }", {"x": raiser})
    assert r.data == {"x": None} and r.errors and r.errors[0].path == ["x"], r
''',
 "F24-F25-digit-runs-beyond-the-int-str-limit": r'''
from graphql import build_schema, graphql_sync
s = build_schema("input I { abc: String } type Query { f(i: I): String }")
run = "1" * 5000
r = graphql_sync(s, "{ f(i: {a%s: 1}) f(i: {a%sx: 1}) }" % (run, run))            # F24: natural_comparison_key
assert r.data is None and r.errors
r = graphql_sync(s, "query($i: I){ f(i:$i) }", variable_values={"i": {10 ** 5000: 1}})   # F25: unknown key message
assert r.data is None and r.errors and "unknown field" in r.errors[0].message
r = graphql_sync(s, "{ k%s: f k%s: __typename }" % (run, run))
assert r.errors
''',
 "F20-stream-on-typename-under-a-union": r'''
from graphql import build_schema, graphql_sync, parse, validate
s = build_schema("type Dog { n: String } type Cat { n: String } union Pet = Dog | Cat type Query { pet: Pet pets: [Pet] }")
for q in ("{ pet { __typename @stream } }", "{ pets { __typename @stream(initialCount: 1) } }"):
    errs = validate(s, parse(q))
    assert any("non-list field" in e.message for e in errs), errs
    r = graphql_sync(s, q)
    assert r.data is None and r.errors
''',
 "F21-integer-variable-beyond-the-str-digit-limit": r'''
from graphql import build_schema, graphql_sync
s = build_schema("input I { n: [Int] } type Query { f(i: Int, s: String, x: ID, fl: Float, b: Boolean, o: I): String }")
big = 10 ** 5000
for q, v in (("query($v: Int){f(i:$v)}", big), ("query($v: String){f(s:$v)}", big), ("query($v: ID){f(x:$v)}", -big),
             ("query($v: Float){f(fl:$v)}", big), ("query($v: Boolean){f(b:$v)}", big), ("query($v: I){f(o:$v)}", {"n": [big]})):
    r = graphql_sync(s, q, variable_values={"v": v})
    assert r.data is None and r.errors and "invalid value" in r.errors[0].message, r
''',
 "F22-input-object-variable-with-a-key-that-is-not-a-string": r'''
from graphql import build_schema, graphql_sync
s = build_schema("input I { abc: String } type Query { f(i: I): String }")
for key in (1, None, ("a",), b"abc", 2.5, frozenset()):
    r = graphql_sync(s, "query($i: I){ f(i:$i) }", variable_values={"i": {key: 1}})
    assert r.data is None and r.errors and "unknown field" in r.errors[0].message, r
''',
 # not repaired (KNOWN_FINDINGS.json 'known'): reported as KNOWN-FINDING while it fails
 "K1-fragment-chain-deeper-than-the-recursion-limit": r'''
import sys
from graphql import build_schema, graphql_sync
assert sys.getrecursionlimit() == 1000
s = build_schema("type Query { a: Int }")
n = 1200
q = "{ ...F0 } " + " ".join(f"fragment F{i} on Query {{ ...F{i+1} }}" for i in range(n)) + f" fragment F{n} on Query {{ a }}"
r = graphql_sync(s, q)      # RecursionError escapes (NoFragmentCyclesRule / OverlappingFieldsCanBeMergedRule / collect_fields_impl)
assert r.data == {"a": None} or r.errors
''',
 "F19-fragment-cycle-under-mutation-or-subscription": r'''
from graphql import build_schema, graphql_sync, parse, validate
s = build_schema("type Query { a: Int } type Mutation { a: Int } type Subscription { a: Int }")
for op, t in (("mutation", "Mutation"), ("subscription", "Subscription"), ("query", "Query")):
    for q in (f"{op} {{ ...A }} fragment A on {t} {{ a ...A }}",
              f"{op} {{ ...A }} fragment A on {t} {{ ...B }} fragment B on {t} {{ a ... {{ ...A @defer }} }}"):
        errs = validate(s, parse(q))
        assert any("within itself" in e.message for e in errs), errs
        r = graphql_sync(s, q)
        assert r.data is None and r.errors
''',
 "F16-resolver-exception-with-odd-attributes": r'''
from graphql import build_schema, graphql_sync
s = build_schema("type Query { f: String }")
for attrs in ({"nodes": ["x"]}, {"nodes": 5}, {"positions": "abc", "source": "zz"}, {"positions": [None]}):
    def res(*a, _attrs=attrs, **k):
        e = Exception("boom")
        for n, v in _attrs.items():
            setattr(e, n, v)
        raise e
    r = graphql_sync(s, "{ f }", root_value={"f": res})
    assert r.data == {"f": None} and r.errors and r.errors[0].message == "boom"
''',
 "F14-variable-key-whose-lowercase-is-longer": r'''
from graphql import build_schema, graphql_sync
s = build_schema("input I { abc: String } type Query { f(i: I): String }")
for key in ["\u0130b", "\u0130", "a\u0130", "\u0130\u0130"]:
    r = graphql_sync(s, "query($i: I){ f(i:$i) }", variable_values={"i": {key: 1}})
    assert r.data is None and r.errors
''',
 "F13-subscription-defer-invalid-argument": r'''
from graphql import build_schema, graphql_sync, parse, validate
s = build_schema("type Query { a: Int } type Subscription { a: Int }")
for q in ['subscription { ... @defer(if: "bad") { a } }', 'subscription { ... @defer(if: 1) { a } }',
          'subscription { ... @defer(label: 3) { a } }']:
    r = graphql_sync(s, q)
    assert r.data is None and r.errors
''',
 'F1-lexer-escape-at-end-of-source': r'''
from graphql import parse, parse_value, GraphQLSyntaxError
for s in ['{ f(a: "\\', '"\\u12', '"\\uD83D\\u12', '{f(a:"\\u', '"\\u{', '"\\u{12']:
    for fn in (parse, parse_value):
        try:
            fn(s)
        except GraphQLSyntaxError:
            pass
''',
}


def bounded_checks(tier, seed):
    """validate() with all specified rules, variable coercion and the execution glue are not under
    contract as a whole: the statement itself (a result object, never an exception) is run over a
    grammar-driven corpus, bounded (props/C01_pipeline.py)."""
    import json
    code = ("import json\nfrom props.C01_pipeline import search\n"
            f"r = search(seed={int(seed)}, thorough={tier == 'thorough'!r})\n"
            "print('BOUNDED ' + json.dumps(r, default=str))")
    rc, outp = run_native(code, timeout=1200)
    res, ok = None, False
    for line in outp.splitlines():
        if line.startswith("BOUNDED "):
            res, ok = json.loads(line[8:]), True
    if not ok:
        raise RuntimeError(outp[-600:])
    return [{"id": "C01/bounded/pipeline-corpus", "function": "graphql.graphql.graphql_sync / validate",
             "tool": "public entry points over a grammar-driven corpus, native",
             "bound": "corpus of props/parser_replay.py (2 kitchen-sink + 19 small documents; truncations "
                      "at token boundaries, single-token deletions and substitutions) x 2 schemas x 3 "
                      "variable mappings; " + ("all candidates" if tier == "thorough" else "every 4th candidate"),
             "failed": res is not None, "input": res, "output": outp[-1500:]}]


def native_checks(tier, seed):
    """Replays of the witnesses of repaired defects (KNOWN_FINDINGS.json 'fixed'): a fixed entry
    suppresses nothing, so the violation is reported again if it ever returns."""
    out = []
    for name, code in WITNESSES.items():
        rc, outp = run_native(code)
        out.append({"id": f"C01/native/{name}", "failed": rc != 0, "output": outp,
                    "input": code.strip()})
    return out
