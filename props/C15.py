"""C15 - input coercion and input validation agree (partial; DESIGN.md section 4, C15)."""
from .common import run_native, A, gtypes_lemmas

LEVEL = "other"
EXPLANATION = (
    "Both members of the value pair are verified against ONE spec predicate Valid(v, T) "
    "(specification input coercion rules: non-null, null, list with the single-item rule, leaf = "
    "'the leaf coercer returns a defined value without raising'): coerce_input_value returns "
    "Undefined <=> not Valid, and a defined result conforms to T (no None under non-null, lists of "
    "conforming items); validate_input_value_impl calls on_error at least once <=> not Valid "
    "(ghost counter of callback calls, callback havocked). Agreement of the two is a corollary and a "
    "one-sided edit breaks exactly one contract. Values are an uninterpreted sort with "
    "tag/projection functions, types an uninterpreted sort (any nesting); list loops use the "
    "index-recursive ghost function ListOk; recursion is proved terminating by the type rank. The "
    "built-in scalar input coercers are verified against their domains (shared with C16), with "
    "exceptional postconditions. The equivalences with Valid are claimed for types without input "
    "objects (NoObj); for input object types both functions are verified for their exception "
    "frame, the operands of every recursive call (the field's own type and value), and the "
    "required-field decision: a field without a defined value makes the value invalid / is "
    "reported exactly when it is required, and every field that has a value (None included) is "
    "validated against its type. The literal coercers of the built-in scalars accept exactly "
    "the literals of their domain. coerce_default_value's memo is verified against a "
    "specification function (a memo read for another type than it was filled for fails). "
    "get_variable_values returns the values only if nothing was reported, else a non-empty error "
    "list bounded by the limit (callback invariant by rely/guarantee). "
    "Literal pair (all input types, valid schema assumed): coerce_input_literal and "
    "validate_input_literal_impl are verified to be total (no exception but a user out_type's / "
    "the callback's) and to take the same decisions on the cases a one-sided edit breaks: a null "
    "literal under non-null, a non-object literal for an input object type, and OneOf - anything "
    "but exactly one field *entry* makes the coercer return Undefined and the validator report. "
    "value_to_literal: every provided field of an input object (None included) gets an entry in "
    "the literal; only Undefined ones are left out (per-iteration contract of the field loop).")
UNVERIFIED = [
    "the input-object branch of the value pair beyond the decisions listed (unknown fields, OneOf, Valid/Conf for input objects): BOUNDED stand-in props/C15_ref.py (the agreement statements over a pool of values, literals and types); termination of the recursion through recursive input objects",
    "purity of coerce_input_literal / coerce_input_value (assumed in the memo proof of coerce_default_value)",
    "coerce_variable_values (assumed: only the callback's GraphQLError leaves it)",
    "full agreement (iff) of the literal pair beyond the listed decisions; ValuesOfCorrectTypeRule",
    "value_to_literal round trip, replace_variables, get_variable_values / coerce_variable_values",
    "GraphQLEnumType.coerce_input_value (modelled as a leaf coercer function)",
]
TRUSTED = []
ASSUMPTIONS = [A["A1"], A["A2"], A["A3"], A["A5"], A["A7"], A["ENGINE"],
               "A5' leaf input coercers (also user supplied) are functions of their argument and do not turn a value into None",
               "iterable inputs are re-iterable collections with a fixed item sequence (one-shot iterators are outside the model: known finding)"]
LIFTERS = ["props.C15:lift"]

LITERALS = ["0", "-0", "1", "-1", "2147483647", "2147483648", "-2147483648", "-2147483649",
            "4294967295", "4294967296", "9007199254740993", "1e3", "1.5", "-1.5e-3", "1e308",
            "1.7976931348623157e308", "1e309", "1e999", "-1e999", "0.0", "1E400", '"a"', '""',
            '"1"', '"""b"""', "true", "false", "null", "E", "[1]", "[1e999]", "{a: 1}"]


def lift(model, req):
    """Leaf literal coercers: replay a pool of literals through the public API and check the
    statement directly: a result conforms to the type, validation reports nothing exactly when
    coercion succeeds, and Int/Float literal coercion agrees with runtime coercion of the number."""
    import math
    from graphql import (GraphQLInt, GraphQLFloat, GraphQLString, GraphQLBoolean, GraphQLID,
                         GraphQLList, GraphQLNonNull, parse_value)
    from graphql.pyutils import Undefined
    from graphql.utilities import coerce_input_literal, validate_input_literal, coerce_input_value

    def conforms(t, v):
        if v is None:
            return True
        if t is GraphQLInt:
            return isinstance(v, int) and not isinstance(v, bool) and -2 ** 31 <= v < 2 ** 31
        if t is GraphQLFloat:
            return isinstance(v, (int, float)) and not isinstance(v, bool) and math.isfinite(v)
        if t in (GraphQLString, GraphQLID):
            return isinstance(v, str)
        if t is GraphQLBoolean:
            return isinstance(v, bool)
        return True
    for t in (GraphQLInt, GraphQLFloat, GraphQLString, GraphQLBoolean, GraphQLID):
        for text in LITERALS:
            node = parse_value(text)
            for ty, unwrap in ((t, lambda x: x), (GraphQLNonNull(t), lambda x: x),
                               (GraphQLList(t), lambda x: x[0] if isinstance(x, list) and x else None)):
                errs = []
                validate_input_literal(node, ty, lambda e, p: errs.append(e))
                try:
                    r = coerce_input_literal(node, ty)
                except Exception as e:  # noqa: BLE001
                    return {"confirmed": True, "input": {"literal": text, "type": str(ty)},
                            "observed": f"coerce_input_literal raised {type(e).__name__}: {e}"}
                if (r is Undefined) != bool(errs):
                    return {"confirmed": True, "input": {"literal": text, "type": str(ty)},
                            "observed": f"coercion gives {r!r} but validation reports {len(errs)} errors"}
                if r is not Undefined and not text.startswith("[") and not conforms(t, unwrap(r)):
                    return {"confirmed": True, "input": {"literal": text, "type": str(ty)},
                            "observed": f"coerced value {r!r} does not conform to {t}"}
                if r is Undefined and ty is t and t in (GraphQLInt, GraphQLFloat) \
                        and text.lstrip("-")[:1].isdigit():
                    # a number literal that runtime coercion of the same number accepts
                    num = int(text) if t is GraphQLInt and text.lstrip("-").isdigit() else None
                    if num is not None and coerce_input_value(num, t) is not Undefined:
                        return {"confirmed": True, "input": {"literal": text, "type": str(ty)},
                                "observed": f"literal rejected but the value {num} is accepted"}
    return {"confirmed": False}


def memo_writers_obligation():
    """The memo invariant of GraphQLDefaultInput (contracts/literals.py, MemoOK) is assumed at the
    callers of coerce_default_value as a class invariant: it is set up by the constructor and kept
    by coerce_default_value.  That nobody else stores the field is decided here, over every module of
    the current tree (finite, syntactic)."""
    import ast
    import os
    from pyvc.world import SRC
    allowed = {("graphql/utilities/coerce_input_value.py", "coerce_default_value"),
               ("graphql/type/definition.py", "__init__")}
    writers = []
    for root, _dirs, files in os.walk(os.path.join(SRC, "graphql")):
        for f in files:
            if not f.endswith(".py"):
                continue
            path = os.path.join(root, f)
            rel = os.path.relpath(path, SRC)
            tree = ast.parse(open(path, encoding="utf-8").read())
            for fn in ast.walk(tree):
                if not isinstance(fn, (ast.FunctionDef, ast.AsyncFunctionDef)):
                    continue
                for n in ast.walk(fn):
                    if isinstance(n, ast.Attribute) and n.attr == "_memoized_coerced_value" \
                            and isinstance(n.ctx, (ast.Store, ast.Del)):
                        writers.append((rel, fn.name))
                    if isinstance(n, ast.Call) and isinstance(n.func, ast.Name) \
                            and n.func.id == "setattr" and any(
                                isinstance(a, ast.Constant) and a.value == "_memoized_coerced_value"
                                for a in n.args):
                        writers.append((rel, fn.name))
    bad = sorted(set(writers) - allowed)
    return {"func": "graphql.type.definition.GraphQLDefaultInput", "kind": "FRAME",
            "text": "_memoized_coerced_value is stored only by its constructor and coerce_default_value",
            "status": "discharged" if not bad else "refuted", "backend": "finite",
            "detail": f"writers: {sorted(set(writers))}",
            "model": None if not bad else {"other_writers": bad}}


def extra_obligations(world, tier, seed):
    import time
    import z3
    from theories import inputs
    out = gtypes_lemmas()
    out.append(memo_writers_obligation())
    for name, f in inputs.REC.lemmas():
        s = z3.Solver()
        s.set("timeout", 20000)
        s.add(z3.Not(f))
        t0 = time.time()
        r = s.check()
        out.append({"func": "theories.inputs", "kind": "LEMMA", "text": name,
                    "status": "discharged" if r == z3.unsat else ("refuted" if r == z3.sat else "unknown"),
                    "backend": "z3", "time_s": round(time.time() - t0, 4)})
    return out


WITNESSES = {
 'F15-float-literal-overflow': r'''
import math
from graphql import GraphQLFloat, parse_value
from graphql.pyutils import Undefined
from graphql.utilities import coerce_input_literal, validate_input_literal
for lit in ['1e309', '1e999', '-1e999', '1E400']:
    errs = []
    validate_input_literal(parse_value(lit), GraphQLFloat, lambda e, p: errs.append(e))
    r = coerce_input_literal(parse_value(lit), GraphQLFloat)
    assert r is Undefined and errs, (lit, r)
assert coerce_input_literal(parse_value('1e308'), GraphQLFloat) == 1e308
''',
 'F9-oneof-literal-duplicate-field': r'''
from graphql import build_schema, parse_value
from graphql.pyutils import Undefined
from graphql.utilities import coerce_input_literal, validate_input_literal
s = build_schema('input O @oneOf { a: Int b: Int } type Query { f(o: O): Int }')
O = s.type_map['O']
for lit in ['{a: 1, a: 2}', '{a: null, a: 1}', '{a: 1}', '{a: 1, b: 2}', '{}']:
    errs = []
    validate_input_literal(parse_value(lit), O, lambda e, p: errs.append(e))
    assert (coerce_input_literal(parse_value(lit), O) is Undefined) == bool(errs), lit
''',
}


def bounded_checks(tier, seed):
    """For input objects the contracts decide the frame, the call operands and the required-field
    decisions only; the agreement statements themselves (value coercion <=> value validation, an
    accepted value has a literal that coerces back to the same result, literal coercion <=> literal
    validation) are run over a pool of values, literals and types - BOUNDED (props/C15_ref.py)."""
    import json
    from .common import run_native
    code = ("import json\nfrom props.C15_ref import search\n"
            "r = search()\nprint('BOUNDED ' + json.dumps(r, default=str))")
    rc, outp = run_native(code, timeout=900)
    res, ok = None, False
    for line in outp.splitlines():
        if line.startswith("BOUNDED "):
            res, ok = json.loads(line[8:]), True
    if not ok:
        raise RuntimeError(outp[-600:])
    return [{"id": "C15/bounded/agreement-over-a-value-and-literal-pool",
             "function": "coerce_input_value / validate_input_value / value_to_literal / coerce_input_literal / validate_input_literal",
             "tool": "the agreement statements of C15 over a pool, native",
             "bound": "12 types over one schema (required fields, defaults, nested, recursive, OneOf, enums, lists) x 317 values "
                      "(scalars incl. falsy ones, None, Undefined, dicts with Undefined members, unknown and non-string keys) "
                      "and 38 literals",
             "failed": res is not None, "input": res, "output": outp[-1000:]}]


def native_checks(tier, seed):
    """Replays of the witnesses of repaired defects (KNOWN_FINDINGS.json 'fixed'): a fixed entry
    suppresses nothing, so the violation is reported again if it ever returns."""
    out = []
    for name, code in WITNESSES.items():
        rc, outp = run_native(code)
        out.append({"id": f"C15/native/{name}", "failed": rc != 0, "output": outp,
                    "input": code.strip()})
    return out
