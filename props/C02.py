"""C02 - execution computes what the specification's algorithm computes (partial: decision points)."""
import ast

from .common import A, gtypes_lemmas, run_native

LEVEL = "other"
EXPLANATION = (
    "A refinement proof of the executor is out of reach; decided are its decision points, each "
    "against the table the specification states: handle_field_error (raises the located error "
    "exactly when error propagation is on and the position is non-null, otherwise records exactly "
    "one error), complete_value (an Exception result is re-raised; a non-null type never yields "
    "None; None/Undefined yield None; then list / leaf / abstract / object dispatch, observable "
    "through ghost call counters of the four completion branches), complete_leaf_value (never "
    "None/Undefined), ensure_valid_runtime_type (an object type that is a possible type of the "
    "abstract type, else GraphQLError), execute_field (whatever the resolver, argument coercion "
    "or completion raise ends in handle_field_error), coerce_argument (CoerceArgumentValues: "
    "missing -> default or required-error; variable without a value -> default unless required; "
    "otherwise the literal is coerced exactly once and stored under out_name or the name), "
    "get_field_entry_key (alias else name), does_fragment_condition_match (DoesFragmentTypeApply), "
    "CollectedErrors.add/has_nulled_position against a (list, set) view with whole-view frame. "
    "MEMO obligations: the sub-selection memo key determines every argument of the computation "
    "(M1) and keeps the objects whose id() it contains alive (M2); the coerced-default memo is "
    "valid only for the type it was computed for (M1).")
UNVERIFIED = [
    "everything that connects these points: recursion through object/list completion, execute_fields ordering, async paths, incremental delivery "
    "(sync part: BOUNDED stand-in props/C02_ref.py, a reference executor compared with execute_sync on generated requests; never counted as proved)",
    "get_argument_values' loop (assumed contract); collect_fields_impl beyond its per-iteration clauses and its termination measure",
    "equality of the assembled response with the specification's; repeated execution only as far as the memo obligations",
]
TRUSTED = []
ASSUMPTIONS = [A["A1"], A["A2"], A["A3"], A["A5"], A["A6"], A["A7"], A["ENGINE"],
               "located_error returns a GraphQLError for every Exception (assumed contract)",
               "the completion branches complete_list/abstract/object_value are assumed (counted, not verified)"]
LIFTERS = []


def _finite(func, kind, text, ok, detail="", witness=None):
    return {"func": func, "kind": kind, "text": text, "backend": "finite",
            "status": "discharged" if ok else "refuted", "detail": detail,
            "model": None if ok else {"detail": detail, "witness": witness}}


def memo_obligations(world):
    """MEMO-M1/M2 of Executor.collect_subfields and MEMO-M1 of coerce_default_value, decided on
    the AST of the current source."""
    out = []
    mod, tree, _ = world.load_module("graphql.execution.executor")
    fn = world.find_def(tree, "Executor.collect_subfields")
    key_exprs = []
    for n in ast.walk(fn):
        if isinstance(n, ast.Assign) and any(isinstance(t, ast.Name) and t.id == "key" for t in n.targets):
            v = n.value
            key_exprs = [v.body, v.orelse] if isinstance(v, ast.IfExp) else [v]
    params = ["return_type", "field_details_list"]
    ok = bool(key_exprs)
    detail = []
    for k in key_exprs:
        names = {x.id for x in ast.walk(k) if isinstance(x, ast.Name)}
        missing = [p for p in params if p not in names]
        if missing:
            ok = False
            detail.append(f"{ast.unparse(k)} does not depend on {missing}")
    out.append(_finite("Executor.collect_subfields", "MEMO-M1",
                       "every alternative of the memo key depends on return_type and on the field details",
                       ok, "; ".join(detail), "seeded/C02_m1"))
    # M2: ids in the key -> the objects are stored with the entry
    uses_id = any(isinstance(x, ast.Name) and x.id == "id" for k in key_exprs for x in ast.walk(k))
    stored = []
    for n in ast.walk(fn):
        if isinstance(n, ast.Assign) and isinstance(n.targets[0], ast.Subscript) and isinstance(
                n.targets[0].value, ast.Name) and n.targets[0].value.id == "relevant_sub_fields":
            stored.append(n.value)
    keeps = any(isinstance(x, ast.Name) and x.id == "field_details_list"
                for v in stored for x in ast.walk(v))
    out.append(_finite("Executor.collect_subfields", "MEMO-M2",
                       "objects whose id() is part of the key are kept alive by the entry",
                       (not uses_id) or keeps,
                       f"stored value: {[ast.unparse(v) for v in stored]}", "props.C03 WITNESS_F6"))
    # coerce_default_value: the memo is compared with the type it was computed for
    cmod, ctree, _ = world.load_module("graphql.utilities.coerce_input_value")
    g = world.find_def(ctree, "coerce_default_value")
    src = ast.unparse(g)
    reads_type = "input_value.type" in src
    guarded = any(isinstance(n, ast.Compare) and any(isinstance(o, (ast.Is, ast.Eq)) for o in n.ops)
                  and "type" in ast.unparse(n) and "memo" in ast.unparse(n)
                  for n in ast.walk(g))
    out.append(_finite("coerce_default_value", "MEMO-M1",
                       "the memoised coerced default is reused only for the type it was coerced for",
                       (not reads_type) or guarded, "no comparison of the memo's type with input_value.type"
                       if not guarded else "", "findings/F7_default_memo_shared.py"))
    return out


def schema_memo_obligations():
    """DoesFragmentTypeApply and abstract completion ask the schema's memoised sub-type / possible-type
    maps: each memo must be filled under the key it is read with (finite, shared with C12)."""
    from .C12 import memo_key_obligations
    return [o for o in memo_key_obligations() if "graphql.type.schema" in o["func"]]


def extra_obligations(world, tier, seed):
    return gtypes_lemmas() + memo_obligations(world) + schema_memo_obligations()


WITNESS_F7 = r'''
from graphql import build_schema, extend_schema, parse, graphql_sync
A = build_schema('input I { a: Int = 1 } type Query { f(x: I = {}): String }')
B = extend_schema(A, parse('extend input I { b: Int = 2 }'))
seen = []
def res(root, info, **args):
    seen.append(args); return 'x'
A.query_type.fields['f'].resolve = res; B.query_type.fields['f'].resolve = res
graphql_sync(B, '{f}'); graphql_sync(A, '{f}'); graphql_sync(B, '{f}')
assert seen == [{'x': {'a': 1, 'b': 2}}, {'x': {'a': 1}}, {'x': {'a': 1, 'b': 2}}], seen
'''


def bounded_checks(tier, seed, pid="C02", variants="range(7)"):
    """What connects the verified decision points (recursion through object / list completion,
    ordering, null propagation, fragments and directives in CollectFields) is not under contract:
    a reference executor written from the specification stands in, bounded (props/C02_ref.py)."""
    import json
    code = ("import json\nfrom props.C02_ref import search\n"
            f"r = search(seed={int(seed)}, thorough={tier == 'thorough'!r}, variants={variants})\n"
            "print('BOUNDED ' + json.dumps(r, default=str))\nprint('EXECUTED', search.executed if r is None else '-')")
    rc, outp = run_native(code, timeout=1500)
    res, ok = None, False
    for line in outp.splitlines():
        if line.startswith("BOUNDED "):
            res, ok = json.loads(line[8:]), True
    if not ok:
        raise RuntimeError(outp[-600:])
    return [{"id": f"{pid}/bounded/reference-executor",
             "function": "execute_sync (Executor.execute_operation .. complete_value, collect_fields)",
             "tool": "reference ExecuteSelectionSet / CollectFields / CompleteValue / error propagation vs execute_sync, native",
             "bound": "one schema; validated documents { P { A [B [C]] } } over 27 + 16 selection atoms (aliases, "
                      "arguments and defaults, @skip/@include literal and variable, inline fragments, spreads), all "
                      "single atoms and ordered pairs + 400 seeded triples per parent; data variants " + variants + " "
                      "(conforming, nulls, wrong kinds, raising resolvers, non-dict mappings); "
                      + ("every request" if tier == "thorough" else "every 2nd request") + "; sync only, no @defer/@stream",
             "failed": res is not None, "input": res, "output": outp[-1500:]}]


def native_checks(tier, seed):
    rc, outp = run_native(WITNESS_F7)
    return [{"id": "C02/native/F7-default-memo-shared-between-schemas", "failed": rc != 0,
             "output": outp, "input": WITNESS_F7.strip()}]
