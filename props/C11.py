"""C11 - AST traversal (partial: safety for all trees and visitors, identity, isolation)."""
from .common import A, run_native

LEVEL = "other"
EXPLANATION = (
    "visit() is verified with the tree and the visitor havocked: nodes are arbitrary values "
    "(objects, tuples, None), attribute reads are uninterpreted functions of (object, name), the "
    "key table is an arbitrary mapping, and every visitor function returns any value or raises any "
    "exception. Under a 12-clause loop invariant over the stack depth (linked frames as symbolic "
    "objects with ghost depth / frames_ok / edits_empty predicates) every list pop, index and "
    "attribute access of the traversal is safe for every tree, every visitor and every decision "
    "it returns - including skipping, removing or replacing the root -; no exception other than "
    "TypeError (non-node) or what a visitor function raises can leave; a traversal in which no "
    "visitor call returned an editing value returns the identical root object (ghost counter of "
    "editing results); and after entering a node the keys traversed are the table entry of the "
    "kind of the node actually entered (after an enter-replacement). ParallelVisitor's enter/leave "
    "closures carry the isolation contracts (shared with C12). Finite: QUERY_DOCUMENT_KEYS lists "
    "exactly the node-valued fields of every concrete node class.")
UNVERIFIED = [
    "each reachable node entered exactly once, in document order, with key/parent/path/ancestors describing its position",
    "that the order of QUERY_DOCUMENT_KEYS entries is document order (no independent oracle in the code)",
    "the exact effect of edits: the edit application loop (node.pop/node[...] on the copied tuple) and the rebuilt node are waived/havocked",
    "parent[key] after returning from a child (needs a relation between frames and ancestors): waived",
    "that the input tree is never mutated is implied by the frame (no store to non-local objects is generated) but node classes are user extensible",
]
TRUSTED = []
ASSUMPTIONS = [A["A1"], A["A2"], A["A3"], A["A5"], A["A6"], A["ENGINE"],
               "attribute reads on user objects that passed isinstance(Node/Visitor) are total functions of (object, name)",
               "instances of Node are truthy"]
LIFTERS = []

WITNESSES = {
 "F4-root-skip-remove-replace": r'''
from graphql import parse, visit, Visitor, SKIP, REMOVE, BREAK
d = parse('{a {b} c}')
for r in (SKIP, False, REMOVE, Ellipsis, 42, BREAK, None):
    class V(Visitor):
        def enter(self, node, *a):
            return r
    out = visit(d, V())
    if r in (SKIP, False, BREAK, None):
        assert out is d
''',
}


def extra_obligations(world, tier, seed):
    import dataclasses
    from graphql.language import ast
    from graphql.language.ast import QUERY_DOCUMENT_KEYS, Node
    classes = [c for c in vars(ast).values() if isinstance(c, type) and issubclass(c, Node)
               and dataclasses.is_dataclass(c) and isinstance(getattr(c, "kind", None), str)]
    out = []
    for c in sorted(classes, key=lambda c: c.__name__):
        if any(o is not c and issubclass(o, c) for o in classes):
            continue   # abstract base
        nodef = {f.name for f in dataclasses.fields(c) if f.name != "loc" and "Node" in str(f.type)}
        keys = QUERY_DOCUMENT_KEYS.get(c.kind)
        ok = (keys is not None and set(keys) == nodef) or (keys is None and not nodef)
        out.append({"func": "graphql.language.ast.QUERY_DOCUMENT_KEYS", "kind": "FINITE",
                    "text": f"{c.kind}: keys == node-valued fields of {c.__name__}",
                    "status": "discharged" if ok else "refuted", "backend": "finite",
                    "detail": f"keys={keys} fields={sorted(nodef)}",
                    "model": None if ok else {"kind": c.kind, "keys": keys, "node_fields": sorted(nodef)}})
    return out


def native_checks(tier, seed):
    out = []
    for name, code in WITNESSES.items():
        rc, outp = run_native(code)
        out.append({"id": f"C11/native/{name}", "failed": rc != 0, "output": outp,
                    "input": code.strip()})
    return out
