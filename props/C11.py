"""C11 - AST traversal (partial: safety for all trees and visitors, identity, isolation)."""
from .common import A, run_native

LEVEL = "other"
EXPLANATION = (
    "visit() is verified with the tree and the visitor havocked: nodes are arbitrary values "
    "(objects, tuples, None), attribute reads are uninterpreted functions of (object, name), the "
    "key table is an arbitrary mapping, and every visitor function returns any value or raises any "
    "exception. Under a 12-clause loop invariant over the stack depth (linked frames as symbolic "
    "objects with ghost depth / frames_ok / edits_empty predicates) every list pop, index and "
    "attribute access of the traversal is safe for every tree, every visitor and every decision "
    "it returns - including skipping, removing or replacing the root -; no exception other than "
    "TypeError (non-node) or what a visitor function raises can leave; a traversal in which no "
    "visitor call returned an editing value returns the identical root object (ghost counter of "
    "editing results); and after entering a node the keys traversed are the table entry of the "
    "kind of the node actually entered (after an enter-replacement). ParallelVisitor's enter/leave "
    "closures carry the isolation contracts (shared with C12). Finite: QUERY_DOCUMENT_KEYS lists "
    "exactly the node-valued fields of every concrete node class.")
UNVERIFIED = [
    "each reachable node entered exactly once, in document order, with key/parent/path/ancestors describing its position",
    "that the order of QUERY_DOCUMENT_KEYS entries is document order: decided only against the order in which the Parser methods parse the children (finite, syntactic comparison)",
    "the exact effect of edits: the edit application loop (node.pop/node[...] on the copied tuple) and the rebuilt node are waived/havocked",
    "parent[key] after returning from a child (needs a relation between frames and ancestors): waived",
    "that the input tree is never mutated is implied by the frame (no store to non-local objects is generated) but node classes are user extensible",
]
TRUSTED = []
ASSUMPTIONS = [A["A1"], A["A2"], A["A3"], A["A5"], A["A6"], A["ENGINE"],
               "attribute reads on user objects that passed isinstance(Node/Visitor) are total functions of (object, name)",
               "instances of Node are truthy"]
LIFTERS = []

WITNESSES = {
 "K7-edit-followed-by-break-at-the-same-level-returns-the-pending-edit": r'''
from graphql import parse, visit, Visitor, BREAK, REMOVE
from graphql.language import DocumentNode, FieldNode, NameNode
doc = parse("{ a b c }", no_location=True)
class V(Visitor):
    def enter_field(self, node, *_):
        if node.name.value == "a":
            return FieldNode(name=NameNode(value="z"))
        if node.name.value == "b":
            return BREAK
r = visit(doc, V())
assert isinstance(r, DocumentNode), f"visit() returned {type(r).__name__}, not a document"
class W(Visitor):
    def leave_field(self, node, *_):
        return REMOVE if node.name.value == "a" else BREAK if node.name.value == "b" else None
r = visit(doc, W())
assert isinstance(r, DocumentNode), f"visit() returned {r!r}, not a document"
''',
 "F17-remove-single-valued-child": r'''
from graphql import parse, visit, Visitor, REMOVE, print_ast
d = parse('{ a: b { c } }')
class V(Visitor):
    def enter_name(self, node, key, parent, path, ancestors):
        if key == 'alias':
            return REMOVE
out = visit(d, V())
assert out.definitions[0].selection_set.selections[0].alias is None
assert print_ast(out) == print_ast(parse('{ b { c } }'))
''',
 "F18-leave-skip-keeps-edits": r'''
from graphql import parse, visit, Visitor, REMOVE, SKIP, print_ast
d = parse('{ a b }')
class V(Visitor):
    def enter_field(self, node, *a):
        if node.name.value == 'a':
            return REMOVE
    def leave_selection_set(self, node, *a):
        return SKIP
out = visit(d, V())
assert print_ast(out) == print_ast(parse('{ b }')), print_ast(out)
''',
 "F4-root-skip-remove-replace": r'''
from graphql import parse, visit, Visitor, SKIP, REMOVE, BREAK
d = parse('{a {b} c}')
for r in (SKIP, False, REMOVE, Ellipsis, 42, BREAK, None):
    class V(Visitor):
        def enter(self, node, *a):
            return r
    out = visit(d, V())
    if r in (SKIP, False, BREAK, None):
        assert out is d
''',
}


def extra_obligations(world, tier, seed):
    return key_table_obligations() + parse_order_obligations(world)


def key_table_obligations():
    import dataclasses
    from graphql.language import ast
    from graphql.language.ast import QUERY_DOCUMENT_KEYS, Node
    classes = [c for c in vars(ast).values() if isinstance(c, type) and issubclass(c, Node)
               and dataclasses.is_dataclass(c) and isinstance(getattr(c, "kind", None), str)]
    out = []
    for c in sorted(classes, key=lambda c: c.__name__):
        if any(o is not c and issubclass(o, c) for o in classes):
            continue   # abstract base
        nodef = {f.name for f in dataclasses.fields(c) if f.name != "loc" and "Node" in str(f.type)}
        keys = QUERY_DOCUMENT_KEYS.get(c.kind)
        ok = (keys is not None and set(keys) == nodef) or (keys is None and not nodef)
        out.append({"func": "graphql.language.ast.QUERY_DOCUMENT_KEYS", "kind": "FINITE",
                    "text": f"{c.__name__}: the key table lists exactly its node-valued fields",
                    "status": "discharged" if ok else "refuted", "backend": "finite",
                    "detail": f"keys={keys} fields={sorted(nodef)}",
                    "model": None if ok else {"kind": c.kind, "keys": keys, "node_fields": sorted(nodef)}})
    return out


def parse_order_obligations(world):
    """Document order oracle taken from the parser of the current tree: the children of a node are
    in the source in the order in which the Parser method that builds the node parses them.  For
    every `XNode(k=..., ...)` constructor call in a Parser method, each keyword whose value is
    parsed (a call on self, or a local assigned from one) gets the source position of that parse;
    the keys of QUERY_DOCUMENT_KEYS[kind] must be in that order.  Purely syntactic: two places of
    the real code are compared, nothing is executed."""
    import ast as pyast
    from graphql.language import ast as gast
    from graphql.language.ast import QUERY_DOCUMENT_KEYS
    mod, tree, _ = world.load_module("graphql.language.parser")
    cls = next(n for n in tree.body if isinstance(n, pyast.ClassDef) and n.name == "Parser")
    out = []

    def parses(e):
        return any(isinstance(x, pyast.Call) and isinstance(x.func, pyast.Attribute)
                   and isinstance(x.func.value, pyast.Name) and x.func.value.id == "self"
                   for x in pyast.walk(e))
    for fn in [n for n in cls.body if isinstance(n, pyast.FunctionDef)]:
        when = {}
        stmts = sorted((n for n in pyast.walk(fn) if isinstance(n, (pyast.Assign, pyast.AnnAssign))
                        and getattr(n, "value", None) is not None),
                       key=lambda n: (n.lineno, n.col_offset))
        for st in stmts:
            tgt = st.targets[0] if isinstance(st, pyast.Assign) else st.target
            if not isinstance(tgt, pyast.Name) or tgt.id in when:
                continue
            if parses(st.value):
                when[tgt.id] = (st.value.lineno, st.value.col_offset)
            elif isinstance(st.value, pyast.Name) and st.value.id in when:
                when[tgt.id] = when[st.value.id]
        for call in [n for n in pyast.walk(fn) if isinstance(n, pyast.Call)
                     and isinstance(n.func, pyast.Name) and n.func.id.endswith("Node")]:
            ncls = getattr(gast, call.func.id, None)
            kind = getattr(ncls, "kind", None)
            keys = QUERY_DOCUMENT_KEYS.get(kind)
            if not keys:
                continue
            timed = []
            for kw in call.keywords:
                if kw.arg not in keys:
                    continue
                v = kw.value
                t = None
                if isinstance(v, pyast.Name):
                    t = when.get(v.id)
                elif parses(v):
                    sub = [x for x in pyast.walk(v) if isinstance(x, pyast.Call)
                           and isinstance(x.func, pyast.Attribute)
                           and isinstance(x.func.value, pyast.Name) and x.func.value.id == "self"]
                    t = min((x.lineno, x.col_offset) for x in sub)
                if t is not None:
                    timed.append((t, kw.arg))
            by_parse = [k for _, k in sorted(timed)]
            by_table = [k for k in keys if k in by_parse]
            ok = by_parse == by_table
            out.append({"func": "graphql.language.ast.QUERY_DOCUMENT_KEYS", "kind": "FINITE",
                        "text": f"{kind}: key order is the parse order of Parser.{fn.name} "
                                f"({call.func.id})",
                        "status": "discharged" if ok else "refuted", "backend": "finite",
                        "detail": f"parse order {by_parse}, table order {by_table}",
                        "model": None if ok else {"kind": kind, "parse_order": by_parse,
                                                  "table_order": by_table}})
    return out


ORDER_REPLAY = r'''
import json
from graphql import parse, visit, Visitor
from props.parser_replay import QUERY, SDL, EXTRA
bad = None
for text in [QUERY, SDL] + EXTRA:
    for kw in ({}, {"experimental_fragment_arguments": True},
               {"experimental_directives_on_directive_definitions": True}):
        try:
            doc = parse(text, **kw)
        except Exception:
            continue
        seen = []
        class V(Visitor):
            def enter(self, node, *a):
                if node.loc:
                    seen.append((node.loc.start, node.kind))
        visit(doc, V())
        for a, b in zip(seen, seen[1:]):
            if b[0] < a[0] and bad is None:
                bad = {"input": text[:300], "options": kw,
                       "observed": f"{b[1]} at offset {b[0]} entered after {a[1]} at offset {a[0]}"}
print("REPLAY " + json.dumps(bad))
'''


def replay_extra(o):
    """FINITE key-order obligations: traverse real documents and compare the order in which nodes
    are entered with their source offsets (document order)."""
    if "key order" not in o.get("text", ""):
        return None
    rc, outp = run_native(ORDER_REPLAY)
    for line in outp.splitlines():
        if line.startswith("REPLAY "):
            import json
            bad = json.loads(line[7:])
            if bad:
                return dict(bad, confirmed=True, entry="parse + visit")
            return {"confirmed": False}
    return {"confirmed": False, "error": outp[-500:]}


def bounded_checks(tier, seed):
    """The edit application of visit() is waived in its contract; a reference traversal written
    from the documentation stands in for it, bounded (props/C11_ref.py)."""
    import json
    code = ("import json\nfrom props.C11_ref import search\n"
            f"r = search(seed={int(seed)}, thorough={tier == 'thorough'!r})\n"
            "print('BOUNDED ' + json.dumps(r, default=str))")
    rc, outp = run_native(code, timeout=900)
    res, ok = None, False
    for line in outp.splitlines():
        if line.startswith("BOUNDED "):
            res, ok = json.loads(line[8:]), True
    if not ok:
        raise RuntimeError(outp[-600:])
    return [{"id": "C11/bounded/reference-traversal", "function": "graphql.language.visitor.visit",
             "tool": "reference traversal (documented semantics) vs visit(), native",
             "bound": "5 documents (<= 40 positions); every single decision; "
                      + ("every pair of decisions" if tier == "thorough" else "150 seeded pairs per document")
                      + "; actions SKIP, False, BREAK, REMOVE, replacement node, replacement value, the node itself",
             "failed": res is not None, "input": res, "output": outp[-1500:]}]


def native_checks(tier, seed):
    out = []
    for name, code in WITNESSES.items():
        rc, outp = run_native(code)
        out.append({"id": f"C11/native/{name}", "failed": rc != 0, "output": outp,
                    "input": code.strip()})
    return out
