"""C09 - ignored tokens are ignored (DESIGN.md section 4, C09)."""
from .common import A, lemma_obligations

LEVEL = "other"
EXPLANATION = (
    "Decides the lexical half deductively on the real lexer functions: token spans are ordered, "
    "within the body and non-empty except for EOF (which starts exactly at the end), the gap "
    "skipped by read_next_token is advanced over only by its ignored-character branches, every "
    "reader starts at the requested offset and keeps the line accounting. Every Parser method is "
    "under a generated contract (contracts/parser.py): it raises only GraphQLSyntaxError, writes "
    "only the lexer cursor and the token counter, the counter never decreases and is within "
    "max_tokens whenever a token was counted. Kind-specific grammar "
    "predicates (Name/Int/Float/String) and the parser's information frame are added as the "
    "contracts are strengthened; what is not yet decided is listed under 'unverified'.")
UNVERIFIED = [
    "full conformance of each token kind to the lexical grammar (look-ahead restrictions, longest match, decoded values)",
    "strip_ignored_characters (idempotence, token stream preservation)",
    "Parser reads only kind/value of tokens (information frame); the token limit is decided one way: "
    "a parse that returns has counted every non-EOF token once and is within the limit "
    "(advance_lexer and the TOKLIM clauses of every Parser method); that a document within the limit "
    "is never rejected for it follows from advance_lexer's raise condition but is not stated as a clause",
    "Lexer.advance / Lexer.lookahead: verified relative to the (assumed) invariant of the linked token chain",
]
TRUSTED = []
ASSUMPTIONS = [A["A1"], A["A2"], A["A3"], A["A4"], A["A8"], A["ALIAS"], A["ENGINE"]]
LIFTERS = ["props.C09:lift"]


def lift(model, req):
    """Parser obligations (token limit, frame): replay over the grammar corpus on the entry points."""
    if ".parser." in str(req.get("target", "")).replace(":", "."):
        from .parser_replay import search
        return search()
    if "hex" in str(req.get("target", "")) or "escape" in str(req.get("target", "")):
        r = escape_search()
        if r.get("confirmed"):
            return r
    return ignored_insertion_search(model)


def escape_search():
    """String tokens with a \\uXXXX escape: lexed exactly when the four characters are hexadecimal
    digits (and the code point is not a lone surrogate), with the value chr(int(XXXX, 16))."""
    import itertools
    from graphql import GraphQLSyntaxError
    from graphql.language import Lexer, Source, TokenKind
    alpha = ["0", "4", "9", "a", "F", "g", "+", "-", " ", "_", "x", "\uff11", "\u0661", "\t"]
    hexd = set("0123456789abcdefABCDEF")
    for body in itertools.product(alpha, repeat=4):
        b = "".join(body)
        text = '"\\u' + b + '"'
        ok = all(c in hexd for c in b)
        cp = int(b, 16) if ok else None
        if ok and 0xD800 <= cp <= 0xDFFF:
            ok = False
        try:
            tok = Lexer(Source(text)).advance()
            got = tok.value if tok.kind == TokenKind.STRING else None
            lexed = True
        except GraphQLSyntaxError:
            lexed, got = False, None
        except Exception as e:  # noqa: BLE001
            return {"confirmed": True, "entry": "Lexer.advance", "input": text, "observed": f"{type(e).__name__}: {e}"}
        if lexed != ok or (ok and got != chr(cp)):
            return {"confirmed": True, "entry": "Lexer.advance", "input": text,
                    "observed": f"{'lexed as a string with value ' + repr(got) if lexed else 'rejected'}; the grammar "
                                f"{'accepts it as ' + repr(chr(cp)) if ok else 'rejects it'}"}
    return {"confirmed": False}


IGNORED = ["\ufeff", " ", "\t", ",", "\n", "\r", "\r\n", "# c\n", "# c\r", "#\r\n"]


def ignored_insertion_search(model):
    """The statement itself on real sources: inserting ignored material at a token boundary of a
    source that lexes leaves the token stream (kinds and values) unchanged; a source that lexes
    keeps lexing."""
    from graphql.language import Lexer, Source, TokenKind
    from .C10 import find_bodies
    from .parser_replay import QUERY, SDL, EXTRA

    def toks(text):
        lx = Lexer(Source(text))
        out = []
        while True:
            t = lx.advance()
            out.append((t.kind, t.value, t.start, t.end))
            if t.kind is TokenKind.EOF:
                return out
    texts = [b for b in find_bodies(model, []) if isinstance(b, str)][:3]
    texts += ["{ a b }", "{ a(x: 1.5e3, y: \"s\", z: -0) ...F @d }", '"""b""" type T { f: [Int!]! }']
    texts += [QUERY, SDL] + EXTRA
    for text in texts:
        try:
            base = toks(text)
        except Exception:  # noqa: BLE001
            continue
        cuts = sorted({0} | {t[3] for t in base} | {t[2] for t in base})
        if len(cuts) > 60:
            cuts = cuts[:: max(1, len(cuts) // 60)]
        want = [(k, v) for k, v, _, _ in base]
        for c in cuts:
            for ins in IGNORED:
                new = text[:c] + ins + text[c:]
                try:
                    got = [(k, v) for k, v, _, _ in toks(new)]
                except Exception as e:  # noqa: BLE001
                    return {"confirmed": True, "input": new[:300], "inserted": ins, "at": c,
                            "observed": f"no longer lexes: {type(e).__name__}: {str(e)[:100]}"}
                if got != want:
                    return {"confirmed": True, "input": new[:300], "inserted": ins, "at": c,
                            "observed": "token stream changed"}
    return {"confirmed": False}


def extra_obligations(world, tier, seed):
    return lemma_obligations()
