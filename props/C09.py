"""C09 - ignored tokens are ignored (DESIGN.md section 4, C09)."""
from .common import A, lemma_obligations

LEVEL = "other"
EXPLANATION = (
    "Decides the lexical half deductively on the real lexer functions: token spans are ordered, "
    "within the body and non-empty except for EOF (which starts exactly at the end), the gap "
    "skipped by read_next_token is advanced over only by its ignored-character branches, every "
    "reader starts at the requested offset and keeps the line accounting. Kind-specific grammar "
    "predicates (Name/Int/Float/String) and the parser's information frame are added as the "
    "contracts are strengthened; what is not yet decided is listed under 'unverified'.")
UNVERIFIED = [
    "full conformance of each token kind to the lexical grammar (look-ahead restrictions, longest match, decoded values)",
    "strip_ignored_characters (idempotence, token stream preservation)",
    "Parser reads only kind/value of tokens; token limit accounting in advance_lexer",
]
TRUSTED = []
ASSUMPTIONS = [A["A1"], A["A2"], A["A3"], A["A4"], A["A8"], A["ALIAS"], A["ENGINE"]]
LIFTERS = []


def extra_obligations(world, tier, seed):
    return lemma_obligations()
