"""Shared pieces of the property modules (pure python: imported by the native replay too)."""

A = {
    "A1": "A1 type shape of parameters/fields at the outermost functions under contract is as declared in the side-car shapes (e.g. Source.body is a str)",
    "A2": "A2 no monkey-patching after import; method resolution follows the source MRO",
    "A3": "A3 single-threaded synchronous execution of the functions under contract (async code is not modelled)",
    "A4": "A4 RecursionError/MemoryError are not modelled",
    "A5": "A5 user-supplied callables are havocked (any value / any Exception) and do not mutate library-owned objects",
    "A6": "A6 object identity (is/id) is injective on live objects only",
    "A7": "A7 GraphQL type objects satisfy their class invariants (one kind; of_type of smaller rank; NonNull never wraps NonNull)",
    "A8": "A8 termination is proved only where a VARIANT obligation is listed",
    "ALIAS": "lazily materialised heap objects (e.g. token.next) are assumed not to alias other objects of the same path",
    "ENGINE": "the pyvc encoding of Python semantics (pyvc/interp.py, builtins_lib.py) is trusted; cross-checked by the self-tests, not proved",
}


def lemma_obligations():
    """LEMMA obligations of theories/lines.py, discharged by z3 on every run."""
    import time
    import z3
    from theories import lines
    out = []
    for name, f in lines.lemmas():
        s = z3.Solver()
        s.set("timeout", 20000)
        s.add(z3.Not(f))
        t0 = time.time()
        r = s.check()
        out.append({"func": "theories.lines", "kind": "LEMMA", "text": name,
                    "status": "discharged" if r == z3.unsat else ("refuted" if r == z3.sat else "unknown"),
                    "backend": "z3", "time_s": round(time.time() - t0, 4)})
    return out


def run_native(code, timeout=300):
    """Run a snippet against the real code under the repository's interpreter.
    Returns (exit_code, output)."""
    import os
    import subprocess
    repo = os.environ.get("VERIF_REPO", "/repo")
    py = os.environ.get("VERIF_NATIVE_PY", "/venv/bin/python")
    env = dict(os.environ)
    root = os.path.dirname(os.path.dirname(os.path.abspath(__file__)))
    env["PYTHONPATH"] = os.path.join(repo, "src") + os.pathsep + root
    p = subprocess.run([py, "-c", code], capture_output=True, text=True, timeout=timeout, env=env)
    return p.returncode, (p.stdout + p.stderr)[-3000:]


def gtypes_lemmas():
    import time
    import z3
    from theories import gtypes
    out = []
    for name, f in gtypes.lemmas():
        s = z3.Solver()
        s.set("timeout", 20000)
        s.add(z3.Not(f))
        t0 = time.time()
        r = s.check()
        out.append({"func": "theories.gtypes", "kind": "LEMMA", "text": name,
                    "status": "discharged" if r == z3.unsat else ("refuted" if r == z3.sat else "unknown"),
                    "backend": "z3", "time_s": round(time.time() - t0, 4)})
    return out
