#!/bin/sh
# re-run every registered check on the clean /repo and rewrite baseline + evidence
cd /verif; rc=0
[ -z "$(git -C /repo status --porcelain)" ] || { echo "/repo is not clean"; exit 1; }
for p in $(python3 -c "import json;print(' '.join(c['property_id'] for c in json.load(open('MANIFEST.json'))['checks']))"); do
  ./check $p --write-baseline | grep "^\[$p\]" | tail -1 | cut -c1-120 | grep -q "exit=0" || { echo "!! $p does not pass"; rc=1; }
done
exit $rc
