#!/bin/sh
# runs every registered check once on /repo; non-zero exit if any check does not exit 0
cd /verif; rc=0
for p in $(python3 -c "import json;print(' '.join(c['property_id'] for c in json.load(open('MANIFEST.json'))['checks']))"); do
  out=$(./check $p 2>&1); code=$?
  echo "$out" | grep -v "^KNOWN-FINDING" | tail -2 | cut -c1-200
  [ $code -eq 0 ] || { echo "  !! $p exit=$code"; rc=1; }
done
exit $rc
