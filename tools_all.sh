#!/bin/sh
# runs every registered check on /repo; non-zero exit if any check does not exit 0
cd /verif; rc=0
for p in $(python3 -c "import json;print(' '.join(c['property_id'] for c in json.load(open('MANIFEST.json'))['checks']))"); do
  ./check $p | tail -1 | cut -c1-130; [ ${PIPESTATUS:-0} ] ; ./check $p >/dev/null 2>&1 || { echo "  !! $p failed"; rc=1; }
done
exit $rc
