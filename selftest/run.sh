#!/bin/sh
# Self-test of the machinery (never run by a registered command): every patch in
# selftest/patches (named <PROP>_<what>.diff) must make ./check <PROP> exit 1 with a VIOLATION line;
# patches in selftest/refactors (harmless edits: renamed locals, reordered independent statements,
# extracted temporaries) must NOT produce a VIOLATION (exit 0, or 2 = undecided).
# Works on a scratch worktree (VERIF_REPO); /repo is not touched.  Runs from any copy of /verif
# (e.g. `vp run -- sh selftest/run.sh`).  usage: run.sh [name prefix]
HERE="$(cd "$(dirname "$0")/.." && pwd)"
WT=/var/tmp/selftest_wt_$$
cd "$HERE" || exit 1
git -C /repo worktree add -q --detach "$WT" HEAD || exit 1
fail=0
for f in selftest/patches/${1:-}*.diff; do
  [ -n "$ONLY_REFACTORS" ] && continue
  [ -f "$f" ] || continue
  pid=$(basename "$f" | cut -d_ -f1)
  [ -f "props/$pid.py" ] || { echo "SKIP $(basename "$f") (no check for $pid)"; continue; }
  git -C "$WT" checkout -q -- .
  git -C "$WT" apply "$HERE/$f" || { echo "APPLY-FAILED $(basename "$f")"; continue; }
  out=$(VERIF_REPO="$WT" ./check "$pid" --tier quick 2>&1); code=$?
  v=$(echo "$out" | grep -c '^VIOLATION')
  if [ $code -eq 1 ] && [ "$v" -ge 1 ]; then echo "CAUGHT  $(basename "$f")"; else echo "MISSED  $(basename "$f") exit=$code"; fail=1; fi
done
for f in selftest/refactors/${1:-}*.diff; do
  [ -f "$f" ] || continue
  pid=$(basename "$f" | cut -d_ -f1)
  [ -f "props/$pid.py" ] || continue
  git -C "$WT" checkout -q -- .
  git -C "$WT" apply "$HERE/$f" || { echo "APPLY-FAILED $(basename "$f")"; continue; }
  out=$(VERIF_REPO="$WT" ./check "$pid" --tier quick 2>&1); code=$?
  if [ $code -eq 1 ]; then echo "FALSE-ALARM $(basename "$f")"; fail=1; else echo "QUIET   $(basename "$f") exit=$code"; fi
done
git -C /repo worktree remove --force "$WT"
git checkout -q -- evidence 2>/dev/null
exit $fail
