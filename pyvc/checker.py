"""Property-level driver: obligations -> verdict, replay, evidence, exit code.

Exit codes: 0 held / 1 VIOLATION (replayed, or regressed baseline obligation) / 2 undecided /
3 checker error.  `unknown`, timeouts, unsupported constructs and tracebacks never map to 1.
"""
from __future__ import annotations

import hashlib
import importlib
import json
import os
import subprocess
import sys
import time

ROOT = os.path.dirname(os.path.dirname(os.path.abspath(__file__)))
REPO = os.environ.get("VERIF_REPO", "/repo")
NATIVE_PY = os.environ.get("VERIF_NATIVE_PY", "/venv/bin/python")


def load_prop(pid):
    return importlib.import_module(f"props.{pid}")


def load_known():
    with open(os.path.join(ROOT, "KNOWN_FINDINGS.json")) as f:
        return json.load(f)


def load_baseline():
    p = os.path.join(ROOT, "baseline", "obligations.json")
    if os.path.exists(p):
        with open(p) as f:
            return json.load(f)
    return {}


def run_check(pid, tier, seed, write_baseline=False):
    t0 = time.time()
    sys.path.insert(0, ROOT)
    from pyvc.runner import build_world, verify_many
    prop = load_prop(pid)
    w = build_world()
    quals = sorted(q for q, c in w.contracts.items() if pid in c.props and not q.startswith("loops:"))
    timeout_ms = 20000 if tier == "quick" else 60000
    results = verify_many(quals, timeout_ms=timeout_ms) if quals else []
    obligations = []
    functions = []
    trusted = set()
    assumptions = set()
    undecided = []
    errors = []
    solver_time = 0.0
    for r in results:
        functions.append({"function": r["qual"], "source_sha": r.get("source_sha"),
                          "lines": r.get("lines"), "paths": r["paths"],
                          "obligations": len(r["obligations"]), "status": r["status"]})
        solver_time += r.get("solver_time_s", 0)
        trusted.update(r.get("trusted_used", []))
        assumptions.update(r.get("assumptions", []))
        if r["status"] == "undecided":
            undecided.append(f"{r['qual']}: {r['undecided_reason']}")
        elif r["status"] == "error":
            errors.append(f"{r['qual']}: {r['undecided_reason']}")
        for o in r["obligations"]:
            o = dict(o)
            o["target"] = r["target"]
            obligations.append(o)
    # property specific extra obligations (finite checks, lemmas, memo analyses ...)
    extra = []
    if hasattr(prop, "extra_obligations"):
        try:
            extra = prop.extra_obligations(w, tier, seed)
        except Exception as e:
            import traceback
            errors.append(f"extra_obligations: {type(e).__name__}: {e}\n{traceback.format_exc(limit=5)}")
    for o in extra:
        o.setdefault("status", "discharged")
        o.setdefault("backend", "finite")
        o.setdefault("model", None)
        o.setdefault("time_s", 0.0)
        o.setdefault("paths", 1)
        o.setdefault("line", 0)
        o.setdefault("detail", "")
        o.setdefault("id", f"{o['func']}/{o['kind']}/{o['text']}")
        obligations.append(o)
        solver_time += o.get("time_s", 0.0)

    baseline = load_baseline().get(pid, {})
    base_ids = set(baseline.get("discharged", []))
    base_funcs = set(baseline.get("functions_ok", []))
    known = load_known()
    known_for = [k for k in known.get("known", []) if k["property"] == pid]

    n_obl = len(obligations)
    discharged = [o for o in obligations if o["status"] == "discharged"]
    refuted = [o for o in obligations if o["status"] == "refuted"]
    unknown = [o for o in obligations if o["status"] == "unknown"]
    missing = [] if write_baseline else sorted(base_ids - {o["id"] for o in obligations})

    out_lines = []
    violations = []
    known_hits = []
    os.makedirs(os.path.join(ROOT, "replays", pid), exist_ok=True)
    for o in refuted:
        rep = replay_obligation(pid, prop, o, w)
        kf = match_known(known_for, o, rep)
        if kf is not None:
            known_hits.append((kf, o))
            continue
        # regressed: the obligation itself was discharged on the pinned tree, or it is an exception
        # escaping a function whose whole contract (incl. its exception frame) was discharged there
        in_base = o["id"] in base_ids or (
            o["func"] in base_funcs and (o["kind"] == "RAISES" or o["kind"].startswith("SAFE")))
        if rep["confirmed"]:
            violations.append((o, rep, ""))
        elif in_base:
            violations.append((o, rep, " no-failing-input-found"))
        else:
            undecided.append(f"obligation refuted by the solver but not in the baseline and not "
                             f"confirmed by replay: {o['id']}")
    # behavioural (native) checks of the property module: witnesses of known defects etc.
    if hasattr(prop, "native_checks"):
        try:
            for nc in prop.native_checks(tier, seed):
                if nc["failed"]:
                    kf = None
                    for k in known_for:
                        if k.get("native_id") == nc["id"]:
                            kf = k
                    if kf is not None:
                        known_hits.append((kf, nc))
                    else:
                        path = write_replay(pid, nc["id"], nc)
                        violations.append(({"id": nc["id"]}, {"path": path}, ""))
        except Exception as e:
            errors.append(f"native_checks: {type(e).__name__}: {e}")

    # Bounded stand-ins that always run (a part of a function that its contract waives): a failing
    # input is replayed on the real code by construction; labelled bounded in the evidence.
    standins = []
    if hasattr(prop, "bounded_checks"):
        try:
            for bc in prop.bounded_checks(tier, seed):
                standins.append({"function": bc["function"], "tool": bc["tool"],
                                 "budget": bc["bound"],
                                 "outcome": "failing input found" if bc["failed"] else "nothing found"})
                if bc["failed"]:
                    kf = next((k for k in known_for if k.get("native_id") == bc["id"]), None)
                    if kf is not None:
                        known_hits.append((kf, bc))
                    else:
                        path = write_replay(pid, bc["id"], bc)
                        violations.append(({"id": bc["id"]}, {"path": path}, ""))
        except Exception as e:
            errors.append(f"bounded_checks: {type(e).__name__}: {e}")

    # A function under contract that has left the verified subset is undecided; the property's
    # bounded stand-in (a native differential search, labelled bounded) is then run, and a failing
    # input it finds is a violation replayed on the real code.
    if undecided and hasattr(prop, "STANDIN"):
        try:
            res = run_standin(prop.STANDIN, seed)
            standins.append({"function": prop.STANDIN, "tool": "native differential search",
                             "budget": getattr(prop, "STANDIN_BUDGET", "see module"),
                             "outcome": "failing input found" if res else "nothing found"})
            if res:
                path = write_replay(pid, "standin:" + prop.STANDIN, {
                    "property": pid, "obligation": "bounded stand-in " + prop.STANDIN,
                    "because_undecided": undecided[:5], "native": res})
                violations.append(({"id": "standin"}, {"path": path}, ""))
        except Exception as e:
            errors.append(f"stand-in {prop.STANDIN}: {type(e).__name__}: {e}")

    if n_obl == 0:
        errors.append("no obligations were generated")
    if missing:
        undecided.append("baseline obligations not regenerated from the current source: "
                         + "; ".join(missing[:5]) + (" ..." if len(missing) > 5 else ""))
    for o in unknown:
        undecided.append(f"solver undecided: {o['id']} ({o.get('detail', '')})")

    for kf, o in known_hits:
        out_lines.append(f"KNOWN-FINDING: property={pid} {kf['what']}")
    for o, rep, suffix in violations:
        out_lines.append(f"VIOLATION property={pid} replay={rep['path']}{suffix}")

    if violations:
        code = 1
    elif errors:
        code = 3
    elif undecided:
        code = 2
    else:
        code = 0

    level = getattr(prop, "LEVEL", "other")
    samples = []
    for o in (discharged[:: max(1, len(discharged) // 6)])[:6]:
        samples.append({"obligation": o["id"], "kind": o["kind"], "paths": o["paths"],
                        "backend": o.get("backend", "z3"), "time_s": o.get("time_s")})
    by_backend = {}
    for o in discharged:
        by_backend[o.get("backend", "z3")] = by_backend.get(o.get("backend", "z3"), 0) + 1
    evidence = {
        "property_id": pid, "tier": tier, "seed": seed, "level": level,
        "coverage": {
            "obligations": n_obl, "discharged": len(discharged),
            "refuted": len(refuted), "undecided_obligations": len(unknown),
            "by_backend": by_backend,
            "checker_cmd": f"./check {pid} --tier {tier}",
            "trusted_base": sorted(trusted) + list(getattr(prop, "TRUSTED", [])),
            "functions_under_contract": functions,
            "solver_time_s": round(solver_time, 2),
            "samples": samples,
            "explanation": getattr(prop, "EXPLANATION", ""),
            "unverified": getattr(prop, "UNVERIFIED", []),
            "bounded_standins": standins,
            "undecided": undecided[:50],
            "errors": errors[:20],
            "known_findings_hit": [kf["what"] for kf, _ in known_hits],
            "canaries": {"reachable_exits": sum(r.get("reachable_exits", 0) for r in results),
                         "functions": len(results)},
        },
        "assumptions": sorted(assumptions) + list(getattr(prop, "ASSUMPTIONS", [])),
        "wall_s": round(time.time() - t0, 2),
        "violations": len(violations),
    }
    if hasattr(prop, "finish_evidence"):
        prop.finish_evidence(evidence, tier, seed)
    os.makedirs(os.path.join(ROOT, "evidence"), exist_ok=True)
    with open(os.path.join(ROOT, "evidence", f"{pid}.json"), "w") as f:
        json.dump(evidence, f, indent=1, default=str)
    if write_baseline:
        allb = load_baseline()
        bad_funcs = {o["func"] for o in obligations if o["status"] != "discharged"}
        allb[pid] = {"discharged": sorted(o["id"] for o in discharged),
                     "functions_ok": sorted({r["qual"] for r in results if r["status"] == "ok"}
                                            - bad_funcs)}
        os.makedirs(os.path.join(ROOT, "baseline"), exist_ok=True)
        with open(os.path.join(ROOT, "baseline", "obligations.json"), "w") as f:
            json.dump(allb, f, indent=1)
    print(f"[{pid}] tier={tier} functions={len(results)} obligations={n_obl} "
          f"discharged={len(discharged)} refuted={len(refuted)} unknown={len(unknown)} "
          f"wall={evidence['wall_s']}s exit={code}")
    for u in undecided[:20]:
        print("UNDECIDED:", u[:400])
    for e in errors[:10]:
        print("CHECKER-ERROR:", e[:800])
    for line in out_lines:
        print(line)
    return code


def run_standin(spec, seed):
    mod, _, fn = spec.partition(":")
    code = (f"import json, {mod} as m\nr = m.{fn}(seed={seed})\n"
            "print('STANDIN-RESULT ' + json.dumps(r, default=str))")
    env = dict(os.environ)
    env["PYTHONPATH"] = os.path.join(REPO, "src") + os.pathsep + ROOT
    p = subprocess.run([NATIVE_PY, "-c", code], capture_output=True, text=True, timeout=600, env=env)
    for line in p.stdout.splitlines():
        if line.startswith("STANDIN-RESULT "):
            return json.loads(line[len("STANDIN-RESULT "):])
    raise RuntimeError(p.stderr[-500:])


def write_replay(pid, oid, payload):
    h = hashlib.sha256(oid.encode()).hexdigest()[:12]
    path = os.path.join(ROOT, "replays", pid, f"{h}.json")
    with open(path, "w") as f:
        json.dump(payload, f, indent=1, default=str)
    return path


def replay_obligation(pid, prop, o, w):
    """Write the replay file for a refuted obligation and try to confirm it on the real code."""
    payload = {"property": pid, "obligation": o["id"], "function": o["func"],
               "kind": o["kind"], "clause": o["text"], "line": o["line"],
               "solver": "z3 " + __import__("z3").get_version_string(),
               "solver_verdict": "sat (counter-model below)", "model": o.get("model"),
               "detail": o.get("detail"), "repo": REPO, "native": None}
    confirmed = False
    try:
        native = native_replay(o, prop)
        if native is None and hasattr(prop, "replay_extra"):
            # obligations produced by the property module itself (finite checks, lemmas): the
            # module may know how to look for a failing input on the real code
            native = prop.replay_extra(o)
        payload["native"] = native
        confirmed = bool(native and native.get("confirmed"))
    except Exception as e:  # replay trouble never turns into a verdict by itself
        payload["native"] = {"error": f"{type(e).__name__}: {e}"}
    path = write_replay(pid, o["id"], payload)
    return {"path": path, "confirmed": confirmed, "native": payload["native"]}


def native_replay(o, prop):
    if not o.get("model") or "target" not in o:
        return None
    req = {"target": o["target"], "model": o["model"], "kind": o["kind"], "clause": o["text"],
           "lifters": getattr(prop, "LIFTERS", [])}
    env = dict(os.environ)
    env["PYTHONPATH"] = os.path.join(REPO, "src") + os.pathsep + ROOT
    p = subprocess.run([NATIVE_PY, os.path.join(ROOT, "pyvc", "replay_native.py")],
                       input=json.dumps(req), capture_output=True, text=True, timeout=120, env=env)
    if p.returncode != 0:
        return {"error": p.stderr[-2000:]}
    return json.loads(p.stdout)


def match_known(known_for, o, rep):
    for k in known_for:
        if k.get("obligation") and k["obligation"] == o["id"]:
            return k
    return None


def main(argv):
    import argparse
    ap = argparse.ArgumentParser()
    ap.add_argument("pid")
    ap.add_argument("--tier", default=os.environ.get("VERIF_TIER", "quick"))
    ap.add_argument("--write-baseline", action="store_true")
    ap.add_argument("--replay")
    a = ap.parse_args(argv[1:])
    tier = os.environ.get("VERIF_TIER") or a.tier
    if tier not in ("quick", "thorough"):
        tier = "quick"
    seed = int(os.environ.get("VERIF_SEED", "0") or 0)
    if a.replay:
        with open(a.replay) as f:
            print(f.read())
        return 0
    try:
        return run_check(a.pid, tier, seed, write_baseline=a.write_baseline)
    except Exception as e:
        import traceback
        traceback.print_exc()
        print(f"CHECKER-ERROR: {type(e).__name__}: {e}")
        return 3


if __name__ == "__main__":
    sys.exit(main(sys.argv))
