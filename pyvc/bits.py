"""Bitwise or on mathematical integers, axiomatised by sound facts (no bit-vectors).

bor(a, b) is an uninterpreted function constrained, at each use, by:
  * sign:    a < 0 or b < 0  =>  bor(a,b) < 0          (two's complement of unbounded ints)
  * bounds:  a >= 0 and b >= 0  =>  max(a,b) <= bor(a,b) <= a + b
  * disjoint bits: if one operand is syntactically  x << k  (engine: x * 2**k) then
             a >= 0 and a % 2**k == 0 and 0 <= b < 2**k  =>  bor(a,b) == a + b
All three are theorems about Python's int.__or__ (cross-checked by sampling in the thorough tier).
"""
import z3

from . import sym

BOR = z3.Function("bor", sym.I, sym.I, sym.I)


def _shift_of(t):
    """k if t is syntactically  x * 2**k  for a constant power of two, else None."""
    t = z3.simplify(t)
    ks = []
    if z3.is_mul(t):
        for ch in t.children():
            if z3.is_int_value(ch):
                v = ch.as_long()
                if v > 0 and v & (v - 1) == 0:
                    ks.append(v.bit_length() - 1)
    return ks


def bit_or(it, x, y, node):
    it.world.trusted_used.add("int | int: sign, bound and disjoint-bits facts of bits.py")
    xs, ys = z3.simplify(x), z3.simplify(y)
    if z3.is_int_value(xs) and z3.is_int_value(ys):
        return z3.IntVal(xs.as_long() | ys.as_long())
    r = BOR(x, y)
    it.assume(z3.Implies(z3.Or(x < 0, y < 0), r < 0))
    it.assume(z3.Implies(z3.And(x >= 0, y >= 0),
                         z3.And(r >= x, r >= y, r <= x + y)))
    # disjoint-bit rule for every power of two up to 2**32: sound for any k, instantiated for the
    # shifts that occur syntactically in either operand or inside nested ors
    ks = set()
    for t in (xs, ys):
        stack = [t]
        while stack:
            u = stack.pop()
            ks.update(_shift_of(u))
            if z3.is_app(u) and u.decl().name() in ("bor", "+", "If", "if"):
                stack.extend(u.children())
    for k in sorted(ks):
        m = 2 ** k
        it.assume(z3.Implies(z3.And(x >= 0, x % m == 0, 0 <= y, y < m), r == x + y))
        it.assume(z3.Implies(z3.And(y >= 0, y % m == 0, 0 <= x, x < m), r == x + y))
    return r
