"""Encoding of element values into tuples of z3 terms, so that lists of unknown length can be
stored as z3 arrays (one array per component) and quantified over in specifications.

typespec grammar:  int | nat | bool | str | dyn | atom:<Enum> | opt:<spec> | (tuple, s1, s2, ...)
"""
import z3

from . import sym
from .sym import (VInt, VBool, VStr, VAtom, VDyn, VTuple, VOpaque, V, Unsupported, atom)


class VOpt(V):
    """Lazy union None | value (resolved by forking when a definite kind is needed)."""

    kind = "opt"

    def __init__(self, is_none, val):
        self.is_none = is_none  # z3 Bool
        self.val = val

    def __repr__(self):
        return f"VOpt({self.is_none}, {self.val!r})"


def sorts(spec):
    if isinstance(spec, (tuple, list)) and spec and spec[0] == "tuple":
        out = []
        for s in spec[1:]:
            out += sorts(s)
        return out
    if spec in ("int", "nat"):
        return [sym.I]
    if spec == "bool":
        return [sym.B]
    if spec == "str":
        return [sym.ArrS, sym.I]
    if spec == "dyn":
        return [sym.ValS]
    if spec.startswith("atom:"):
        return [sym.I]
    if spec.startswith("opt:"):
        return [sym.B] + sorts(spec[4:])
    raise Unsupported(f"no element codec for {spec!r}")


def encode(it, spec, v):
    """V -> list of z3 terms (may fork to resolve a union)."""
    if isinstance(spec, (tuple, list)) and spec and spec[0] == "tuple":
        if not isinstance(v, VTuple) or len(v.items) != len(spec) - 1:
            raise Unsupported(f"tuple element expected for {spec}: {v!r}")
        out = []
        for s, x in zip(spec[1:], v.items):
            out += encode(it, s, x)
        return out
    if spec in ("int", "nat"):
        return [it.as_int(v, None)]
    if spec == "bool":
        return [it.truth(v)] if isinstance(v, VBool) else _bad(spec, v)
    if spec == "str":
        if not isinstance(v, VStr):
            _bad(spec, v)
        vv = sym.as_view(v)
        if z3.eq(z3.simplify(vv.lo), z3.IntVal(0)):
            return [vv.arr, vv.hi]
        # re-base the view: fresh array equal on the window (quantifier-free use via axiom below)
        j = z3.Int(it.namer.fresh("j"))
        arr = z3.Lambda([j], z3.Select(vv.arr, vv.lo + j))
        return [arr, z3.simplify(vv.hi - vv.lo)]
    if spec == "dyn":
        return [it.world.to_dyn(it, v).t]
    if spec.startswith("atom:"):
        if not isinstance(v, VAtom):
            _bad(spec, v)
        return [v.t]
    if spec.startswith("opt:"):
        inner = spec[4:]
        if isinstance(v, VOpt):
            return [v.is_none] + encode(it, inner, v.val)
        if isinstance(v, VAtom):
            return [z3.BoolVal(True)] + [_default(s, it) for s in sorts(inner)]
        return [z3.BoolVal(False)] + encode(it, inner, v)
    raise Unsupported(f"no element codec for {spec!r}")


def _bad(spec, v):
    raise Unsupported(f"element of kind {v.kind} does not fit element spec {spec}")


def _default(sort, it):
    return z3.FreshConst(sort, "dflt")


def decode(it, spec, terms, assume=True):
    """list of z3 terms -> V (consumes terms from the front; returns (V, rest))."""
    if isinstance(spec, (tuple, list)) and spec and spec[0] == "tuple":
        items = []
        for s in spec[1:]:
            x, terms = decode(it, s, terms, assume)
            items.append(x)
        return VTuple(items), terms
    if spec in ("int", "nat"):
        if spec == "nat" and assume and not it.st.spec:
            it.sadd(terms[0] >= 0)
        return VInt(terms[0]), terms[1:]
    if spec == "bool":
        return VBool(terms[0]), terms[1:]
    if spec == "str":
        if assume:
            it.sadd(terms[1] >= 0)
        return VStr(arr=terms[0], lo=z3.IntVal(0), hi=terms[1]), terms[2:]
    if spec == "dyn":
        return VDyn(terms[0]), terms[1:]
    if spec.startswith("atom:"):
        if assume:
            dom = it.world.atom_domain(spec[5:])
            it.sadd(sym.sor(*[terms[0] == c for c in dom]))
        return VAtom(terms[0]), terms[1:]
    if spec.startswith("opt:"):
        inner, rest = decode(it, spec[4:], terms[1:], assume)
        return VOpt(terms[0], inner), rest
    raise Unsupported(f"no element codec for {spec!r}")


def infer_spec(v):
    """Element spec of a concrete symbolic value (for lists that start as literals)."""
    if isinstance(v, VInt):
        return "int"
    if isinstance(v, VBool):
        return "bool"
    if isinstance(v, VStr):
        return "str"
    if isinstance(v, VDyn):
        return "dyn"
    if isinstance(v, VTuple) and not v.names:
        return ("tuple",) + tuple(infer_spec(x) for x in v.items)
    return None


def fresh_arrays(it, spec, label):
    return [z3.Array(it.namer.fresh(f"{label}_{k}"), sym.I, s) for k, s in enumerate(sorts(spec))]
