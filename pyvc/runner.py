"""Load contracts and theories, verify sets of functions in parallel."""
from __future__ import annotations

import importlib
import json
import multiprocessing as mp
import os
import pkgutil
import sys
import time

ROOT = os.path.dirname(os.path.dirname(os.path.abspath(__file__)))
if ROOT not in sys.path:
    sys.path.insert(0, ROOT)


def build_world():
    from pyvc.world import get_world
    w = get_world()
    if getattr(w, "_loaded", False):
        return w
    import theories
    import contracts
    order = {n: i for i, n in enumerate(getattr(theories, "ORDER", []))}
    for pkg in (theories, contracts):
        mods = sorted(pkgutil.iter_modules(pkg.__path__),
                      key=lambda m: (order.get(m.name, 999), m.name))
        for m in mods:
            mod = importlib.import_module(f"{pkg.__name__}.{m.name}")
            if hasattr(mod, "install"):
                mod.install(w)
    w._loaded = True
    return w


def target_of(qual, w):
    """'graphql.language.lexer.Lexer.read_name' -> 'graphql.language.lexer:Lexer.read_name'."""
    parts = qual.split(".")
    for k in range(len(parts) - 1, 0, -1):
        modname = ".".join(parts[:k])
        try:
            importlib.import_module(modname)
            return modname + ":" + ".".join(parts[k:])
        except ImportError:
            continue
    raise KeyError(qual)


def _work(args):
    qual, timeout_ms = args
    from pyvc.verify import verify_function
    w = build_world()
    c = w.contracts[qual]
    w.trusted_used = set()
    try:
        r = verify_function(w, target_of(qual, w), c, timeout_ms=timeout_ms)
    except Exception as e:  # pragma: no cover
        import traceback
        r = {"target": qual, "qual": qual, "status": "error", "obligations": [], "paths": 0,
             "undecided_reason": f"{type(e).__name__}: {e}\n{traceback.format_exc(limit=6)}",
             "solver_time_s": 0, "solver_calls": 0, "assumptions": [], "reachable_exits": 0}
    r["trusted_used"] = sorted(w.trusted_used)
    return r


def verify_many(quals, jobs=None, timeout_ms=20000):
    jobs = jobs or min(16, os.cpu_count() or 4)
    build_world()   # import errors surface here, in the parent
    if jobs == 1 or len(quals) == 1:
        return [_work((q, timeout_ms)) for q in quals]
    ctx = mp.get_context("fork")
    with ctx.Pool(jobs) as pool:
        return pool.map(_work, [(q, timeout_ms) for q in quals], chunksize=1)


def main(argv):
    w = build_world()
    pats = argv[1:]
    quals = [q for q in w.contracts if not pats or any(p in q for p in pats)]
    t0 = time.time()
    rs = verify_many(quals, jobs=1 if len(quals) == 1 else None)
    bad = 0
    for r in rs:
        obs = r["obligations"]
        nd = sum(o["status"] == "discharged" for o in obs)
        print(f"{r['status']:9s} {r['qual']:70s} obl {nd}/{len(obs)} paths {r['paths']} "
              f"t={r.get('wall_s')}s")
        if r["status"] != "ok":
            print("     ->", (r["undecided_reason"] or "")[:600])
        for o in obs:
            if o["status"] != "discharged":
                bad += 1
                print(f"     {o['status'].upper()} {o['kind']} {o['text'][:110]} line {o['line']} "
                      f"model={o['model']} {o['detail'][:80]}")
    print(f"total {time.time() - t0:.1f}s, undischarged {bad}")


if __name__ == "__main__":
    main(sys.argv)
