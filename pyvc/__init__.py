import sys
if hasattr(sys, "set_int_max_str_digits"):
    sys.set_int_max_str_digits(100000)
