"""Symbolic immutable objects ("refs") and ordered maps.

A VRef is an object whose identity is a z3 constant of sort Ref; every attribute is an
uninterpreted function of that identity, decoded with the element codec according to the
declared shape.  This models object graphs that the code under contract only *reads*
(schemas, AST nodes): an attribute read is a function application, so two reads agree and
nothing needs to be framed.  Stores to a VRef are outside the model (Unsupported).

Extra codec specs:
  ref:<Class>            an object (sort Ref)
  ty                     a GraphQL type object (sort Ty of theories/gtypes)
  ("omap", valspec)      an insertion-ordered dict with str keys: identity of sort Ref with
                         omap_len, key strings and values as functions of (identity, index) and
                         omap_idx(identity, key) = position of a key or -1
  ("list", elemspec)     a list attribute: arrays per component plus a length
"""
import z3

from . import sym, codec
from .sym import (V, VInt, VBool, VStr, VAtom, VFunc, VTuple, VList, VOpaque, Unsupported, atom,
                  sand, sor)

RefS = z3.DeclareSort("Ref")
OMAP_LEN = z3.Function("omap_len", RefS, sym.I)
OMAP_KARR = z3.Function("omap_key_arr", RefS, sym.I, sym.ArrS)
OMAP_KLEN = z3.Function("omap_key_len", RefS, sym.I, sym.I)
OMAP_IDX = z3.Function("omap_idx", RefS, sym.ArrS, sym.I, sym.I)
CLS_OF = z3.Function("class_of", RefS, sym.I)

_FUNCS = {}


def attr_fn(owner, attr, k, dom, rng):
    key = (owner, attr, k)
    if key not in _FUNCS:
        _FUNCS[key] = z3.Function(f"{owner}.{attr}#{k}", *dom, rng)
    return _FUNCS[key]


class VRef(V):
    kind = "ref"

    def __init__(self, t, cls):
        self.t = t
        self.cls = cls   # python class

    def __repr__(self):
        return f"VRef({getattr(self.cls, '__name__', self.cls)}:{self.t})"


class VOMap(V):
    kind = "omap"

    def __init__(self, t, valspec):
        self.t = t
        self.valspec = valspec

    def __repr__(self):
        return f"VOMap({self.t})"


# ---------------------------------------------------------------------------- codec extension
_orig_sorts, _orig_encode, _orig_decode = codec.sorts, codec.encode, codec.decode


def sorts(spec):
    if isinstance(spec, str) and spec.startswith("ref:"):
        return [RefS]
    if spec == "ty":
        from theories import gtypes
        return [gtypes.TyS]
    if isinstance(spec, tuple) and spec and spec[0] == "omap":
        return [RefS]
    if isinstance(spec, tuple) and spec and spec[0] == "list":
        return [z3.ArraySort(sym.I, s) for s in sorts(spec[1])] + [sym.I]
    if isinstance(spec, str) and spec.startswith("opt:"):
        return [sym.B] + sorts(spec[4:])
    if isinstance(spec, (tuple, list)) and spec and spec[0] == "tuple":
        out = []
        for s in spec[1:]:
            out += sorts(s)
        return out
    return _orig_sorts(spec)


def decode(it, spec, terms, assume=True):
    if isinstance(spec, str) and spec.startswith("ref:"):
        cls = it.world.resolve_class(spec[4:])
        return VRef(terms[0], cls), terms[1:]
    if spec == "ty":
        from theories import gtypes
        return gtypes.VTy(terms[0]), terms[1:]
    if isinstance(spec, tuple) and spec and spec[0] == "omap":
        if assume:
            it.sadd(OMAP_LEN(terms[0]) >= 0)
        return VOMap(terms[0], spec[1]), terms[1:]
    if isinstance(spec, tuple) and spec and spec[0] == "list":
        n = len(sorts(spec[1]))
        arrays, length = list(terms[:n]), terms[n]
        if assume:
            it.sadd(length >= 0)
        from .interp import ListObj
        oid = it.fresh_oid()
        it.st.lists[oid] = ListObj(length, None, spec[1], arrays)
        return VList(oid), terms[n + 1:]
    if isinstance(spec, str) and spec.startswith("opt:"):
        inner, rest = decode(it, spec[4:], terms[1:], assume)
        return codec.VOpt(terms[0], inner), rest
    if isinstance(spec, (tuple, list)) and spec and spec[0] == "tuple":
        items = []
        for s in spec[1:]:
            x, terms = decode(it, s, terms, assume)
            items.append(x)
        return VTuple(items), terms
    return _orig_decode(it, spec, terms, assume)


def encode(it, spec, v):
    if isinstance(spec, str) and spec.startswith("ref:"):
        if isinstance(v, VRef):
            return [v.t]
        raise Unsupported(f"{v!r} is not a symbolic object")
    if spec == "ty":
        return [v.t]
    if isinstance(spec, tuple) and spec and spec[0] == "omap":
        return [v.t]
    if isinstance(spec, str) and spec.startswith("opt:"):
        inner = spec[4:]
        if isinstance(v, codec.VOpt):
            return [v.is_none] + encode(it, inner, v.val)
        if isinstance(v, VAtom):
            return [z3.BoolVal(True)] + [z3.FreshConst(s, "dflt") for s in sorts(inner)]
        return [z3.BoolVal(False)] + encode(it, inner, v)
    if isinstance(spec, (tuple, list)) and spec and spec[0] == "tuple":
        out = []
        for s, x in zip(spec[1:], v.items):
            out += encode(it, s, x)
        return out
    return _orig_encode(it, spec, v)


codec.sorts, codec.encode, codec.decode = sorts, encode, decode


def read_attr(it, owner_name, owner_term, owner_sort, attr, spec):
    if isinstance(spec, tuple) and spec and spec[0] == "absmap":
        return it.fresh(spec, attr)      # a cache dict: contents not tracked (every read is arbitrary)
    ss = sorts(spec)
    terms = [attr_fn(owner_name, attr, k, [owner_sort], s)(owner_term) for k, s in enumerate(ss)]
    v, _ = decode(it, spec, terms)
    return it.resolve(v)


def install(w):
    _install_refs(w)
    install_refsets(w)
    install_recdict(w)


def _install_refs(w):
    w.dict_comprehension = dict_comprehension
    prev_construct = w.construct_ext

    def construct_ext(it, cls, args, kwargs, node):
        import dataclasses
        if dataclasses.is_dataclass(cls) and cls.__module__.startswith("graphql"):
            # a (frozen) dataclass instance: a new symbolic object; its fields are not tracked.
            # The generated __init__ raises TypeError for unknown / missing / surplus arguments.
            flds = [f for f in dataclasses.fields(cls) if f.init]
            pos = [f for f in flds if not f.kw_only]
            names = {f.name for f in flds}
            given = set(kwargs) | {f.name for f in pos[:len(args)]}
            missing = [f.name for f in flds if f.name not in given
                       and f.default is dataclasses.MISSING
                       and f.default_factory is dataclasses.MISSING]
            bad = (len(args) > len(pos) or any(k not in names for k in kwargs)
                   or any(f.name in kwargs for f in pos[:len(args)]) or bool(missing))
            if hasattr(cls, "__post_init__"):
                raise Unsupported(f"dataclass {cls.__name__} with __post_init__")
            w.trusted_used.add(f"constructor of dataclass {cls.__name__}: model of the generated "
                               "__init__ (TypeError for unknown, missing or surplus arguments; "
                               "otherwise a new object whose fields are not tracked)")
            if not it.st.spec:
                from .interp import _src as _s
                text = _s(node)[:80]
                it.note_safe("SAFE-Call", text, getattr(node, "lineno", 0))
                if bad:
                    it.throw(TypeError, node, "SAFE-Call", text)
            return VRef(z3.Const(it.namer.fresh(cls.__name__.lower()), RefS), cls)
        return prev_construct(it, cls, args, kwargs, node)
    w.construct_ext = construct_ext
    prev_fresh = getattr(w, "fresh_ext", None)

    def fresh_ext(it, spec, label):
        if isinstance(spec, str) and spec.startswith("ref:"):
            cls = w.resolve_class(spec[4:])
            return VRef(z3.Const(it.namer.fresh(label), RefS), cls)
        if isinstance(spec, tuple) and spec and spec[0] == "omap":
            t = z3.Const(it.namer.fresh(label), RefS)
            it.sadd(OMAP_LEN(t) >= 0)
            return VOMap(t, spec[1])
        if isinstance(spec, str) and spec.startswith("opt:ref:"):
            if it.choose(2, "opt ref") == 0:
                return atom(None)
            return fresh_ext(it, spec[4:], label)
        return prev_fresh(it, spec, label) if prev_fresh else None
    w.fresh_ext = fresh_ext

    prev_getattr = w.getattr_ext

    w.mutable_ref_fields = {}    # (class name, attr) -> True: dyn-valued fields that are stored to

    def _mut_key(cls, attr):
        for k in getattr(cls, "__mro__", ()):
            if (k.__name__, attr) in w.mutable_ref_fields:
                return (k.__name__, attr)
        return None

    def _mut_array(it, key):
        arr = it.st.refheap.get(key)
        if arr is None:
            arr = it.st.refheap[key] = z3.Array(f"rh0_{key[0]}_{key[1]}", RefS, sym.ValS)
            for o in it.live_olds + ([it.st.old] if it.st.old is not None else []):
                o.refheap.setdefault(key, arr)
        return arr

    prev_setattr = w.setattr_ext

    def setattr_ext(it, v, attr, val, node):
        if isinstance(v, VRef):
            key = _mut_key(v.cls, attr)
            if key is not None:
                c = it.contract
                if c is not None and c.modifies is not None and not it.st.spec and it.depth == 0:
                    allowed = {m.split(".")[-1] for m in c.modifies}
                    it.oblige("FRAME", f"store to .{attr}", z3.BoolVal(attr in allowed),
                              getattr(node, "lineno", 0))
                arr = _mut_array(it, key)
                it.st.refheap[key] = z3.Store(arr, v.t, w.to_dyn(it, val).t)
                return True
        return prev_setattr(it, v, attr, val, node)
    w.setattr_ext = setattr_ext

    def getattr_ext(it, v, attr, node):
        if isinstance(v, VRef):
            key = _mut_key(v.cls, attr)
            if key is not None:
                from .sym import VDyn
                d = VDyn(z3.Select(_mut_array(it, key), v.t))
                if hasattr(w, "dyn_wf"):
                    w.dyn_wf(it, d)
                return d
            spec = w.field_spec(v.cls, attr)
            if spec is not None:
                r = read_attr(it, v.cls.__name__, v.t, RefS, attr, spec)
                if isinstance(r, VRef):
                    from . import namesets
                    namesets.child_fact(it, r, v)
                return r
            # methods / properties of the real class
            import types as _t
            import inspect as _inspect
            for k in v.cls.__mro__:
                if attr in k.__dict__:
                    m = k.__dict__[attr]
                    if isinstance(m, _t.FunctionType):
                        return VFunc(m, recv=v, name=f"{k.__name__}.{attr}")
                    if isinstance(m, property):
                        return it.call_function(m.fget, [v], {}, node, name=f"{k.__name__}.{attr}")
                    if type(m).__name__ == "cached_property":
                        return it.call_function(m.func, [v], {}, node, name=f"{k.__name__}.{attr}")
                    if isinstance(m, (str, int, bool, type(None))):
                        import dataclasses as _dc
                        if _dc.is_dataclass(v.cls) and attr in {f.name for f in _dc.fields(v.cls)}:
                            # the class attribute of a dataclass field is only its default: the
                            # instance's value needs a declared shape
                            raise Unsupported(f"no shape for field {v.cls.__name__}.{attr}")
                        return it.lift(m)
            raise Unsupported(f"no shape for field {v.cls.__name__}.{attr}")
        if isinstance(v, VOMap):
            return VFunc(None, recv=v, builtin=f"omap.{attr}", name=attr)
        return prev_getattr(it, v, attr, node)
    w.getattr_ext = getattr_ext

    # ---- ordered maps ---------------------------------------------------------------------------
    def key_at(m, i):
        return VStr(arr=OMAP_KARR(m.t, i), lo=z3.IntVal(0), hi=OMAP_KLEN(m.t, i))

    def val_at(it, m, i):
        ss = sorts(m.valspec)
        terms = [attr_fn("omap", repr(m.valspec), k, [RefS, sym.I], s)(m.t, i)
                 for k, s in enumerate(ss)]
        v, _ = decode(it, m.valspec, terms)
        return it.resolve(v)

    def idx_of(it, m, key):
        from .sym import VDyn
        if isinstance(key, VDyn):
            # a dynamic value used as the key of a str-keyed dict: supported where the path (or the
            # clause) already knows it is a str - the key is then its string projection
            tg = sym.tag(key.t) == sym.TAGS["str"]
            if it.st.spec or it.decide(tg):
                key = VStr(arr=sym.as_sarr(key.t), lo=z3.IntVal(0), hi=sym.as_slen(key.t))
            else:
                raise Unsupported(f"ordered map key {key!r} that is not a str")
        if not isinstance(key, VStr):
            raise Unsupported(f"ordered map key {key!r}")
        kv = sym.as_view(key)
        if not z3.eq(z3.simplify(kv.lo), z3.IntVal(0)):
            raise Unsupported("ordered map lookup with a string slice")
        return OMAP_IDX(m.t, kv.arr, kv.hi)

    def item_facts(it, m, i):
        # the i-th key is found at position i (keys of a dict are distinct)
        it.sadd(z3.Implies(z3.And(0 <= i, i < OMAP_LEN(m.t)),
                           z3.And(OMAP_IDX(m.t, OMAP_KARR(m.t, i), OMAP_KLEN(m.t, i)) == i,
                                  OMAP_KLEN(m.t, i) >= 0)))

    def seq_of(it, m, what):
        from .world import Seq

        def item(i):
            item_facts(it, m, i)
            if what == "items":
                return VTuple([key_at(m, i), val_at(it, m, i)])
            if what == "keys":
                return key_at(m, i)
            return val_at(it, m, i)
        v = VOpaque("omap_" + what)
        v.seq = Seq(length=OMAP_LEN(m.t), item=item)
        return v

    def f_omap_has(it, m, key):
        i = idx_of(it, m, key)
        return VBool(z3.And(0 <= i, i < OMAP_LEN(m.t)))
    w.spec_funcs["omap_has"] = f_omap_has
    w.spec_funcs["omap_at"] = lambda it, m, key: val_at(it, m, idx_of(it, m, key))
    w.builtins["omap.items"] = lambda it, f, a, k, n: seq_of(it, f.recv, "items")
    w.builtins["omap.keys"] = lambda it, f, a, k, n: seq_of(it, f.recv, "keys")
    w.builtins["omap.values"] = lambda it, f, a, k, n: seq_of(it, f.recv, "values")

    def o_get(it, f, args, kw, node):
        m = f.recv
        idx = idx_of(it, m, args[0])
        default = args[1] if len(args) > 1 else atom(None)
        w.trusted_used.add("dict with str keys (ordered map model of pyvc/refs.py): get/[]/in/items")
        if it.st.spec:
            raise Unsupported("dict.get in a specification")
        if it.decide(z3.And(0 <= idx, idx < OMAP_LEN(m.t))):
            # a name found in a table belongs to the finite universe of names that the measured
            # visited sets / maps count (pyvc/namesets.py); an otherwise unconstrained predicate
            from . import namesets, maps
            kv = sym.as_view(args[0])
            it.sadd(namesets.IN_U(maps.STRKEY(kv.arr, kv.hi)))
            return val_at(it, m, idx)
        return default
    w.builtins["omap.get"] = o_get

    prev_index = w.index_ext

    def index_ext(it, v, idx, node):
        if isinstance(v, VOMap):
            i = idx_of(it, v, idx)
            it.guard(z3.And(0 <= i, i < OMAP_LEN(v.t)), KeyError, node, "SAFE-Key")
            return val_at(it, v, i)
        return prev_index(it, v, idx, node)
    w.index_ext = index_ext

    prev_contains = w.contains_ext

    def contains_ext(it, container, item, node):
        if isinstance(container, VOMap):
            i = idx_of(it, container, item)
            return z3.And(0 <= i, i < OMAP_LEN(container.t))
        return prev_contains(it, container, item, node)
    w.contains_ext = contains_ext

    prev_seq = w.as_sequence_ext

    def as_sequence_ext(it, v, node):
        if isinstance(v, VOMap):
            return seq_of(it, v, "keys").seq
        return prev_seq(it, v, node)
    w.as_sequence_ext = as_sequence_ext

    prev_len = w.len_ext

    def len_ext(it, v, node):
        if isinstance(v, VOMap):
            return VInt(OMAP_LEN(v.t))
        return prev_len(it, v, node)
    w.len_ext = len_ext

    prev_list = w.list_ext

    def list_ext(it, v, node):
        if isinstance(v, VOMap):
            from .interp import ListObj
            j = z3.Int(it.namer.fresh("j"))
            oid = it.fresh_oid()
            it.st.lists[oid] = ListObj(OMAP_LEN(v.t), None, "str",
                                       [z3.Lambda([j], OMAP_KARR(v.t, j)),
                                        z3.Lambda([j], OMAP_KLEN(v.t, j))])
            return VList(oid)
        return prev_list(it, v, node)
    w.list_ext = list_ext

    prev_truth = getattr(w, "truth_ext", None)

    def truth_ext(it, v):
        if isinstance(v, VOMap):
            return OMAP_LEN(v.t) > 0
        if isinstance(v, VRef):
            cls = v.cls
            if isinstance(cls, type) and ("__bool__" in _mro_dict(cls) or "__len__" in _mro_dict(cls)):
                raise Unsupported(f"truthiness of {cls.__name__} with __bool__/__len__")
            return z3.BoolVal(True)
        return prev_truth(it, v) if prev_truth else None
    w.truth_ext = truth_ext

    prev_ident = getattr(w, "identical_ext", None)

    def identical_ext(it, a, b, node):
        if isinstance(a, VRef) and isinstance(b, VRef):
            return a.t == b.t
        if isinstance(a, VOMap) and isinstance(b, VOMap):
            return a.t == b.t
        if isinstance(a, (VRef, VOMap)) or isinstance(b, (VRef, VOMap)):
            return z3.BoolVal(False)
        return prev_ident(it, a, b, node) if prev_ident else None
    w.identical_ext = identical_ext

    prev_isinstance = w.isinstance_ext

    def isinstance_ext(it, v, k, node):
        if isinstance(v, VRef):
            if issubclass(v.cls, k):
                return z3.BoolVal(True)
            if issubclass(k, v.cls):
                # a declared base class: the dynamic class is some subclass (consistent per object)
                RI = z3.Function("ref_isinst", RefS, sym.I, sym.B)
                seen = it.st.ghost.setdefault(("isinst", v.t.get_id()), [])
                for k2 in seen:
                    if k2 is not k and not issubclass(k, k2) and not issubclass(k2, k):
                        it.sadd(z3.Not(z3.And(RI(v.t, sym.ATOMS.code(k)), RI(v.t, sym.ATOMS.code(k2)))))
                    elif k2 is not k and issubclass(k, k2):
                        it.sadd(z3.Implies(RI(v.t, sym.ATOMS.code(k)), RI(v.t, sym.ATOMS.code(k2))))
                    elif k2 is not k and issubclass(k2, k):
                        it.sadd(z3.Implies(RI(v.t, sym.ATOMS.code(k2)), RI(v.t, sym.ATOMS.code(k))))
                if k not in seen:
                    seen.append(k)
                it._keep_refs = getattr(it, "_keep_refs", []) + [v.t]
                return RI(v.t, sym.ATOMS.code(k))
            return z3.BoolVal(False)
        if isinstance(v, VOMap):
            return z3.BoolVal(issubclass(dict, k))
        return prev_isinstance(it, v, k, node)
    w.isinstance_ext = isinstance_ext

    prev_str = getattr(w, "str_of_ext", None)

    def str_of_ext(it, v, node):
        if isinstance(v, (VRef, VOMap)):
            w.trusted_used.add("str()/format of a library object (type, field, node) is total")
            return True
        return prev_str(it, v, node) if prev_str else False
    w.str_of_ext = str_of_ext

    prev_conc = w.concretize

    def concretize(model, v, it):
        if isinstance(v, VRef):
            return {"__ref__": getattr(v.cls, "__name__", str(v.cls)),
                    "id": str(model.eval(v.t, model_completion=True))}
        if isinstance(v, VOMap):
            return {"__omap_len__": model.eval(OMAP_LEN(v.t), model_completion=True).as_long()}
        return prev_conc(model, v, it)
    w.concretize = concretize


# ------------------------------------------------------------------------------ sets of objects
class VRefSet(V):
    """A set whose elements are symbolic objects or None: membership array + a flag for None.
    The contents are mutable state kept in State.ghost under ('refset', oid)."""

    kind = "refset"

    def __init__(self, oid):
        self.oid = oid


def refset_state(it, s):
    key = ("refset", s.oid)
    if key not in it.st.ghost:
        arr = z3.Array(it.namer.fresh("set"), RefS, sym.B)
        hn = z3.Bool(it.namer.fresh("set_has_none"))
        it.st.ghost[key] = (arr, hn)
        for o in it.live_olds + ([it.st.old] if it.st.old is not None else []):
            o.ghost.setdefault(key, (arr, hn))
        if it.live_ghost is not None:
            it.live_ghost.setdefault(key, (arr, hn))
    return it.st.ghost[key]


def refset_has(it, s, x):
    arr, hn = refset_state(it, s)
    if isinstance(x, VAtom):
        return hn
    if isinstance(x, VRef):
        return z3.Select(arr, x.t)
    if isinstance(x, codec.VOpt):
        return z3.If(x.is_none, hn, z3.Select(arr, x.val.t))
    raise Unsupported(f"set element {x!r}")


def refset_add(it, s, x):
    arr, hn = refset_state(it, s)
    if isinstance(x, VAtom):
        it.st.ghost[("refset", s.oid)] = (arr, z3.BoolVal(True))
    elif isinstance(x, VRef):
        it.st.ghost[("refset", s.oid)] = (z3.Store(arr, x.t, z3.BoolVal(True)), hn)
    else:
        raise Unsupported(f"set element {x!r}")


def install_refsets(w):
    prev_fresh = w.fresh_ext

    def fresh_ext(it, spec, label):
        if spec == "refset":
            return VRefSet(it.fresh_oid())
        return prev_fresh(it, spec, label)
    w.fresh_ext = fresh_ext

    prev_contains = w.contains_ext

    def contains_ext(it, container, item, node):
        if isinstance(container, VRefSet):
            return refset_has(it, container, item)
        return prev_contains(it, container, item, node)
    w.contains_ext = contains_ext

    prev_getattr = w.getattr_ext

    def getattr_ext(it, v, attr, node):
        if isinstance(v, VRefSet):
            return VFunc(None, recv=v, builtin=f"refset.{attr}", name=attr)
        return prev_getattr(it, v, attr, node)
    w.getattr_ext = getattr_ext

    def rs_add(it, f, args, kw, node):
        refset_add(it, f.recv, args[0])
        return atom(None)
    w.builtins["refset.add"] = rs_add
    w.spec_funcs["rs_has"] = lambda it, s, x: VBool(refset_has(it, s, x))


# ---------------------------------------------------------------------- dict comprehensions
def dict_comprehension(it, node):
    """{k(x): v(x) for x in S}: over a concrete S expanded into a literal-key dict when the keys are
    literals; over a symbolic S an ordered map with  len <= len(S)  and  (len(S) >= 1 => len >= 1)
    whose values have the kind of v(x) (one generic element is executed for its obligations)."""
    from .interp import _PathEnd, _src
    if len(node.generators) != 1 or node.generators[0].ifs:
        raise Unsupported("dict comprehension with filters or nested loops")
    gen = node.generators[0]
    src = it.ev(gen.iter)
    seq = it.world.as_sequence(it, src, gen.iter)
    saved = dict(it.st.env)
    try:
        if seq.concrete is not None:
            raise Unsupported("dict comprehension over a concrete sequence")
        n = seq.length
        m = z3.Const(it.namer.fresh("dcomp"), RefS)
        it.sadd(z3.And(OMAP_LEN(m) >= 0, OMAP_LEN(m) <= n, z3.Implies(n >= 1, OMAP_LEN(m) >= 1)))
        valspec = "dyn"
        if it.choose(2, "dict comprehension source empty?") == 0:
            i0 = z3.Int(it.namer.fresh("_c"))
            it.assume(z3.And(0 <= i0, i0 < n))
            if not it.feasible():
                raise _PathEnd()
            it.assign(gen.target, seq.item(i0), node)
            k = it.ev(node.key)
            v = it.ev(node.value)
            if isinstance(v, VRef):
                valspec = "ref:" + v.cls.__module__ + "." + v.cls.__qualname__
                it.world.class_aliases.setdefault(valspec[4:], v.cls)
        else:
            it.assume(n == 0)
            if not it.feasible():
                raise _PathEnd()
        return VOMap(m, valspec)
    finally:
        for k2 in list(it.st.env):
            if k2 not in saved:
                del it.st.env[k2]
        it.st.env.update(saved)


# ---------------------------------------------------------------------- recording output dicts
class VRecDict(V):
    """A dict that the code under contract only writes (an output parameter): the stores made on
    the current path are recorded (key, value) in order; reads are outside the model."""

    kind = "recdict"

    def __init__(self, oid):
        self.oid = oid


def install_recdict(w):
    prev_fresh = w.fresh_ext

    def fresh_ext(it, spec, label):
        if spec == "recdict":
            return VRecDict(it.fresh_oid())
        return prev_fresh(it, spec, label)
    w.fresh_ext = fresh_ext

    def stores(it, d):
        return it.st.ghost.setdefault(("recdict", d.oid), [])

    prev_setitem = w.setitem_ext

    def setitem_ext(it, obj, key, val, node):
        if isinstance(obj, VRecDict):
            k = ("recdict", obj.oid)
            it.st.ghost[k] = list(it.st.ghost.get(k, [])) + [(key, val)]
            return True
        return prev_setitem(it, obj, key, val, node)
    w.setitem_ext = setitem_ext

    def f_nstores(it, d):
        return VInt(len(it.st.ghost.get(("recdict", d.oid), [])))

    def f_store_key(it, d, i):
        lst = it.st.ghost.get(("recdict", d.oid), [])
        k = z3.simplify(it.as_int(i, None)).as_long()
        return lst[k][0] if 0 <= k < len(lst) else VOpaque("no store")

    def f_store_val(it, d, i):
        lst = it.st.ghost.get(("recdict", d.oid), [])
        k = z3.simplify(it.as_int(i, None)).as_long()
        return lst[k][1] if 0 <= k < len(lst) else VOpaque("no store")
    w.spec_funcs.update({"nstores": f_nstores, "store_key": f_store_key, "store_val": f_store_val})


def _mro_dict(cls):
    out = {}
    for k in cls.__mro__:
        if k is object or k is tuple:
            continue
        out.update(k.__dict__)
    return out
