"""Sets of names with a cardinality measure (the `visited` sets of the fragment walkers), and the
size of AST nodes: what the termination (VARIANT) obligations of recursions that follow fragment
spreads are stated in.

A name set  spec ("nameset", G)  is a membership array over name ids (strings abstracted as in
maps.key_of) plus the ghost integer G, which *is defined as*  |U \\ S| : the number of names of the
finite universe U that are not in the set.  U is the key set of the fragment table in scope
(`ns_universe(name)`); a lookup in a  ("namemap", valspec)  table that finds something tells that
the name is in U.  What the model takes from finite-set arithmetic, and nothing else:
   G >= 0;   n in U and n not in S  =>  G >= 1;   adding n lowers G by one exactly when n in U \\ S.
The code's own `x in s` / `s.add(x)` drive the array; a call that declares ghost_modifies=[G]
havocs the array and G together (its ensures say what survives).

ast_size(n): an uninterpreted non-negative size of an AST node with  size(child) < size(parent)
for every node read out of a field of another node (A_AST: syntax trees are finite trees)."""
import z3

from . import sym
from .sym import V, VBool, VInt, VFunc, VStr, Unsupported, atom

IN_U = z3.Function("ns_universe", sym.I, sym.B)
A_AST = ("A_AST: syntax trees are finite trees: ast_size(child) < ast_size(parent) for a node read "
         "from a field (or from a tuple-valued field) of another node")
A_NS = ("name sets with a measure: the ghost is defined as |U \\ S| for the finite key set U of the "
        "fragment table in scope; used: it is >= 0, >= 1 while some name of U is outside S, and add() "
        "lowers it by one exactly for such a name")


A_NS_RANK = ("visited tables with a measure: the ghost is defined as the sum over the finite key set U of "
             "the fragment table of rank(name) = 2 absent / 1 True / 0 False; used: it is >= 0, >= the rank "
             "of any single name of U, and a store changes it by the change of that name's rank")


class VNameSet(V):
    kind = "nameset"

    def __init__(self, oid, ghost):
        self.oid = oid
        self.ghost = ghost


class VNameMap(V):
    """dict[str, node] whose keys form the universe U; only .get(name) / [name] / `in` are modelled."""
    kind = "namemap"

    def __init__(self, valspec):
        self.valspec = valspec


def _key(it, x):
    from . import maps
    if not isinstance(x, VStr):
        raise Unsupported(f"name set element {x!r} is not a string")
    return maps.key_of(it, x)


def mem_of(it, s):
    key = ("nameset", s.oid)
    if key not in it.st.ghost:
        arr = z3.Array(it.namer.fresh("nameset"), sym.I, sym.B)
        it.st.ghost[key] = arr
        for o in it.live_olds + ([it.st.old] if it.st.old is not None else []):
            o.ghost.setdefault(key, arr)
        if it.live_ghost is not None:
            it.live_ghost.setdefault(key, arr)
        it.st.ghost.setdefault(("namesets_of", s.ghost), set()).add(s.oid)
    return it.st.ghost[key]


def measure(it, s):
    g = it.ghost_get(s.ghost)
    return g.t


def havoc(it, s):
    """contents and measure unknown again (a loop body or a callee may have added names)."""
    it.st.ghost[("nameset", s.oid)] = z3.Array(it.namer.fresh("nameset"), sym.I, sym.B)
    it.ghost_get(s.ghost)
    g = z3.Int(it.namer.fresh("ghost_" + s.ghost))
    it.st.ghost[s.ghost] = VInt(g)
    it.assume(g >= 0)


def install(w):
    prev_fresh = w.fresh_ext

    def fresh_ext(it, spec, label):
        if isinstance(spec, tuple) and spec and spec[0] == "nameset":
            w.trusted_used.add(A_NS)
            s = VNameSet(it.fresh_oid(), spec[1])
            mem_of(it, s)
            it.assume(measure(it, s) >= 0)
            return s
        if isinstance(spec, tuple) and spec and spec[0] == "namemap":
            return VNameMap(spec[1])
        if isinstance(spec, tuple) and spec and spec[0] == "name_lookup":
            # a bound lookup function name -> node | None over the same table (e.g. the bound method
            # context.get_fragment stored in a field)
            return VFunc(None, recv=VNameMap(spec[1]), builtin="namemap.get", name="lookup")
        return prev_fresh(it, spec, label)
    w.fresh_ext = fresh_ext

    prev_contains = w.contains_ext

    def contains_ext(it, container, item, node):
        if isinstance(container, VNameSet):
            return z3.Select(mem_of(it, container), _key(it, item))
        if isinstance(container, VNameMap):
            return IN_U(_key(it, item))
        return prev_contains(it, container, item, node)
    w.contains_ext = contains_ext

    prev_getattr = w.getattr_ext

    def getattr_ext(it, v, attr, node):
        if isinstance(v, VNameSet):
            return VFunc(None, recv=v, builtin=f"nameset.{attr}", name=attr)
        if isinstance(v, VNameMap):
            return VFunc(None, recv=v, builtin=f"namemap.{attr}", name=attr)
        return prev_getattr(it, v, attr, node)
    w.getattr_ext = getattr_ext

    def ns_add(it, f, args, kw, node):
        s = f.recv
        k = _key(it, args[0])
        mem = mem_of(it, s)
        g = measure(it, s)
        new = z3.And(IN_U(k), z3.Not(z3.Select(mem, k)))
        if not it.st.spec:
            it.assume(z3.Implies(new, g >= 1))
            it.st.ghost[("nameset", s.oid)] = z3.Store(mem, k, z3.BoolVal(True))
            it.st.ghost[s.ghost] = VInt(g - z3.If(new, 1, 0))
        return atom(None)
    w.builtins["nameset.add"] = ns_add

    def ns_remove(it, s, x, node, strict=True):
        """remove a name (del d[name] / set.remove): the measure goes up by one for a name of U that
        was a member."""
        k = _key(it, x)
        mem = mem_of(it, s)
        g = measure(it, s)
        if strict:
            it.guard(z3.Select(mem, k), KeyError, node, "SAFE-Key")
        if not it.st.spec:
            was = z3.And(IN_U(k), z3.Select(mem, k))
            it.st.ghost[("nameset", s.oid)] = z3.Store(mem, k, z3.BoolVal(False))
            it.st.ghost[s.ghost] = VInt(g + z3.If(was, 1, 0))
        return atom(None)
    w.ns_remove = ns_remove
    w.builtins["nameset.remove"] = lambda it, f, args, kw, node: ns_remove(it, f.recv, args[0], node)
    w.builtins["nameset.discard"] = lambda it, f, args, kw, node: ns_remove(it, f.recv, args[0], node, strict=False)

    prev_setitem = w.setitem_ext

    def setitem_ext(it, obj, key, val, node):
        # a dict used as a set of names (`visited[name] = None`)
        if isinstance(obj, VNameSet):
            f = VFunc(None, recv=obj, builtin="nameset.add", name="add")
            ns_add(it, f, [key], {}, node)
            return True
        return prev_setitem(it, obj, key, val, node)
    w.setitem_ext = setitem_ext

    def ns_clear(it, f, args, kw, node):
        s = f.recv
        if not it.st.spec:
            it.st.ghost[("nameset", s.oid)] = z3.K(sym.I, z3.BoolVal(False))
            it.ghost_get(s.ghost)
            g = z3.Int(it.namer.fresh("ghost_" + s.ghost))     # the measure goes back up: unknown
            it.st.ghost[s.ghost] = VInt(g)
            it.assume(g >= 0)
        return atom(None)
    w.builtins["nameset.clear"] = ns_clear

    def nm_get(it, f, args, kw, node):
        """table.get(name[, default]): nothing, or the node stored under a name of U."""
        m = f.recv
        k = _key(it, args[0])
        if it.choose(2, "name table lookup") == 0:
            it.assume(z3.Not(IN_U(k)))
            return args[1] if len(args) > 1 else atom(None)
        it.assume(IN_U(k))
        return it.fresh(m.valspec, "found")
    w.builtins["namemap.get"] = nm_get

    w.spec_funcs["ns_has"] = lambda it, s, x: VBool(z3.Select(mem_of(it, s), _key(it, x)))
    w.spec_funcs["ns_has_key"] = lambda it, s, k: VBool(z3.Select(mem_of(it, s), it.as_int(k, None)))
    w.spec_funcs["ns_universe"] = lambda it, x: VBool(IN_U(_key(it, x)))
    w.spec_funcs["ns_measure"] = lambda it, s: VInt(measure(it, s))

    def ast_size(it, x):
        from .refs import VRef
        if not isinstance(x, VRef):
            raise Unsupported(f"ast_size of {x!r}")
        w.trusted_used.add(A_AST)
        it.sadd(AST_SIZE()(x.t) >= 0)      # a size
        return VInt(AST_SIZE()(x.t))
    w.spec_funcs["ast_size"] = ast_size


_AS = []


def AST_SIZE():
    if not _AS:
        from .refs import RefS
        _AS.append(z3.Function("ast_size", RefS, sym.I))
    return _AS[0]


def is_ast_node(v):
    from .refs import VRef
    if not isinstance(v, VRef) or not isinstance(v.cls, type):
        return False
    return any(k.__module__ == "graphql.language.ast" and k.__name__ == "Node" for k in v.cls.__mro__)


def child_fact(it, child, owner):
    """A_AST, instantiated where a node is read out of another node."""
    if is_ast_node(child) and is_ast_node(owner):
        f = AST_SIZE()
        it.sadd(z3.And(f(child.t) >= 0, f(child.t) < f(owner.t)))


def havoc_for_ghost(it, gname):
    """a callee with ghost_modifies=[G] may have added names to the sets measured by G."""
    for oid in it.st.ghost.get(("namesets_of", gname), ()):
        it.st.ghost[("nameset", oid)] = z3.Array(it.namer.fresh("nameset"), sym.I, sym.B)
