"""Comprehensions and generator arguments.

Over a concrete sequence the comprehension is expanded.  Over a symbolic sequence S of length n:
  * one generic element S[i0] (0 <= i0 < n, fresh i0) is executed for its obligations
    (safety of the conditions and of the element expression); the case n == 0 is a separate path;
  * the result R is a list with  len(R) <= n  (== n without a filter).  When the element
    expression is the loop variable itself (possibly through typing.cast) R keeps the element
    spec of S and, for a filter `cond`,  forall j < len(R): cond(R[j])  and
    (len(R) >= 1) == exists i < n: cond(S[i])  are added (evaluated with the contract-language
    evaluator, so only side-effect free conditions qualify);
  * otherwise, when the element expression evaluates in specification mode to a scalar, R[i] is
    defined pointwise by a quantified axiom (no filter only).
"""
import ast
import z3
from . import sym, codec
from .sym import VInt, VBool, VStr, VTuple, VList, VOpaque, VDyn, Unsupported, sand, sor
from .interp import ListObj, _src, _PathEnd


def _is_identity_elt(node, gen):
    e = node.elt
    if isinstance(e, ast.Call) and isinstance(e.func, ast.Name) and e.func.id == "cast" \
            and len(e.args) == 2:
        e = e.args[1]
    return isinstance(e, ast.Name) and isinstance(gen.target, ast.Name) and e.id == gen.target.id


def comprehension(it, node):
    if len(node.generators) != 1:
        raise Unsupported("nested comprehension")
    gen = node.generators[0]
    if gen.is_async:
        raise Unsupported("async comprehension")
    src = it.ev(gen.iter)
    seq = it.world.as_sequence(it, src, gen.iter)
    saved = dict(it.st.env)
    try:
        if seq.concrete is not None:
            out = []
            for item in seq.concrete:
                it.assign(gen.target, item, node)
                ok = True
                for cond in gen.ifs:
                    if not it.decide(it.truth(it.ev(cond))):
                        ok = False
                        break
                if ok:
                    out.append(it.ev(node.elt))
            return it.new_list(out)
        if it.st.spec:
            raise Unsupported("comprehension over a symbolic sequence inside a specification")
        n = seq.length
        src_list = it.st.lists.get(src.oid) if isinstance(src, VList) else None
        # ---- obligations on one generic element
        elt_val = None
        empty = it.choose(2, "comprehension source empty?") == 1
        if empty:
            it.assume(n == 0)
            if not it.feasible():
                raise _PathEnd()
            return it.new_list([])
        else:
            i0 = z3.Int(it.namer.fresh("_c"))
            it.assume(z3.And(0 <= i0, i0 < n))
            if not it.feasible():
                raise _PathEnd()
            it.assign(gen.target, seq.item(i0), node)
            passed = True
            for cond in gen.ifs:
                if not it.decide(it.truth(it.ev(cond))):
                    passed = False
                    break
            if passed:
                elt_val = it.ev(node.elt)
        # ---- the result list
        oid = it.fresh_oid()
        m = z3.Int(it.namer.fresh("complen"))
        it.assume(z3.And(m >= 0, m <= n))
        if not gen.ifs:
            it.assume(m == n)
        R = ListObj(m, None, None, None)
        it.st.lists[oid] = R
        if _is_identity_elt(node, gen) and src_list is not None and src_list.spec is not None:
            R.spec = src_list.spec
            if not gen.ifs and src_list.arrays is not None:
                R.arrays = list(src_list.arrays)
            else:
                R.arrays = codec.fresh_arrays(it, R.spec, "comp")
                if gen.ifs:
                    _filter_facts(it, node, gen, seq, R, m, n)
        elif not gen.ifs:
            _pointwise(it, node, gen, seq, R, m, elt_val)
        return VList(oid)
    finally:
        for k in list(it.st.env):
            if k not in saved:
                del it.st.env[k]
        it.st.env.update(saved)


def _spec_cond(it, gen, item):
    """conjunction of the filter conditions for `item`, evaluated side-effect free."""
    st = it.st
    saved_env, saved_spec = st.env, st.spec
    st.env = dict(st.env)
    st.spec = True
    try:
        it.assign(gen.target, item, gen.target)
        return sand(*[it.truth(it.ev(c)) for c in gen.ifs])
    finally:
        st.env, st.spec = saved_env, saved_spec


def _filter_facts(it, node, gen, seq, R, m, n):
    try:
        j = z3.Int(it.namer.fresh("j"))
        st = it.st
        saved = st.spec
        st.spec = True
        try:
            rj, _ = codec.decode(it, R.spec, [z3.Select(a, j) for a in R.arrays], assume=False)
            sj = seq.item(j)
        finally:
            st.spec = saved
        cr = _spec_cond(it, gen, rj)
        cs = _spec_cond(it, gen, sj)
        it.sadd(z3.ForAll([j], z3.Implies(z3.And(0 <= j, j < m), cr)))
        it.sadd((m >= 1) == z3.Exists([j], z3.And(0 <= j, j < n, cs)))
        # an explicit witness keeps the solver from needing to instantiate the existential
        k = z3.Int(it.namer.fresh("wit"))
        it.sadd(z3.Implies(m >= 1, z3.And(0 <= k, k < n, z3.substitute(cs, (j, k)))))
    except Unsupported:
        pass


def _pointwise(it, node, gen, seq, R, m, elt_val):
    spec = codec.infer_spec(elt_val) if elt_val is not None else None
    if spec is None:
        return
    if isinstance(spec, tuple):
        # kind known, contents not modelled
        R.spec = spec
        R.arrays = codec.fresh_arrays(it, spec, "comp")
        return
    try:
        j = z3.Int(it.namer.fresh("j"))
        st = it.st
        saved_env, saved_spec = st.env, st.spec
        st.env = dict(st.env)
        st.spec = True
        try:
            it.assign(gen.target, seq.item(j), gen.target)
            v = it.ev(node.elt)
        finally:
            st.env, st.spec = saved_env, saved_spec
        terms = codec.encode(it, spec, v)
        R.spec = spec
        R.arrays = [z3.Lambda([j], t) for t in terms]
    except Unsupported:
        if spec == "str":
            R.spec = spec      # kind known, contents not modelled
            R.arrays = codec.fresh_arrays(it, spec, "comp")
            return
        R.spec = None
        R.arrays = None
