"""Comprehensions and generator arguments (limited forms)."""
import ast
import z3
from .sym import VInt, VBool, VStr, VTuple, VList, VOpaque, Unsupported, sand, sor
from .interp import ListObj, _src


def comprehension(it, node):
    """[elt for target in iter if cond] over a concrete sequence is expanded; over a symbolic
    sequence the result is a list of unknown contents whose length is bounded by the source."""
    if len(node.generators) != 1:
        raise Unsupported("nested comprehension")
    gen = node.generators[0]
    src = it.ev(gen.iter)
    seq = it.world.as_sequence(it, src, gen.iter)
    saved = dict(it.st.env)
    try:
        if seq.concrete is not None:
            out = []
            for item in seq.concrete:
                it.assign(gen.target, item, node)
                ok = True
                for cond in gen.ifs:
                    if not it.decide(it.truth(it.ev(cond))):
                        ok = False
                        break
                if ok:
                    out.append(it.ev(node.elt))
            return it.new_list(out)
        # symbolic: evaluate one generic element for its obligations (safety of elt/conds)
        i = z3.Int(it.namer.fresh("_c"))
        it_saved_pc = None
        oid = it.fresh_oid()
        n = z3.Int(it.namer.fresh("complen"))
        it.assume(z3.And(n >= 0, n <= seq.length))
        if not gen.ifs:
            it.assume(n == seq.length)
        it.world.comp_generic(it, node, gen, seq, i)
        it.st.lists[oid] = ListObj(n, None, "opaque")
        return VList(oid)
    finally:
        for k in list(it.st.env):
            if k not in saved:
                del it.st.env[k]
        it.st.env.update(saved)
