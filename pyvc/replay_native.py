"""Native replay of a solver counter-model against the real code (runs under the repository's
interpreter, no z3).  stdin: JSON request; stdout: JSON result {"confirmed": bool, ...}.
"""
from __future__ import annotations

import ast
import copy
import importlib
import json
import sys
import traceback


# ------------------------------------------------------------------------- reference spec functions
def _lt_start(b, q):
    return 0 <= q < len(b) and (b[q] == "\r" or (b[q] == "\n" and not (q > 0 and b[q - 1] == "\r")))


def nlt(b, q):
    return sum(1 for i in range(0, min(q, len(b))) if _lt_start(b, i))


def lls(b, q):
    r = 0
    n = len(b)
    for i in range(0, min(q, n)):
        if b[i] == "\n" or (b[i] == "\r" and not (i + 1 < n and b[i + 1] == "\n")):
            r = i + 1
    return r


def midCRLF(b, q):
    return 0 < q < len(b) and b[q - 1] == "\r" and b[q] == "\n"


def cp(s, i):
    return ord(s[i]) if 0 <= i < len(s) else -1


def implies(a, b):
    return (not a) or bool(b)


def ite(c, a, b):
    return a if c else b


class Undecidable(Exception):
    pass


class FakeWorld:
    """Collects the named predicates of the contract files so clauses can be evaluated natively."""

    def __init__(self):
        import math
        self.ns = {"nlt": nlt, "lls": lls, "midCRLF": midCRLF, "cp": cp, "implies": implies,
                   "ite": ite, "LTchar": lambda c: c in ("\r", "\n"),
                   "is_bool": lambda v: isinstance(v, bool),
                   "is_int": lambda v: isinstance(v, int) and not isinstance(v, bool),
                   "is_float": lambda v: isinstance(v, float),
                   "is_str": lambda v: isinstance(v, str),
                   "is_none": lambda v: v is None,
                   "is_other": lambda v: not isinstance(v, (bool, int, float, str, list, tuple, dict, set, bytes, type(None))),
                   "is_finite_float": lambda v: isinstance(v, float) and math.isfinite(v),
                   "is_integral_float": lambda v: isinstance(v, float) and math.isfinite(v) and v == int(v),
                   "int_of": lambda v: int(v), "bool_of": lambda v: bool(v),
                   "float_int_of": lambda v: int(v),
                   "num_eq": lambda a, b: _num(a) and _num(b) and a == b,
                   "same": lambda a, b: a is b or (type(a) is type(b) and a == b)}
        try:
            self.ns.update(_types_ns())
        except Exception:
            pass
        self.contracts = {}
        self.theories = []
        self.spec_funcs = {}
        self.builtins = {}
        self.trusted_used = set()

    def alias(self, short, full):
        modname, _, cname = full.rpartition(".")
        self.ns[short] = getattr(importlib.import_module(modname), cname)
        return self.ns[short]

    def define(self, name, params, expr):
        try:
            self.ns[name] = eval(f"lambda {params}: ({expr})", self.ns)
        except SyntaxError:
            pass

    def contract(self, target, **kw):
        self.contracts[target] = kw

    def shape(self, *a, **k):
        pass

    def __getattr__(self, name):
        def nop(*a, **k):
            return None
        return nop


def load_contract_defs():
    import pkgutil
    import contracts
    w = FakeWorld()
    for m in sorted(pkgutil.iter_modules(contracts.__path__), key=lambda m: m.name):
        try:
            mod = importlib.import_module(f"contracts.{m.name}")
            if hasattr(mod, "install"):
                mod.install(w)
        except Exception:
            pass
    return w


# ------------------------------------------------------------------------- model -> python objects
def resolve_atom(key):
    kind, _, rest = key.partition(":")
    if key == "None":
        return None
    if key == "Ellipsis":
        return Ellipsis
    if kind == "enum":
        modcls, _, member = rest.rpartition(".")
        modname, _, cname = modcls.rpartition(".")
        return getattr(getattr(importlib.import_module(modname), cname), member)
    if kind == "class":
        modname, _, cname = rest.rpartition(".")
        return getattr(importlib.import_module(modname), cname)
    if "Undefined" in key:
        from graphql.pyutils import Undefined
        return Undefined
    raise Undecidable(f"atom {key}")


def build(v, hint=None):
    if isinstance(v, dict):
        if "__atom__" in v:
            return resolve_atom(v["__atom__"])
        if "__class__" in v:
            return build_object(v)
        if "__list_len__" in v:
            return ["" for _ in range(min(v["__list_len__"], 50))]
        if "__float__" in v:
            return float(v["__float__"])
        if "__val__" in v:
            return build_val(v["__val__"])
        if "__type__" in v:
            return build_type(v["__type__"])
        if "__schema__" in v:
            return StubSchema(v.get("possible", []))
    if isinstance(v, list):
        return tuple(build(x) for x in v)
    if isinstance(v, str) and v.startswith("VFunc("):
        def cb(*a, **k):
            COUNTERS["errs"] = COUNTERS.get("errs", 0) + 1
        return cb
    return v


_TYPES = {}


def build_type(chain):
    """[[kind, ident], ...] from the outermost wrapper to the named type -> real type objects
    (the same ident always gives the same object)."""
    from graphql.type import (GraphQLNonNull, GraphQLList, GraphQLScalarType, GraphQLObjectType,
                              GraphQLInterfaceType, GraphQLUnionType, GraphQLEnumType,
                              GraphQLInputObjectType, GraphQLField, GraphQLInputField, GraphQLString)
    if chain[-1][0] in ("NONNULL", "LIST"):
        raise Undecidable("type model without a named type within reach")
    inner = None
    for kind, ident in reversed(chain):
        if ident in _TYPES:
            inner = _TYPES[ident]
            continue
        nm = "T" + "".join(ch for ch in ident if ch.isalnum())
        if kind == "NONNULL":
            t = GraphQLNonNull(inner)
        elif kind == "LIST":
            t = GraphQLList(inner)
        elif kind == "SCALAR":
            t = GraphQLScalarType(nm)
        elif kind == "OBJECT":
            t = GraphQLObjectType(nm, {"f": GraphQLField(GraphQLString)})
        elif kind == "INTERFACE":
            t = GraphQLInterfaceType(nm, {"f": GraphQLField(GraphQLString)})
        elif kind == "UNION":
            t = GraphQLUnionType(nm, [])
        elif kind == "ENUM":
            t = GraphQLEnumType(nm, {"A": 1})
        else:
            t = GraphQLInputObjectType(nm, {"f": GraphQLInputField(GraphQLString)})
        _TYPES[ident] = t
        inner = t
    return inner


class StubSchema:
    """A schema whose is_sub_type is the relation of the counter-model."""

    def __init__(self, pairs):
        self.pairs = {tuple(p) for p in pairs}

    def is_sub_type(self, abstract_type, maybe_sub_type):
        inv = {id(v): k for k, v in _TYPES.items()}
        return (inv.get(id(abstract_type)), inv.get(id(maybe_sub_type))) in self.pairs


def _types_ns():
    from graphql.type import (is_non_null_type, is_list_type, is_leaf_type, is_input_type,
                              is_output_type, is_object_type, is_interface_type, is_union_type,
                              is_abstract_type, is_named_type)

    def of(t):
        return t.of_type

    def EqT(a, b):
        if is_non_null_type(a) or is_non_null_type(b):
            return is_non_null_type(a) and is_non_null_type(b) and EqT(of(a), of(b))
        if is_list_type(a) or is_list_type(b):
            return is_list_type(a) and is_list_type(b) and EqT(of(a), of(b))
        return a is b

    def sub_named(s, a, b):
        return a is b or (is_object_type(a) and is_union_type(b) and s.is_sub_type(b, a)) or (
            (is_object_type(a) or is_interface_type(a)) and is_interface_type(b)
            and s.is_sub_type(b, a))

    def Sub(s, a, b):
        if is_non_null_type(a):
            return Sub(s, of(a), of(b) if is_non_null_type(b) else b)
        if is_list_type(a) and is_list_type(b):
            return Sub(s, of(a), of(b))
        return bool(sub_named(s, a, b))

    def Compat(a, b):
        if is_non_null_type(b):
            return is_non_null_type(a) and Compat(of(a), of(b))
        if is_non_null_type(a):
            return Compat(of(a), b)
        if is_list_type(b):
            return is_list_type(a) and Compat(of(a), of(b))
        if is_list_type(a):
            return False
        return a is b

    def SameShapeW(a, b):
        if is_non_null_type(a) or is_non_null_type(b):
            return is_non_null_type(a) and is_non_null_type(b) and SameShapeW(of(a), of(b))
        if is_list_type(a) or is_list_type(b):
            return is_list_type(a) and is_list_type(b) and SameShapeW(of(a), of(b))
        if is_leaf_type(a) or is_leaf_type(b):
            return a is b
        return True

    def Valid(v, t):
        from graphql.pyutils import Undefined, is_iterable
        from graphql.type import is_input_object_type
        if is_non_null_type(t):
            return v is not None and v is not Undefined and Valid(v, of(t))
        if v is None or v is Undefined:
            return True
        if is_list_type(t):
            if is_iterable(v):
                return all(Valid(x, of(t)) for x in v)
            return Valid(v, of(t))
        if is_input_object_type(t):
            raise Undecidable("Valid on input objects")
        try:
            return t.coerce_input_value(v) is not Undefined
        except Exception:
            return False

    def Conf(r, t):
        if is_non_null_type(t):
            return r is not None and Conf(r, of(t))
        if r is None:
            return True
        if is_list_type(t):
            return isinstance(r, list) and all(Conf(x, of(t)) for x in r)
        return True

    kinds = {"NONNULL": is_non_null_type, "LIST": is_list_type, "OBJECT": is_object_type,
             "INTERFACE": is_interface_type, "UNION": is_union_type}
    return {"of": of, "EqT": EqT, "Sub": Sub, "Compat": Compat, "SameShapeW": SameShapeW,
            "InputTy": is_input_type, "OutputTy": is_output_type, "NonNull": is_non_null_type,
            "ListTy": is_list_type, "NamedTy": is_named_type, "LeafTy": is_leaf_type,
            "possible": lambda s, a, b: s.is_sub_type(a, b),
            "kind_is": lambda t, k: kinds[k](t) if k in kinds else False,
            "abstract_ty": is_abstract_type, "Valid": Valid, "Conf": Conf,
            "NoObj": lambda t: True, "iterable_v": lambda v: __import__("graphql").pyutils.is_iterable(v),
            "ty_rank": lambda t: 0 if is_named_type(t) else 1 + _rank(t.of_type),
            "is_undefined": lambda v: v is __import__("graphql").pyutils.Undefined,
            "instance_of": lambda v, name: type(v).__name__ == name}


def _rank(t):
    n = 0
    while hasattr(t, "of_type"):
        n += 1
        t = t.of_type
    return n


COUNTERS = {}


class _Custom:
    """stands for 'any other object'"""

    def __str__(self):
        return "custom"


def build_val(d):
    tg = d["tag"]
    if tg == "none":
        return None
    if tg == "undefined":
        from graphql.pyutils import Undefined
        return Undefined
    if tg == "bool":
        return bool(d["bool"])
    if tg == "int":
        return int(d["int"])
    if tg == "float":
        f = d["float"]
        if isinstance(f, str):
            return float(f)
        return f[0] / f[1]
    if tg == "str":
        return d.get("str", "")
    if tg == "list":
        return [None] * min(d.get("len", 0), 20)
    if tg == "tuple":
        return tuple([None] * min(d.get("len", 0), 20))
    if tg == "dict":
        return {}
    if tg == "set":
        return set()
    if tg == "bytes":
        return b""
    for key in d.get("instance_of", []):
        if not key.startswith("class:graphql.language.ast."):
            continue
        try:
            cls = resolve_atom(key)
            try:
                return cls()
            except Exception:
                return cls.__new__(cls)
        except Exception:
            continue
    return _Custom()


def _num(v):
    return isinstance(v, (int, float))


def build_object(d):
    from graphql.language import Source, Lexer, Token, TokenKind
    name = d["__class__"]
    if name == "Source":
        return Source(build(d.get("body", "")) or "")
    if name in ("Lexer", "SchemaCoordinateLexer"):
        src = build(d["source"]) if "source" in d else Source("")
        if name == "Lexer":
            lx = Lexer(src)
        else:
            from graphql.language.schema_coordinate_lexer import SchemaCoordinateLexer
            lx = SchemaCoordinateLexer(src)
        for k, val in d.items():
            if k in ("line", "line_start"):
                setattr(lx, k, build(val))
        return lx
    if name == "Token":
        kind = build(d["kind"]) if "kind" in d else TokenKind.NAME
        t = Token(kind, d.get("start", 0), d.get("end", 0), d.get("line", 1), d.get("column", 1),
                  build(d.get("value")) if "value" in d else None)
        return t
    raise Undecidable(f"no native builder for class {name}")


class _OldRewriter(ast.NodeTransformer):
    def visit_Call(self, node):
        self.generic_visit(node)
        if isinstance(node.func, ast.Name) and node.func.id == "old" and len(node.args) == 1:
            return ast.Call(func=ast.Name(id="__oldeval__", ctx=ast.Load()),
                            args=[ast.Constant(ast.unparse(node.args[0]))], keywords=[])
        if isinstance(node.func, ast.Name) and node.func.id in ("forall", "exists") \
                and len(node.args) == 4 and isinstance(node.args[0], ast.Name):
            var, lo, hi, body = node.args
            gen = ast.GeneratorExp(
                elt=body,
                generators=[ast.comprehension(
                    target=ast.Name(id=var.id, ctx=ast.Store()),
                    iter=ast.Call(func=ast.Name(id="range", ctx=ast.Load()), args=[lo, hi],
                                  keywords=[]), ifs=[], is_async=0)])
            fn = "all" if node.func.id == "forall" else "any"
            return ast.Call(func=ast.Name(id=fn, ctx=ast.Load()), args=[gen], keywords=[])
        return node


def eval_clause(clause, ns, ns_old):
    tree = ast.parse(clause.strip(), mode="eval")
    tree = ast.fix_missing_locations(_OldRewriter().visit(tree))
    ns = dict(ns)
    ns["__oldeval__"] = lambda src: eval_clause(src, ns_old, ns_old)
    return eval(compile(tree, "<clause>", "eval"), ns)


def main():
    req = json.loads(sys.stdin.read())
    out = {"confirmed": False, "steps": []}
    modname, qual = req["target"].split(":")
    mod = importlib.import_module(modname)
    obj = mod
    for p in qual.split("."):
        obj = getattr(obj, p)
    model = req["model"]
    try:
        import inspect
        params = list(inspect.signature(obj).parameters)
        args = {}
        for p in params:
            if p in model:
                args[p] = build(model[p])
        w = load_contract_defs()
        ns = dict(vars(mod))
        ns.update(w.ns)
        try:
            old_args = copy.deepcopy(args)
        except Exception:
            old_args = dict(args)
        ns_old = dict(ns)
        ns_old.update(old_args)
        ns["ghost"] = lambda name: COUNTERS.get(name, 0)
        ns_old["ghost"] = lambda name: 0
        result = None
        exc = None
        try:
            result = obj(**args)
        except Exception as e:  # noqa: BLE001
            exc = e
        out["call"] = {"function": req["target"], "args": {k: repr(v)[:300] for k, v in old_args.items()},
                       "raised": None if exc is None else f"{type(exc).__name__}: {exc}",
                       "result": None if exc is not None else repr(result)[:300]}
        kind = req["kind"]
        clause = req["clause"]
        if kind.startswith("SAFE") or kind == "RAISES":
            want = clause.split(" from ")[0].strip()
            if exc is not None and type(exc).__name__ == want:
                out["confirmed"] = True
                out["why"] = f"the real function raised {want}, which its contract does not allow"
        elif kind == "VARIANT" and isinstance(exc, RecursionError):
            out["confirmed"] = True
            out["why"] = "the real function does not terminate on this input (RecursionError)"
        elif kind == "POST" and exc is None:
            ns2 = dict(ns)
            ns2.update(args)
            ns2["result"] = result
            try:
                holds = bool(eval_clause(clause, ns2, ns_old))
                out["clause_value"] = holds
                if not holds:
                    out["confirmed"] = True
                    out["why"] = "the postcondition evaluates to False on the real result"
            except Exception as e:  # noqa: BLE001
                out["clause_error"] = f"{type(e).__name__}: {e}"
    except Undecidable as e:
        out["steps"].append(f"function-level replay not possible: {e}")
    except Exception as e:  # noqa: BLE001
        out["steps"].append(f"function-level replay failed: {type(e).__name__}: {e}")
    # property-level lifters (public entry points)
    for lf in req.get("lifters", []):
        try:
            m, _, f = lf.partition(":")
            r = getattr(importlib.import_module(m), f)(model, req)
            out.setdefault("lifted", []).append(r)
            if r and r.get("confirmed"):
                out["confirmed"] = True
        except Exception as e:  # noqa: BLE001
            out["steps"].append(f"lifter {lf} failed: {type(e).__name__}: {e}")
    print(json.dumps(out, default=str))


if __name__ == "__main__":
    try:
        main()
    except Exception:
        traceback.print_exc()
        sys.exit(1)
