"""Abstract float model (class, real value); filled in by theories/scalars.py."""
import z3
from .sym import VFloat, Unsupported


def lift(it, x):
    import math
    if math.isnan(x):
        return VFloat(z3.IntVal(1), z3.RealVal(0))
    if math.isinf(x):
        return VFloat(z3.IntVal(2 if x > 0 else 3), z3.RealVal(0))
    from fractions import Fraction
    fr = Fraction(x)
    return VFloat(z3.IntVal(0), z3.RealVal(fr.numerator) / z3.RealVal(fr.denominator))


def fresh(it, label):
    c = z3.Int(it.namer.fresh(label + "_fcls"))
    v = z3.Real(it.namer.fresh(label + "_fval"))
    it.assume(z3.And(0 <= c, c <= 3))
    return VFloat(c, v)


def neg(it, v):
    return VFloat(z3.If(v.cls == 2, 3, z3.If(v.cls == 3, 2, v.cls)), -v.val)


def cmp(it, op, a, b, node):
    raise Unsupported("float comparison")
