"""Symbolic values of the pyvc engine and their z3 encodings.

Sorts (DESIGN.md 2.3):
  int   -> z3 Int (exact: Python ints are unbounded)
  bool  -> z3 Bool
  str   -> view (arr: Array Int Int of code points, lo, hi) or a concrete literal
  atoms -> None / Undefined / enum members / other identity constants as Int codes
  Val   -> uninterpreted sort for dynamically typed values, with tag/projection functions
  objects -> engine-side identities (VObj) with a field heap kept by the interpreter
"""
from __future__ import annotations

import itertools
import z3

I = z3.IntSort()
B = z3.BoolSort()
ArrS = z3.ArraySort(I, I)
MAXCP = 0x10FFFF


class Unsupported(Exception):
    """Construct outside the verified subset (verdict: undecided, never a violation)."""


class V:
    """Base class of symbolic values."""

    kind = "?"


class VInt(V):
    kind = "int"

    def __init__(self, t):
        self.t = z3.IntVal(t) if isinstance(t, int) else t

    def __repr__(self):
        return f"VInt({self.t})"


class VBool(V):
    kind = "bool"

    def __init__(self, t):
        self.t = z3.BoolVal(t) if isinstance(t, bool) else t

    def __repr__(self):
        return f"VBool({self.t})"


class VStr(V):
    """A string: either a concrete literal or the view arr[lo:hi] (lo <= hi)."""

    kind = "str"

    def __init__(self, lit=None, arr=None, lo=None, hi=None):
        self.lit = lit
        self.arr = arr
        self.lo = lo
        self.hi = hi

    def length(self):
        if self.lit is not None:
            return z3.IntVal(len(self.lit))
        return self.hi - self.lo

    def char(self, i):
        """Code point at (already normalised, in-bounds) offset i."""
        if self.lit is not None:
            if isinstance(i, int) or z3.is_int_value(i):
                k = i if isinstance(i, int) else i.as_long()
                return z3.IntVal(ord(self.lit[k])) if 0 <= k < len(self.lit) else z3.IntVal(-1)
            r = z3.IntVal(-1)
            for k in reversed(range(len(self.lit))):
                r = z3.If(i == k, z3.IntVal(ord(self.lit[k])), r)
            return r
        return z3.Select(self.arr, self.lo + i)

    def __repr__(self):
        if self.lit is not None:
            return f"VStr({self.lit!r})"
        return f"VStr({self.arr}[{self.lo}:{self.hi}])"


class VAtom(V):
    """None / Undefined / enum members / classes: identity constants coded as ints."""

    kind = "atom"

    def __init__(self, t):
        self.t = t  # z3 Int term

    def __repr__(self):
        return f"VAtom({self.t})"


class VConst(V):
    """A concrete Python object the engine only passes around (dict tables, classes, functions)."""

    kind = "const"

    def __init__(self, obj, name=None):
        self.obj = obj
        self.name = name

    def __repr__(self):
        return f"VConst({self.name or self.obj!r})"


class VTuple(V):
    kind = "tuple"

    def __init__(self, items, names=None, cls=None):
        self.items = list(items)
        self.names = names  # field names for NamedTuple records
        self.cls = cls

    def __repr__(self):
        return f"VTuple({self.items})"


class VObj(V):
    """A heap object with engine-side identity."""

    kind = "obj"
    _ids = itertools.count(1)

    def __init__(self, cls, oid=None, label=""):
        self.cls = cls  # python class (from the real module) or shape name
        self.oid = oid
        self.label = label

    def __repr__(self):
        return f"VObj({getattr(self.cls, '__name__', self.cls)}#{self.oid})"


class VList(V):
    """A list object: identity + (len, optional concrete item list) kept in the heap."""

    kind = "list"

    def __init__(self, oid):
        self.oid = oid

    def __repr__(self):
        return f"VList(#{self.oid})"


class VDict(V):
    kind = "dict"

    def __init__(self, oid):
        self.oid = oid


class VFunc(V):
    """A callable: python function (real), optionally bound to a receiver."""

    kind = "func"

    def __init__(self, fn, recv=None, name=None, builtin=None):
        self.fn = fn
        self.recv = recv
        self.name = name
        self.builtin = builtin  # name of a modelled builtin / method

    def __repr__(self):
        return f"VFunc({self.name or self.builtin or self.fn})"


class VOpaque(V):
    """A value about which nothing is known (havoc)."""

    kind = "opaque"

    def __init__(self, label=""):
        self.label = label

    def __repr__(self):
        return f"VOpaque({self.label})"


class VFloat(V):
    """Abstract float: cls in {0 finite, 1 nan, 2 +inf, 3 -inf}, real value when finite."""

    kind = "float"

    def __init__(self, cls, val):
        self.cls = cls
        self.val = val


# --------------------------------------------------------------------------- Val sort
ValS = z3.DeclareSort("Val")
tag = z3.Function("tag", ValS, I)
as_int = z3.Function("as_int", ValS, I)
as_bool = z3.Function("as_bool", ValS, B)
as_atom = z3.Function("as_atom", ValS, I)
as_fcls = z3.Function("as_fcls", ValS, I)
as_fval = z3.Function("as_fval", ValS, z3.RealSort())
as_sarr = z3.Function("as_sarr", ValS, ArrS)
as_slen = z3.Function("as_slen", ValS, I)
v_len = z3.Function("v_len", ValS, I)
v_item = z3.Function("v_item", ValS, I, ValS)

TAGS = {
    "none": 0, "undefined": 1, "bool": 2, "int": 3, "float": 4, "str": 5,
    "list": 6, "tuple": 7, "dict": 8, "other": 9, "atom": 10, "set": 11, "bytes": 12,
}


class VDyn(V):
    """A dynamically typed value (uninterpreted sort Val)."""

    kind = "dyn"

    def __init__(self, t):
        self.t = t

    def __repr__(self):
        return f"VDyn({self.t})"


# --------------------------------------------------------------------------- atoms
class AtomTable:
    """Deterministic coding of identity constants (None, Undefined, enum members, classes)."""

    def __init__(self):
        self.by_key = {}
        self.objs = []

    @staticmethod
    def _key(obj):
        import enum
        if obj is None:
            return "None"
        if isinstance(obj, enum.Enum):
            return f"enum:{type(obj).__module__}.{type(obj).__qualname__}.{obj.name}"
        if isinstance(obj, type):
            return f"class:{obj.__module__}.{obj.__qualname__}"
        if obj is Ellipsis:
            return "Ellipsis"
        if isinstance(obj, str):
            return "str:" + obj
        return f"obj:{type(obj).__module__}.{type(obj).__qualname__}:{obj!r}"

    def code(self, obj):
        k = self._key(obj)
        if k not in self.by_key:
            self.by_key[k] = len(self.objs)
            self.objs.append(obj)
        return self.by_key[k]

    def obj(self, code):
        return self.objs[code]


ATOMS = AtomTable()
ATOMS.code(None)  # None is 0


def atom(obj):
    return VAtom(z3.IntVal(ATOMS.code(obj)))


def atom_obj(v):
    """Concrete object of an atom value if its code is concrete, else raises KeyError."""
    t = z3.simplify(v.t)
    if z3.is_int_value(t):
        return ATOMS.obj(t.as_long())
    raise KeyError


# --------------------------------------------------------------------------- fresh names
class Namer:
    def __init__(self):
        self.n = 0

    def fresh(self, base):
        self.n += 1
        return f"{base}!{self.n}"


def sand(*xs):
    xs = [x for x in xs if not z3.is_true(x)]
    if not xs:
        return z3.BoolVal(True)
    if len(xs) == 1:
        return xs[0]
    return z3.And(*xs)


def sor(*xs):
    xs = [x for x in xs if not z3.is_false(x)]
    if not xs:
        return z3.BoolVal(False)
    if len(xs) == 1:
        return xs[0]
    return z3.Or(*xs)


# --------------------------------------------------------------------------- strings
def str_lit(s):
    return VStr(lit=s)


def str_len(s):
    return s.length()


def str_eq(a, b):
    """z3 Bool: the two strings are equal."""
    if a.lit is not None and b.lit is not None:
        return z3.BoolVal(a.lit == b.lit)
    if a.lit is not None:
        a, b = b, a
    if b.lit is not None:
        k = len(b.lit)
        return sand(a.length() == k, *[a.char(j) == ord(b.lit[j]) for j in range(k)])
    if a.arr is b.arr or z3.eq(a.arr, b.arr):
        if z3.eq(z3.simplify(a.lo - b.lo), z3.IntVal(0)):
            return a.hi == b.hi
    j = z3.Int("j!eq")
    return sand(
        a.length() == b.length(),
        z3.ForAll([j], z3.Implies(z3.And(0 <= j, j < a.length()), a.char(j) == b.char(j))),
    )


def str_lt(a, b, or_equal):
    """Lexicographic a < b (or a <= b); exact when one side is a literal of length <= 1,
    or both sides have length <= 1 (the caller supplies a side condition otherwise)."""
    la, lb = a.length(), b.length()
    if b.lit is not None and len(b.lit) == 1:
        c = ord(b.lit)
        # a < "c"  <=>  a == "" or a[0] < c          (any length of a)
        # a <= "c" <=>  a == "" or a[0] < c or (a[0] == c and len(a) == 1)
        base = sor(la == 0, a.char(0) < c)
        if or_equal:
            return sor(base, sand(la == 1, a.char(0) == c))
        return base
    if a.lit is not None and len(a.lit) == 1:
        c = ord(a.lit)
        # "c" < b  <=>  len(b) >= 1 and (b[0] > c or (b[0] == c and len(b) > 1))
        # "c" <= b <=>  len(b) >= 1 and b[0] >= c
        if or_equal:
            return sand(lb >= 1, b.char(0) >= c)
        return sand(lb >= 1, sor(b.char(0) > c, sand(b.char(0) == c, lb > 1)))
    if a.lit is not None and len(a.lit) == 0:
        return z3.BoolVal(True) if or_equal else lb > 0
    if b.lit is not None and len(b.lit) == 0:
        return la == 0 if or_equal else z3.BoolVal(False)
    raise Unsupported("string order comparison of two non-literal or long operands")


def str_in_lit(a, lit):
    """a in lit (substring test) for a literal right operand: exact for every length of a."""
    cases = []
    la = a.length()
    for k in range(len(lit) + 1):
        if k == 0:
            cases.append(la == 0)
            continue
        subs = {lit[j : j + k] for j in range(len(lit) - k + 1)}
        alts = [sand(*[a.char(i) == ord(s[i]) for i in range(k)]) for s in sorted(subs)]
        cases.append(sand(la == k, sor(*alts)))
    return sor(*cases)


def norm_index(i, n):
    """Python index normalisation for a slice bound (clamping)."""
    return z3.If(i < 0, z3.If(i + n < 0, z3.IntVal(0), i + n), z3.If(i > n, n, i))


def str_slice(s, a, b):
    """s[a:b] with Python clamping; a/b are z3 Int terms or None."""
    n = s.length()
    lo = z3.IntVal(0) if a is None else norm_index(a, n)
    hi = n if b is None else norm_index(b, n)
    hi = z3.If(hi < lo, lo, hi)
    lo, hi = z3.simplify(lo), z3.simplify(hi)
    if s.lit is not None:
        if z3.is_int_value(lo) and z3.is_int_value(hi):
            return VStr(lit=s.lit[lo.as_long() : hi.as_long()])
        arr = lit_array(s.lit)
        return VStr(arr=arr, lo=lo, hi=hi)
    return VStr(arr=s.arr, lo=z3.simplify(s.lo + lo), hi=z3.simplify(s.lo + hi))


_LIT_ARRAYS = {}


def lit_array(s):
    if s not in _LIT_ARRAYS:
        arr = z3.K(I, z3.IntVal(0))
        for k, ch in enumerate(s):
            arr = z3.Store(arr, k, ord(ch))
        _LIT_ARRAYS[s] = arr
    return _LIT_ARRAYS[s]


def as_view(s):
    if s.lit is None:
        return s
    return VStr(arr=lit_array(s.lit), lo=z3.IntVal(0), hi=z3.IntVal(len(s.lit)))
