"""Recursive ghost functions over an index, instantiated at the terms of a query.

An IndexRec F(args..., i) is defined by primitive recursion
    F(args, 0)   = base(args)
    F(args, i+1) = step(args, i, F(args, i))
(hence consistent).  The solver never sees a quantified axiom: for every application F(args, t)
occurring in a query the engine adds the unfolding at t (relating t and t-1) and at t+1, to a
bounded depth.  For accumulating conjunctions (kind="all":  step = prev and P(i)) it also adds,
for every two applications on the same args, the antitonicity lemma  u <= t => (F(t) => F(u)),
and for counters (kind="count") monotonicity; both are proved by induction in `lemmas()`.
"""
import z3

from . import sym


class IndexRec:
    def __init__(self, name, arg_sorts, result_sort, base, step, kind=None):
        self.name = name
        self.f = z3.Function(name, *arg_sorts, sym.I, result_sort)
        self.nargs = len(arg_sorts)
        self.base = base
        self.step = step
        self.kind = kind

    def __call__(self, *args):
        return self.f(*args)

    def unfold(self, args, t):
        t = z3.simplify(t)
        t1 = z3.simplify(t - 1)
        out = [z3.Implies(t <= 0, self.f(*args, t) == self.base(*args)),
               z3.Implies(t > 0, self.f(*args, t) == self.step(*args, t1, self.f(*args, t1)))]
        if self.kind == "count":
            out.append(self.f(*args, t) >= 0)
        return out


class RecTheory:
    DEPTH = 2

    def __init__(self):
        self.funcs = {}

    def add(self, rec):
        self.funcs[rec.name] = rec
        return rec

    def reset(self, it):
        it._rec_done = set()
        it._rec_seen = set()
        it._rec_terms = {}
        it._rec_keep = []

    def snapshot(self, it):
        return (set(it._rec_done), set(it._rec_seen),
                {k: list(v) for k, v in it._rec_terms.items()})

    def restore(self, it, snap):
        it._rec_done, it._rec_seen, it._rec_terms = snap

    def saturate(self, it, formulas):
        work = []
        added = []
        for f in formulas:
            if isinstance(f, tuple):
                if f[1] <= self.DEPTH:
                    self.collect(it, f[0], work, f[1])
            else:
                self.collect(it, f, work, 0)
        while work:
            name, ch, depth = work.pop()
            rec = self.funcs[name]
            args = list(ch[:-1])
            t = z3.simplify(ch[-1])
            key = (name,) + tuple(a.get_id() for a in args) + (t.get_id(),)
            if key in it._rec_done:
                continue
            it._rec_done.add(key)
            it._rec_keep.extend(args + [t])
            new = list(rec.unfold(args, t))
            if depth < self.DEPTH:
                new += rec.unfold(args, t + 1)
            gkey = (name,) + tuple(a.get_id() for a in args)
            lst = it._rec_terms.setdefault(gkey, [])
            for u in lst:
                if rec.kind == "all":
                    new.append(z3.Implies(u <= t, z3.Implies(rec.f(*args, t), rec.f(*args, u))))
                    new.append(z3.Implies(t <= u, z3.Implies(rec.f(*args, u), rec.f(*args, t))))
                elif rec.kind == "count":
                    new.append(z3.Implies(u <= t, rec.f(*args, u) <= rec.f(*args, t)))
                    new.append(z3.Implies(t <= u, rec.f(*args, t) <= rec.f(*args, u)))
            lst.append(t)
            for f in new:
                it.S.add(f)
                added.append((f, depth + 1))
                if depth < self.DEPTH:
                    self.collect(it, f, work, depth + 1)
        return added

    def collect(self, it, f, work, depth):
        stack = [f]
        seen = it._rec_seen
        while stack:
            e = stack.pop()
            i = e.get_id()
            if i in seen:
                continue
            seen.add(i)
            it._rec_keep.append(e)
            if z3.is_quantifier(e):
                stack.append(e.body())
                continue
            if not z3.is_app(e):
                continue
            nm = e.decl().name()
            if nm in self.funcs and not _has_var(e):
                work.append((nm, e.children(), depth))
            stack.extend(e.children())

    def lemmas(self):
        """Induction steps of the antitonicity / monotonicity lemmas."""
        out = []
        for rec in self.funcs.values():
            args = [z3.Const(f"a{k}", rec.f.domain(k)) for k in range(rec.nargs)]
            q, u = z3.Ints("q u")
            if rec.kind == "all":
                hyp = z3.And(q >= 0, u <= q, z3.Implies(rec.f(*args, q), rec.f(*args, u)),
                             *rec.unfold(args, q + 1))
                out.append((f"{rec.name}_antitone_step",
                            z3.Implies(hyp, z3.Implies(rec.f(*args, q + 1), rec.f(*args, u)))))
            elif rec.kind == "count":
                hyp = z3.And(q >= 0, u <= q, rec.f(*args, u) <= rec.f(*args, q),
                             *rec.unfold(args, q + 1)[:2])
                out.append((f"{rec.name}_monotone_step",
                            z3.Implies(hyp, rec.f(*args, u) <= rec.f(*args, q + 1))))
        return out


def _has_var(e):
    stack = [e]
    seen = set()
    while stack:
        x = stack.pop()
        if z3.is_var(x):
            return True
        i = x.get_id()
        if i in seen:
            continue
        seen.add(i)
        if z3.is_app(x):
            stack.extend(x.children())
    return False
