"""Assumed contracts of Python built-ins and standard-library functions (trusted base).

Every model used in a run is recorded in World.trusted_used and listed in the evidence file.
The thorough tier cross-checks the models against CPython on sampled arguments
(pyvc/crosscheck.py); they are assumed, not proved.
"""
from __future__ import annotations

import ast
import enum
import re
import z3

from . import sym
from .sym import (VInt, VBool, VStr, VAtom, VConst, VTuple, VObj, VList, VDict, VFunc,
                  VOpaque, VDyn, VFloat, Unsupported, sand, sor, atom)
from .interp import VExc, ListObj, _src, _conc, _Raise


def install(w):
    B = w.builtins

    def use(name):
        w.trusted_used.add(name)

    # ------------------------------------------------------------------ len / min / max
    def b_len(it, f, args, kw, node):
        (v,) = args
        if isinstance(v, VStr):
            return VInt(v.length())
        if isinstance(v, VTuple):
            return VInt(len(v.items))
        if isinstance(v, VList):
            return VInt(it.st.lists[v.oid].len)
        if isinstance(v, VDict):
            if it.st.ghost.get(("absdict", v.oid)):
                n = it.fresh_int("dictlen")
                it.assume(n.t >= 0)
                return n
            return VInt(len(it.st.dicts[v.oid]))
        if isinstance(v, VConst) and hasattr(v.obj, "__len__"):
            return VInt(len(v.obj))
        r = w.len_ext(it, v, node)
        if r is not None:
            return r
        if it.st.spec and isinstance(v, (VOpaque, VAtom)):
            return it.fresh_int("undef")     # undefined operand inside a guarded clause: total
        raise Unsupported(f"len of {v!r}")
    B["bi:len"] = b_len

    def minmax(is_min):
        def h(it, f, args, kw, node):
            if len(args) == 1:
                v = args[0]
                if isinstance(v, VTuple):
                    args = v.items
                elif isinstance(v, VList) and it.st.lists[v.oid].items is not None:
                    args = it.st.lists[v.oid].items
                else:
                    r = w.minmax_ext(it, is_min, v, kw, node)
                    if r is not None:
                        return r
                    raise Unsupported("min/max of a symbolic collection")
                if not args:
                    it.throw(ValueError, node, "SAFE-Value")
            ts = [it.as_int(a, node) for a in args]
            r = ts[0]
            for t in ts[1:]:
                r = z3.If(t < r, t, r) if is_min else z3.If(t > r, t, r)
            return VInt(r)
        return h
    B["bi:min"] = minmax(True)
    B["bi:max"] = minmax(False)

    def b_ord(it, f, args, kw, node):
        (v,) = args
        if not isinstance(v, VStr):
            raise Unsupported(f"ord of {v!r}")
        use("ord(c): TypeError unless len(c) == 1, else the code point")
        it.guard(v.length() == 1, TypeError, node, "SAFE-Value")
        return VInt(v.char(0))
    B["bi:ord"] = b_ord

    def b_chr(it, f, args, kw, node):
        (v,) = args
        t = it.as_int(v, node)
        use("chr(i): ValueError unless 0 <= i <= 0x10FFFF, else the one-character string")
        it.guard(z3.And(0 <= t, t <= sym.MAXCP), ValueError, node, "SAFE-Value")
        arr = it.new_str_array("chr")
        it.assume(z3.Select(arr, 0) == t)
        return VStr(arr=arr, lo=z3.IntVal(0), hi=z3.IntVal(1))
    B["bi:chr"] = b_chr

    # ------------------------------------------------------------------ isinstance & co
    def isinstance_one(it, v, cls, node):
        if isinstance(cls, VTuple):
            return sor(*[isinstance_one(it, v, c, node) for c in cls.items])
        if isinstance(cls, VAtom):
            cls = VConst(sym.atom_obj(cls))
        if isinstance(cls, VFunc) and isinstance(cls.fn, type):
            cls = VConst(cls.fn)
        if not (isinstance(cls, VConst) and isinstance(cls.obj, type)):
            raise Unsupported(f"isinstance against {cls!r}")
        k = cls.obj
        if isinstance(v, VObj):
            if isinstance(v.cls, type):
                return z3.BoolVal(issubclass(v.cls, k))
            raise Unsupported("isinstance of a shape-only object")
        if isinstance(v, VStr):
            return z3.BoolVal(issubclass(str, k))
        if isinstance(v, VBool):
            return z3.BoolVal(issubclass(bool, k))
        if isinstance(v, VInt):
            return z3.BoolVal(issubclass(int, k))
        if isinstance(v, VFloat):
            return z3.BoolVal(issubclass(float, k))
        if isinstance(v, VTuple):
            return z3.BoolVal(issubclass(v.cls or tuple, k))
        if isinstance(v, VList):
            return z3.BoolVal(issubclass(list, k))
        if isinstance(v, VDict):
            return z3.BoolVal(issubclass(dict, k))
        if isinstance(v, VExc):
            if v.exact:
                return z3.BoolVal(issubclass(v.cls, k))
            if issubclass(v.cls, k):
                return z3.BoolVal(True)
            return z3.Bool(it.namer.fresh("isinst"))
        if isinstance(v, VAtom):
            try:
                o = sym.atom_obj(v)
                return z3.BoolVal(isinstance(o, k))
            except KeyError:
                yes = [c for c, o in enumerate(sym.ATOMS.objs) if isinstance(o, k)]
                return sor(*[v.t == c for c in yes])
        if isinstance(v, VFunc):
            return z3.BoolVal(False) if k not in (object,) else z3.BoolVal(True)
        if isinstance(v, VConst):
            return z3.BoolVal(isinstance(v.obj, k))
        if isinstance(v, VOpaque) and not hasattr(v, "seq"):
            return z3.Bool(it.namer.fresh("isinst"))   # nothing is known about the value
        r = w.isinstance_ext(it, v, k, node)
        if r is not None:
            return r
        raise Unsupported(f"isinstance({v!r}, {k.__name__})")

    def b_isinstance(it, f, args, kw, node):
        v, cls = args
        return VBool(isinstance_one(it, v, cls, node))
    B["bi:isinstance"] = b_isinstance
    w.isinstance_one = isinstance_one

    def b_callable(it, f, args, kw, node):
        (v,) = args
        if isinstance(v, VFunc):
            return VBool(True)
        if isinstance(v, (VInt, VStr, VBool, VTuple, VList, VDict)):
            return VBool(False)
        if isinstance(v, VAtom):
            try:
                return VBool(callable(sym.atom_obj(v)))
            except KeyError:
                pass
        return VBool(z3.Bool(it.namer.fresh("callable")))
    B["bi:callable"] = b_callable

    def b_id(it, f, args, kw, node):
        (v,) = args
        if isinstance(v, (VObj, VList, VDict)):
            t = z3.Int(f"id!{v.oid}")
            return VInt(t)
        if isinstance(v, VDyn):
            return VInt(z3.Function("id_of", sym.ValS, sym.I)(v.t))
        return it.fresh_int("id")
    B["bi:id"] = b_id

    def b_bool(it, f, args, kw, node):
        if not args:
            return VBool(False)
        return VBool(it.truth(args[0]))
    B["bi:bool"] = b_bool

    def b_str(it, f, args, kw, node):
        if not args:
            return VStr(lit="")
        (v,) = args
        if isinstance(v, VStr):
            return v
        it.str_of(v, node)
        r = w.str_ext(it, v, node)
        if r is not None:
            return r
        return it.fresh_str("str")
    B["bi:str"] = b_str
    B["bi:repr"] = lambda it, f, args, kw, node: (it.str_of(args[0], node), it.fresh_str("repr"))[1]

    def b_tuple(it, f, args, kw, node):
        if not args:
            return VTuple([])
        (v,) = args
        if isinstance(v, VTuple):
            return VTuple(list(v.items))
        if isinstance(v, VList):
            L = it.st.lists[v.oid]
            if L.items is not None:
                return VTuple(list(L.items))
        r = w.tuple_ext(it, v, node)
        if r is not None:
            return r
        raise Unsupported(f"tuple({v!r})")
    B["bi:tuple"] = b_tuple

    def b_list(it, f, args, kw, node):
        if not args:
            return it.new_list([])
        (v,) = args
        if isinstance(v, VTuple):
            return it.new_list(list(v.items))
        if isinstance(v, VList):
            L = it.st.lists[v.oid]
            oid = it.fresh_oid()
            it.st.lists[oid] = L.copy()
            return VList(oid)
        if isinstance(v, VDict):
            return it.new_list([VStr(lit=k) for k in it.st.dicts[v.oid]])
        r = w.list_ext(it, v, node)
        if r is not None:
            return r
        raise Unsupported(f"list({v!r})")
    B["bi:list"] = b_list

    def b_range(it, f, args, kw, node):
        ts = [it.as_int(a, node) for a in args]
        if len(ts) == 1:
            lo, hi, step = z3.IntVal(0), ts[0], 1
        elif len(ts) == 2:
            lo, hi, step = ts[0], ts[1], 1
        else:
            lo, hi = ts[0], ts[1]
            step = _conc(ts[2])
            if step <= 0:
                raise Unsupported("range with non-positive step")
        n = z3.If(hi > lo, (hi - lo + step - 1) / step, 0)
        v = VOpaque("range")
        from .world import Seq
        v.seq = Seq(length=z3.simplify(n), item=lambda i: VInt(lo + i * step))
        return v
    B["bi:range"] = b_range

    def b_enumerate(it, f, args, kw, node):
        seq = w.as_sequence(it, args[0], node)
        start = it.as_int(args[1], node) if len(args) > 1 else z3.IntVal(0)
        from .world import Seq
        v = VOpaque("enumerate")
        if seq.concrete is not None:
            v.seq = Seq(concrete=[VTuple([VInt(start + k), x]) for k, x in enumerate(seq.concrete)])
        else:
            v.seq = Seq(length=seq.length, item=lambda i: VTuple([VInt(start + i), seq.item(i)]))
        return v
    B["bi:enumerate"] = b_enumerate

    def b_getattr(it, f, args, kw, node):
        obj, name = args[0], args[1]
        if not (isinstance(name, VStr) and name.lit is not None):
            r = w.getattr_dyn(it, obj, name, args[2] if len(args) > 2 else None, node)
            if r is not None:
                return r
            raise Unsupported("getattr with a non-literal name")
        if len(args) == 2:
            if isinstance(obj, VObj) and isinstance(obj.cls, type) and not it.st.spec:
                # dispatch by computed name: a name that is neither a class attribute, nor an
                # annotated / declared instance field of the class does not exist
                cls = obj.cls
                known = any(name.lit in k.__dict__ or name.lit in getattr(k, "__annotations__", {})
                            for k in cls.__mro__)
                if not known and w.field_spec(cls, name.lit) is None \
                        and (obj.oid, name.lit) not in it.st.heap:
                    it.note_safe("SAFE-Attr", _src(node), getattr(node, "lineno", 0))
                    it.throw(AttributeError, node, "SAFE-Attr")
            return it.getattr(obj, name.lit, node)
        try:
            return it.getattr(obj, name.lit, node)
        except _Raise as r:
            if issubclass(r.exc.cls, AttributeError):
                return args[2]
            raise
        except Unsupported:
            r = w.getattr_dyn(it, obj, name, args[2], node)
            if r is not None:
                return r
            raise
    B["bi:getattr"] = b_getattr

    def b_hasattr(it, f, args, kw, node):
        obj, name = args
        r = w.hasattr_ext(it, obj, name, node)
        if r is not None:
            return r
        raise Unsupported("hasattr")
    B["bi:hasattr"] = b_hasattr

    def b_int(it, f, args, kw, node):
        if not args:
            return VInt(0)
        v = args[0]
        if isinstance(v, VInt):
            return v
        if isinstance(v, VBool):
            return VInt(z3.If(v.t, 1, 0))
        r = w.int_ext(it, v, args[1:], node)
        if r is not None:
            return r
        raise Unsupported(f"int({v!r})")
    B["bi:int"] = b_int

    def b_float(it, f, args, kw, node):
        r = w.float_ext(it, args[0], node)
        if r is not None:
            return r
        raise Unsupported(f"float({args[0]!r})")
    B["bi:float"] = b_float

    def b_divmod(it, f, args, kw, node):
        x, y = it.as_int(args[0], node), it.as_int(args[1], node)
        it.guard(y != 0, ZeroDivisionError, node, "SAFE-Div")
        from .interp import _floordiv, _pymod
        return VTuple([VInt(_floordiv(x, y)), VInt(_pymod(x, y))])
    B["bi:divmod"] = b_divmod

    def b_type(it, f, args, kw, node):
        (v,) = args
        if isinstance(v, VObj) and isinstance(v.cls, type):
            return atom(v.cls)
        if isinstance(v, VExc) and v.exact:
            return atom(v.cls)
        raise Unsupported(f"type({v!r})")
    B["bi:type"] = b_type

    def b_allany(is_all):
        def h(it, f, args, kw, node):
            (v,) = args
            if isinstance(v, VBool):      # produced by comps for a generator argument
                return v
            if isinstance(v, VList) and it.st.lists[v.oid].items is None:
                L = it.st.lists[v.oid]
                if L.arrays is not None and L.spec == "bool":
                    j = z3.Int(it.namer.fresh("j"))
                    rng = z3.And(0 <= j, j < L.len)
                    a0 = L.arrays[0]
                    if is_all:
                        return VBool(z3.ForAll([j], z3.Implies(rng, z3.Select(a0, j))))
                    return VBool(z3.Exists([j], z3.And(rng, z3.Select(a0, j))))
                return it.fresh_bool("allany")
            items = it.iter_concrete(v, node)
            ts = [it.truth(x) for x in items]
            return VBool(sand(*ts) if is_all else sor(*ts))
        return h
    B["bi:all"] = b_allany(True)
    B["bi:any"] = b_allany(False)

    # ------------------------------------------------------------------ str methods
    def char_pred(name, pred_ascii):
        def h(it, f, args, kw, node):
            s = f.recv
            n = s.length()
            if isinstance(n, z3.ExprRef):
                ns = z3.simplify(n)
            use(f"str.{name}() on a string of length <= 1 (a side condition checks the length)")
            if not it.st.spec:
                it.oblige("SAFE-Model", f"{_src(node)}: operand has length <= 1", n <= 1,
                          getattr(node, "lineno", 0))
            c = s.char(0)
            return VBool(pred_ascii(n, c))
        return h

    uni = {k: z3.Function(f"uni_{k}", sym.I, sym.B) for k in ("digit", "alpha", "alnum")}

    B["str.isascii"] = char_pred("isascii", lambda n, c: sor(n == 0, c < 128))
    B["str.isdigit"] = char_pred("isdigit", lambda n, c: sand(n == 1, z3.If(
        c < 128, z3.And(48 <= c, c <= 57), uni["digit"](c))))
    _alpha = lambda c: sor(z3.And(65 <= c, c <= 90), z3.And(97 <= c, c <= 122))
    B["str.isalpha"] = char_pred("isalpha", lambda n, c: sand(n == 1, z3.If(
        c < 128, _alpha(c), uni["alpha"](c))))
    B["str.isalnum"] = char_pred("isalnum", lambda n, c: sand(n == 1, z3.If(
        c < 128, sor(_alpha(c), z3.And(48 <= c, c <= 57)), uni["alnum"](c))))

    def s_startswith(it, f, args, kw, node):
        s, p = f.recv, args[0]
        if isinstance(p, VStr) and p.lit is not None:
            k = len(p.lit)
            return VBool(sand(s.length() >= k, *[s.char(j) == ord(p.lit[j]) for j in range(k)]))
        raise Unsupported("startswith with a symbolic prefix")
    B["str.startswith"] = s_startswith

    def s_endswith(it, f, args, kw, node):
        s, p = f.recv, args[0]
        if isinstance(p, VStr) and p.lit is not None:
            k = len(p.lit)
            n = s.length()
            return VBool(sand(n >= k, *[s.char(n - k + j) == ord(p.lit[j]) for j in range(k)]))
        raise Unsupported("endswith with a symbolic suffix")
    B["str.endswith"] = s_endswith

    def s_fresh(label, keep_len=False):
        def h(it, f, args, kw, node):
            use(f"str.{label}: result is some string" + (" of the same length" if keep_len else ""))
            r = it.fresh_str(label)
            if keep_len:
                it.assume(r.hi == f.recv.length())
            return r
        return h
    for nm in ("replace", "strip", "lstrip", "rstrip", "format", "translate", "capitalize",
               "title", "expandtabs"):
        B["str." + nm] = s_fresh(nm)

    def s_replace(it, f, args, kw, node):
        use("str.replace: result is some string; with literal arguments its length is bounded by "
            "the length of the receiver (from below when the replacement is not shorter, from "
            "above when it is not longer)")
        r = it.fresh_str("replace")
        if len(args) == 2 and all(isinstance(a, VStr) and a.lit is not None for a in args) \
                and len(args[0].lit) > 0:
            if len(args[1].lit) >= len(args[0].lit):
                it.assume(r.hi >= f.recv.length())
            if len(args[1].lit) <= len(args[0].lit):
                it.assume(r.hi <= f.recv.length())
        return r
    B["str.replace"] = s_replace
    for nm in ("lower", "upper"):
        B["str." + nm] = s_fresh(nm, keep_len=False)

    def s_splitlines(it, f, args, kw, node):
        use("str.splitlines(): a list of strings whose number is NOT tied to the GraphQL line "
            "terminators (it also splits on VT, FF, FS, GS, RS, NEL, LS, PS and drops a trailing "
            "empty line): length unconstrained")
        from . import codec
        oid = it.fresh_oid()
        n = z3.Int(it.namer.fresh("splitlines_len"))
        it.assume(n >= 0)
        it.st.lists[oid] = ListObj(n, None, "str", codec.fresh_arrays(it, "str", "sl"))
        return VList(oid)
    B["str.splitlines"] = s_splitlines

    def s_rjust(it, f, args, kw, node):
        s = f.recv
        wdt = it.as_int(args[0], node)
        use("str.rjust(w): length max(len, w); the original string is a suffix")
        r = it.fresh_str("rjust")
        n = s.length()
        it.assume(r.hi == z3.If(wdt > n, wdt, n))
        return r
    B["str.rjust"] = s_rjust
    B["str.ljust"] = s_rjust

    def s_join(it, f, args, kw, node):
        sep = f.recv
        (v,) = args
        use("str.join: result is a string (contents not modelled unless pieces are tracked)")
        r = it.fresh_str("join")
        pieces = w.join_pieces(it, sep, v, r, node)
        items = None
        if isinstance(v, VTuple):
            items = v.items
        elif isinstance(v, VList) and it.st.lists[v.oid].items is not None:
            items = it.st.lists[v.oid].items
        if items is not None and all(isinstance(x, VStr) for x in items) and isinstance(sep, VStr):
            # concrete pieces: the length is the sum of the pieces plus the separators
            n = len(items)
            total = sep.length() * max(n - 1, 0)
            for x in items:
                total = total + x.length()
            it.assume(r.hi == z3.simplify(total))
        return r
    B["str.join"] = s_join

    def s_encode(it, f, args, kw, node):
        s = f.recv
        enc = [a.lit if isinstance(a, VStr) else None for a in args]
        v = VOpaque("bytes")
        v.encoded = (s, tuple(enc))
        return v
    B["str.encode"] = s_encode

    def o_decode(it, f, args, kw, node):
        b = f.recv
        s, enc = b.encoded
        dec = args[0].lit if args and isinstance(args[0], VStr) else None
        if enc[:2] != ("utf-16", "surrogatepass") or dec != "utf-16":
            raise Unsupported("encode/decode other than utf-16 surrogatepass -> utf-16")
        use("s.encode('utf-16','surrogatepass').decode('utf-16') for len(s) <= 2: "
            "a high+low surrogate pair becomes one supplementary code point, text without "
            "surrogates is unchanged, a lone surrogate raises UnicodeDecodeError")
        n = s.length()
        it.oblige("SAFE-Model", f"{_src(node)}: operand has length <= 2", n <= 2,
                  getattr(node, "lineno", 0))
        hi_s = lambda c: z3.And(0xD800 <= c, c <= 0xDBFF)
        lo_s = lambda c: z3.And(0xDC00 <= c, c <= 0xDFFF)
        sur = lambda c: z3.And(0xD800 <= c, c <= 0xDFFF)
        c0, c1 = s.char(0), s.char(1)
        pair = z3.And(n == 2, hi_s(c0), lo_s(c1))
        clean = z3.And(z3.Implies(n >= 1, z3.Not(sur(c0))), z3.Implies(n >= 2, z3.Not(sur(c1))))
        it.note_safe("SAFE-Decode", _src(node), getattr(node, "lineno", 0))
        if it.decide(pair):
            arr = it.new_str_array("dec")
            it.assume(z3.Select(arr, 0) == 0x10000 + (c0 - 0xD800) * 1024 + (c1 - 0xDC00))
            return VStr(arr=arr, lo=z3.IntVal(0), hi=z3.IntVal(1))
        if it.decide(clean):
            return s
        it.throw(UnicodeDecodeError, node, "SAFE-Decode")
    B["opaque.decode"] = o_decode

    # ------------------------------------------------------------------ list methods
    def l_append(it, f, args, kw, node):
        L = it.st.lists[f.recv.oid]
        mm = getattr(it, "mm_lists", {}).get(f.recv.oid)
        if mm is not None:
            mm.touched = True
            if getattr(mm, "ghost_name", None):
                it.ghost_bump(mm.ghost_name)   # appends to the output multimap are counted
        if mm is not None and getattr(mm, "elem_spec", None) is None:
            x = args[0]
            if isinstance(x, VAtom):
                try:
                    o = sym.atom_obj(x)
                    if isinstance(o, enum.Enum):
                        mm.elem_spec = "atom:" + type(o).__module__ + "." + type(o).__qualname__
                except KeyError:
                    pass
        if L.items is not None:
            L.items.append(args[0])
            L.len = z3.IntVal(len(L.items))
        else:
            w.list_append_sym(it, f.recv, L, args[0])
            L.len = L.len + 1
        return atom(None)
    B["list.append"] = l_append

    def l_pop(it, f, args, kw, node):
        L = it.st.lists[f.recv.oid]
        if args:
            i = it.as_int(args[0], node)
            it.guard(z3.And(-L.len <= i, i < L.len), IndexError, node, "SAFE-Index")
        else:
            i = None
            it.guard(L.len > 0, IndexError, node, "SAFE-Index")
        if L.items is not None and (i is None or z3.is_int_value(z3.simplify(i))):
            k = -1 if i is None else z3.simplify(i).as_long()
            r = L.items.pop(k)
            L.len = z3.IntVal(len(L.items))
            return r
        r = w.list_item(it, f.recv, L, L.len - 1 if i is None else i, node)
        L.items = None
        L.len = L.len - 1
        return r
    B["list.pop"] = l_pop

    def l_extend(it, f, args, kw, node):
        L = it.st.lists[f.recv.oid]
        v = args[0]
        if L.items is not None:
            try:
                items = it.iter_concrete(v, node)
                L.items.extend(items)
                L.len = z3.IntVal(len(L.items))
                return atom(None)
            except Unsupported:
                pass
        n = it.as_int(b_len(it, f, [v], {}, node), node)
        L.items = None
        L.len = L.len + n
        return atom(None)
    B["list.extend"] = l_extend

    # ------------------------------------------------------------------ dict (concrete tables)
    def d_get(it, f, args, kw, node):
        dv = f.recv
        key = args[0]
        default = args[1] if len(args) > 1 else atom(None)
        if isinstance(dv, VConst):
            use("dict.get on a module-level table: lookup by == on the keys of the real table")
            return it.const_dict_lookup(dv, key, node, default=default, raising=False)
        if isinstance(dv, VDict):
            if it.st.ghost.get(("absdict", dv.oid)):
                if it.choose(2, "abstract dict get") == 1:
                    return default
                return it.fresh_dyn("dictval")
            d = it.st.dicts[dv.oid]
            if isinstance(key, VStr) and key.lit is not None:
                return d.get(key.lit, default)
            if not d:
                return default
        raise Unsupported("dict.get")
    B["dict.get"] = d_get
    B["mappingproxy.get"] = d_get

    def d_items(it, f, args, kw, node):
        dv = f.recv
        if isinstance(dv, VConst):
            return VTuple([VTuple([it.lift(k), it.lift(v)]) for k, v in dv.obj.items()])
        d = it.st.dicts[dv.oid]
        return VTuple([VTuple([VStr(lit=k), v]) for k, v in d.items()])
    B["dict.items"] = d_items
    B["dict.values"] = lambda it, f, a, k, n: VTuple(
        [it.lift(v) for v in f.recv.obj.values()] if isinstance(f.recv, VConst)
        else list(it.st.dicts[f.recv.oid].values()))
    B["dict.keys"] = lambda it, f, a, k, n: VTuple(
        [it.lift(v) for v in f.recv.obj] if isinstance(f.recv, VConst)
        else [VStr(lit=x) for x in it.st.dicts[f.recv.oid]])

    # ------------------------------------------------------------------ lambdas / closures
    def b_lambda(it, f, args, kw, node):
        lam, env = f.recv.obj
        saved = it.st.env
        new = dict(env)
        params = [p.arg for p in lam.args.args]
        for p, a in zip(params, args):
            new[p] = a
        it.st.env = new
        try:
            return it.ev(lam.body)
        finally:
            it.st.env = saved
    B["lambda"] = b_lambda

    def b_closure(it, f, args, kw, node):
        fnode, env = f.recv.obj
        from .interp import _Return
        saved = it.st.env
        new = dict(env)
        params = [p.arg for p in fnode.args.args]
        defaults = [None] * (len(params) - len(fnode.args.defaults)) + list(fnode.args.defaults)
        for i, p in enumerate(params):
            if i < len(args):
                new[p] = args[i]
            elif p in kw:
                new[p] = kw[p]
            elif defaults[i] is not None:
                new[p] = it.ev(defaults[i])
        it.st.env = new
        it.depth += 1
        try:
            it.exec_block(fnode.body)
            return atom(None)
        except _Return as r:
            return r.val
        finally:
            it.depth -= 1
            # closures that append to an enclosing list mutate shared heap objects, which
            # live in it.st and are therefore visible to the caller
            it.st.env = saved
    B["closure"] = b_closure

    # ------------------------------------------------------------------ abstract sets / multimaps
    def b_set(it, f, args, kw, node):
        use("set of hashable values: membership is abstracted (any answer), add/update are no-ops")
        v = VOpaque("set")
        v.abstract_set = True
        return v
    B["bi:set"] = b_set
    B["bi:frozenset"] = b_set

    def b_defaultdict(it, f, args, kw, node):
        use("collections.defaultdict(list): abstracted multimap (items are lists of unknown length)")
        v = VOpaque("defaultdict")
        v.abstract_mm = True
        return v
    B["py:defaultdict"] = b_defaultdict

    prev_construct = w.construct_ext

    def construct_ext(it, cls, args, kwargs, node):
        import collections
        if cls is collections.defaultdict:
            return b_defaultdict(it, None, args, kwargs, node)
        if cls in (set, frozenset):
            return b_set(it, None, args, kwargs, node)
        return prev_construct(it, cls, args, kwargs, node)
    w.construct_ext = construct_ext

    def amm_items(it, f, args, kw, node):
        from .world import Seq
        n = it.fresh_int("mm_len")
        it.assume(n.t >= 0)
        v = VOpaque("mm_items")
        mm = f.recv
        if getattr(mm, "elem_spec", None) is None and not getattr(mm, "touched", False):
            it.assume(n.t == 0)   # nothing was ever stored
        v.seq = Seq(length=n.t, item=lambda i: VTuple([
            VOpaque("mm_key"), it.fresh_list(getattr(mm, "elem_spec", None), "mm_val")]))
        return v
    B["amm.items"] = amm_items

    def set_method(it, f, args, kw, node):
        return atom(None)
    for nm in ("add", "update", "discard", "clear"):
        B["aset." + nm] = set_method

    # ------------------------------------------------------------------ havocked callbacks (A5)
    def b_callback(it, f, args, kw, node):
        """A user supplied callback: counted in a ghost counter; returns anything or raises."""
        spec = f.recv.obj
        use("user callbacks (on_error, ...) are havocked: any result or any Exception (A5)")
        it.ghost_bump(spec[1])
        if it.choose(2, "callback outcome") == 1:
            # ("callback", ghost, Class): a callback that raises only Class (the caller's side of this
            # restriction is a RELY-RAISES obligation on the closure it passes)
            cls = w.resolve_class(spec[2]) if len(spec) > 2 else Exception
            raise _Raise(VExc(cls, origin=f"callback {f.name}", okind="RAISES", exact=False,
                              lineno=getattr(node, "lineno", 0)))
        return VOpaque("callback_result")
    B["callback"] = b_callback

    B["async_def"] = lambda it, f, args, kw, node: VOpaque("awaitable")

    # ------------------------------------------------------------------ typing.cast
    B["py:cast"] = lambda it, f, args, kw, node: args[1]

    # defaults for extension hooks
    for hook in ("len_ext", "isinstance_ext", "str_ext", "tuple_ext", "list_ext",
                 "hasattr_ext", "int_ext", "float_ext"):
        if not hasattr(w, hook):
            setattr(w, hook, lambda *a, **k: None)
    if not hasattr(w, "getattr_dyn"):
        w.getattr_dyn = lambda *a, **k: None
    if not hasattr(w, "join_pieces"):
        w.join_pieces = lambda *a, **k: None

