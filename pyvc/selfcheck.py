"""Setup-time canaries of the engine: a true contract must verify, a false one must be refuted."""
import sys


def main():
    from pyvc.world import get_world
    from pyvc.verify import verify_function
    from pyvc.runner import build_world
    w = build_world()
    M = "graphql.language.lexer"
    saved = w.contracts.get(f"{M}.read_hex_digit")
    w.contract(f"{M}.read_hex_digit", override=True, params={"char": "char"}, returns="int",
               ensures=["-1 <= result <= 15"])
    r1 = verify_function(w, f"{M}:read_hex_digit", w.contracts[f"{M}.read_hex_digit"])
    w.contract(f"{M}.read_hex_digit", override=True, params={"char": "char"}, returns="int",
               ensures=["result >= 0"])
    r2 = verify_function(w, f"{M}:read_hex_digit", w.contracts[f"{M}.read_hex_digit"])
    if saved is not None:
        w.contracts[f"{M}.read_hex_digit"] = saved
    ok1 = r1["status"] == "ok" and all(o["status"] == "discharged" for o in r1["obligations"])
    ok2 = any(o["status"] == "refuted" for o in r2["obligations"])
    if not (ok1 and ok2):
        print("pyvc selfcheck FAILED", r1, r2)
        return 1
    print("pyvc selfcheck ok")
    return 0


if __name__ == "__main__":
    sys.exit(main())
