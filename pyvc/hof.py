"""Higher-order values and a few standard-library constructors (trusted models, DESIGN.md 2.5):

* functools.partial(f, a, ...)   -> the callable f with the leading arguments fixed
* Enum classes called by value   -> the member with that value, else ValueError
* `x in mappingproxy`            -> membership in the concrete key set
* object.__setattr__(o, n, v)    -> attribute store (frozen dataclass instances: untracked)
* parameter spec "pfn"           -> a parser function of `self` (see contracts/parser.py): calling it
                                    follows the generic parser-function contract; at call sites the
                                    argument is checked to be a method under that contract
* ("union", a, b, ...)           -> a value of any of the given specs (forks)
"""
from __future__ import annotations

import enum
import functools
import types
import z3

from .sym import (VStr, VAtom, VConst, VFunc, VObj, VOpaque, VBool, Unsupported, sor, atom)
from .interp import _src
from .sym import atom_obj as sym_atom_obj, as_view as sym_as_view


def install(w):
    w.arg_checks = {}        # type spec -> callable(it, value, env, ref) -> (ok, why)
    w.pfn_contract = None    # set by contracts/parser.py

    prev_construct = w.construct_ext

    def construct_ext(it, cls, args, kwargs, node):
        import operator
        if cls is operator.attrgetter:
            if len(args) != 1 or getattr(args[0], "lit", None) is None or kwargs:
                raise Unsupported("attrgetter other than attrgetter('<literal dotted name>')")
            w.trusted_used.add("operator.attrgetter('a.b'): calling it reads x.a.b")
            g = VFunc(None, builtin="attrgetter", name="attrgetter", recv=VConst(args[0].lit.split(".")))
            return g
        if cls is functools.partial:
            if not args or not isinstance(args[0], VFunc) or kwargs:
                raise Unsupported("functools.partial of a non-function or with keywords")
            f = args[0]
            g = VFunc(f.fn, recv=f.recv, name=f.name, builtin=f.builtin)
            g.pre = list(getattr(f, "pre", ())) + list(args[1:])
            w.trusted_used.add("functools.partial(f, *a): calling it calls f(*a, *args)")
            return g
        if isinstance(cls, type) and issubclass(cls, enum.Enum) and len(args) == 1 and not kwargs:
            w.trusted_used.add("Enum(value): the member with that value, ValueError when there is none")
            x = args[0]
            text = _src(node)
            it.note_safe("SAFE-Enum", text, getattr(node, "lineno", 0))
            for m in cls:
                try:
                    c = it.equal(x, it.lift(m.value), node)
                except Unsupported:
                    raise
                if it.decide(c):
                    return atom(m)
            it.throw(ValueError, node, "SAFE-Enum", text)
        return prev_construct(it, cls, args, kwargs, node)
    w.construct_ext = construct_ext

    prev_hasattr = w.hasattr_ext

    def hasattr_ext(it, obj, name, node):
        """hasattr(EnumClass, <symbolic name>): true for every member name and for the other
        attributes of the class - which of the non-member names those are is left open."""
        o = None
        if isinstance(obj, VAtom):
            try:
                o = sym_atom_obj(obj)
            except KeyError:
                o = None
        elif isinstance(obj, VConst):
            o = obj.obj
        if isinstance(o, type) and issubclass(o, enum.Enum) and isinstance(name, VStr) and name.lit is None:
            w.trusted_used.add("hasattr(EnumClass, name): true for member names; for other names unknown")
            member = sor(*[it.equal(name, VStr(lit=nm), node) for nm in o.__members__])
            other = z3.Bool(it.namer.fresh("has_other_attr"))
            return VBool(z3.Or(member, other))
        return prev_hasattr(it, obj, name, node)
    w.hasattr_ext = hasattr_ext

    def f_enum_member_name(it, clsname, name):
        cls = w.resolve_class(clsname.lit)
        return VBool(sor(*[it.equal(name, VStr(lit=nm), None) for nm in cls.__members__]))
    w.spec_funcs["enum_member_name"] = f_enum_member_name

    prev_contains = w.contains_ext

    def contains_ext(it, container, item, node):
        if isinstance(container, VConst) and isinstance(container.obj, types.MappingProxyType):
            return sor(*[it.equal(item, it.lift(k), node) for k in container.obj])
        return prev_contains(it, container, item, node)
    w.contains_ext = contains_ext

    prev_index = w.index_ext

    def index_ext(it, v, idx, node):
        if isinstance(v, VAtom):
            try:
                o = sym_atom_obj(v)
            except KeyError:
                o = None
            if isinstance(o, type) and issubclass(o, enum.Enum):
                w.trusted_used.add("EnumClass[name]: the member of that name, KeyError when there is none")
                text = _src(node)
                it.note_safe("SAFE-Key", text, getattr(node, "lineno", 0))
                for nm, m in o.__members__.items():
                    if it.decide(it.equal(idx, VStr(lit=nm), node)):
                        return atom(m)
                it.throw(KeyError, node, "SAFE-Key", text)
        return prev_index(it, v, idx, node)
    w.index_ext = index_ext

    prev_call = w.call_ext

    def call_ext(it, f, args, kwargs, node):
        if isinstance(f, VConst) and f.obj is object.__setattr__ and len(args) == 3:
            o, name, val = args
            if not (isinstance(name, VStr) and name.lit is not None):
                raise Unsupported("object.__setattr__ with a computed name")
            if isinstance(o, VObj):
                it.setattr(o, name.lit, val, node)
            else:
                w.trusted_used.add("object.__setattr__ on a dataclass instance: total (fields of "
                                   "dataclass instances are not tracked)")
            return atom(None)
        return prev_call(it, f, args, kwargs, node)
    w.call_ext = call_ext

    prev_fresh = w.fresh_ext

    def fresh_ext(it, spec, label):
        if spec == "pfn":
            return VFunc(None, builtin="pfn", name=label)
        if isinstance(spec, tuple) and spec and spec[0] == "fixed":
            # ("fixed", n, elem spec): a list literal of n values of the element spec
            return it.new_list([it.fresh(spec[2], f"{label}{k}") for k in range(spec[1])])
        if isinstance(spec, tuple) and spec and spec[0] == "union":
            k = it.choose(len(spec) - 1, "union " + label)
            return it.fresh(spec[1 + k], label)
        return prev_fresh(it, spec, label) if prev_fresh else None
    w.fresh_ext = fresh_ext

    # ---- map(ord, s), list(<that>), [x] * n --------------------------------------------------
    def b_map(it, f, args, kw, node):
        from .world import Seq
        from .sym import VInt
        fn, seq_v = args[0], args[1]
        if not (isinstance(fn, VFunc) and fn.builtin == "bi:ord" and isinstance(seq_v, VStr)) \
                or len(args) != 2:
            raise Unsupported("map() other than map(ord, <str>)")
        w.trusted_used.add("map(ord, s): the code points of s, in order")
        vv = sym_as_view(seq_v)
        v = VOpaque("map")
        v.seq = Seq(length=vv.length(), item=lambda i: VInt(z3.Select(vv.arr, vv.lo + i)))
        v.int_array = (vv.arr, vv.lo)
        return v
    w.builtins["bi:map"] = b_map

    prev_list = w.list_ext

    def list_ext(it, v, node):
        if isinstance(v, VOpaque) and hasattr(v, "int_array"):
            from .interp import ListObj
            from .sym import VList
            arr, lo = v.int_array
            j = z3.Int(it.namer.fresh("j"))
            oid = it.fresh_oid()
            it.st.lists[oid] = ListObj(v.seq.length, None, "int",
                                       [z3.Lambda([j], z3.Select(arr, lo + j))])
            return VList(oid)
        return prev_list(it, v, node)
    w.list_ext = list_ext

    prev_binop = w.binop_ext

    def binop_ext(it, op, a, b, node):
        import ast as _ast
        from .interp import ListObj
        from .sym import VList, VInt, I
        if isinstance(op, _ast.Mult) and isinstance(a, VList) and isinstance(b, VInt):
            L = it.st.lists[a.oid]
            if L.items is not None and len(L.items) == 1 and isinstance(L.items[0], VInt):
                w.trusted_used.add("[x] * n: a new list of max(n, 0) copies of x")
                oid = it.fresh_oid()
                n = z3.If(b.t > 0, b.t, z3.IntVal(0))
                it.st.lists[oid] = ListObj(z3.simplify(n), None, "int", [z3.K(I, L.items[0].t)])
                return VList(oid)
        return prev_binop(it, op, a, b, node)
    w.binop_ext = binop_ext

    # ---- getattr(obj, f"prefix{name}", None) on an object of an open class (any subclass) ----------
    import ast as _ast
    from .sym import ValS, I as _I, ArrS as _ArrS, VDyn as _VDyn, VTuple as _VTuple
    VATTR = z3.Function("vattr", _I, _I, _ArrS, _I, ValS)

    def vattr_term(it, obj, prefix, suffix):
        if isinstance(obj, VObj):
            oid = z3.IntVal(obj.oid)
        else:
            raise Unsupported("vattr of a non-object")
        if suffix is None:
            arr, n = z3.K(_I, z3.IntVal(0)), z3.IntVal(0)
        else:
            vv = sym_as_view(suffix)
            if not z3.eq(z3.simplify(vv.lo), z3.IntVal(0)):
                raise Unsupported("vattr with a string slice")
            arr, n = vv.arr, vv.hi
        from .sym import ATOMS
        return _VDyn(VATTR(oid, z3.IntVal(ATOMS.code("attrprefix:" + prefix)), arr, n))

    prev_getattr_dyn = w.getattr_dyn

    def getattr_dyn(it, obj, name, default, node):
        if isinstance(obj, VObj) and isinstance(node, _ast.Call) and len(node.args) == 3 \
                and isinstance(default, VAtom) and z3.eq(z3.simplify(default.t), z3.IntVal(0)):
            nm = node.args[1]
            w.trusted_used.add("getattr(obj, name, None) on an object of an open class: a function "
                               "of (object, name); a missing attribute and None are not told apart")
            if isinstance(nm, _ast.JoinedStr) and len(nm.values) == 2 \
                    and isinstance(nm.values[0], _ast.Constant) \
                    and isinstance(nm.values[1], _ast.FormattedValue) \
                    and nm.values[1].format_spec is None and nm.values[1].conversion == -1:
                suffix = it.ev(nm.values[1].value)
                if isinstance(suffix, VStr):
                    return vattr_term(it, obj, nm.values[0].value, suffix)
            if isinstance(nm, _ast.Constant) and isinstance(nm.value, str):
                return vattr_term(it, obj, nm.value, None)
        return prev_getattr_dyn(it, obj, name, default, node)
    w.getattr_dyn = getattr_dyn

    def f_vattr(it, obj, prefix, suffix):
        if not (isinstance(prefix, VStr) and prefix.lit is not None):
            raise Unsupported("vattr: literal prefix expected")
        if isinstance(suffix, VStr) and suffix.lit == "":
            suffix = None
        return vattr_term(it, obj, prefix.lit, suffix)
    w.spec_funcs["vattr"] = f_vattr
    w.spec_funcs["ite_val"] = lambda it, c, a, b: _VDyn(z3.If(
        it.truth(c), w.to_dyn(it, a).t, w.to_dyn(it, b).t))

    # ---- ("absmap", value spec): a dict whose contents are not tracked ------------------------------
    prev_fresh2 = w.fresh_ext

    def fresh_ext2(it, spec, label):
        if isinstance(spec, tuple) and spec and spec[0] == "absmap":
            v = VOpaque(label)
            v.absmap = spec[1]
            return v
        if spec == "aset":
            # a set of hashable values whose contents are not tracked (membership: any answer)
            v = VOpaque(label)
            v.abstract_set = True
            return v
        return prev_fresh2(it, spec, label) if prev_fresh2 else None
    w.fresh_ext = fresh_ext2

    prev_getattr_abs = w.getattr_ext

    def getattr_abs(it, v, attr, node):
        if isinstance(v, VOpaque) and hasattr(v, "absmap") and attr == "get":
            return VFunc(None, recv=v, builtin="absmap.get", name="get")
        return prev_getattr_abs(it, v, attr, node)
    w.getattr_ext = getattr_abs

    def absmap_get(it, f, args, kw, node):
        """cache.get(key[, default]): the default (None) or some value of the declared kind"""
        w.trusted_used.add("a cache dict whose contents are not tracked: get() gives the default "
                           "or some value of the declared kind")
        if it.choose(2, "absmap get") == 1:
            return args[1] if len(args) > 1 else atom(None)
        return it.fresh(f.recv.absmap, "cached")
    w.builtins["absmap.get"] = absmap_get

    prev_index2 = w.index_ext

    def index_ext2(it, v, idx, node):
        if isinstance(v, VOpaque) and hasattr(v, "absmap"):
            w.trusted_used.add("a cache dict whose contents are not tracked: a lookup raises KeyError "
                               "or gives some value of the declared kind")
            text = _src(node)
            it.note_safe("SAFE-Key", text, getattr(node, "lineno", 0))
            if it.choose(2, "absmap lookup") == 1:
                it.throw(KeyError, node, "SAFE-Key", text)
            return it.fresh(v.absmap, "cached")
        return prev_index2(it, v, idx, node)
    w.index_ext = index_ext2

    prev_setitem = w.setitem_ext

    def setitem_ext(it, obj, key, v, node):
        if isinstance(obj, VOpaque) and hasattr(obj, "absmap"):
            return True
        r = prev_setitem(it, obj, key, v, node)
        if not r and isinstance(obj, _VDyn):
            w.trusted_used.add("item store into a value whose contents are not tracked: no effect "
                               "on the model, assumed not to raise")
            return True
        return r
    w.setitem_ext = setitem_ext

    # ---- with contextlib.suppress(E, ...): body --------------------------------------------------
    import contextlib
    from .interp import _Raise as _RaiseSig
    prev_with = w.with_ext

    def with_ext(it, node):
        if len(node.items) == 1 and node.items[0].optional_vars is None:
            cm = it.ev(node.items[0].context_expr)
            if isinstance(cm, VConst) and isinstance(cm.obj, contextlib.suppress):
                w.trusted_used.add("with contextlib.suppress(E): the body; an exception of class E "
                                   "raised in it is swallowed")
                excs = tuple(cm.obj._exceptions)
                try:
                    it.exec_block(node.body)
                except _RaiseSig as r:
                    if issubclass(r.exc.cls, excs):
                        return True
                    if not r.exc.exact and any(issubclass(e, r.exc.cls) for e in excs):
                        if it.choose(2, "suppressed subclass") == 0:
                            return True
                    raise
                return True
        return prev_with(it, node)
    w.with_ext = with_ext

    def b_zip(it, f, args, kw, node):
        """zip(a, b[, strict=...]) of two sequences."""
        from .world import Seq
        if len(args) != 2:
            raise Unsupported("zip of other than two sequences")
        sa = w.as_sequence(it, args[0], node)
        sb = w.as_sequence(it, args[1], node)
        strict = kw.get("strict")
        is_strict = isinstance(strict, VBool) and z3.is_true(z3.simplify(strict.t))
        w.trusted_used.add("zip(a, b): pairs up to the shorter length; strict=True raises "
                           "ValueError when the lengths differ")

        def length(sq):
            return z3.IntVal(len(sq.concrete)) if sq.concrete is not None else sq.length

        def item(sq, i):
            if sq.concrete is not None:
                raise Unsupported("zip of a literal sequence with a symbolic one")
            return sq.item(i)
        la, lb = length(sa), length(sb)
        if is_strict:
            it.guard(la == lb, ValueError, node, "SAFE-Value")
        v = VOpaque("zip")
        if sa.concrete is not None and sb.concrete is not None:
            n = min(len(sa.concrete), len(sb.concrete))
            v.seq = Seq(concrete=[_VTuple([sa.concrete[k], sb.concrete[k]]) for k in range(n)])
        else:
            n = z3.If(la <= lb, la, lb)
            v.seq = Seq(length=z3.simplify(n), item=lambda i: _VTuple([item(sa, i), item(sb, i)]))
        return v
    w.builtins["bi:zip"] = b_zip

    def p_match(it, f, args, kw, node):
        """compiled_pattern.match(s): only that it yields a match object or None (which one is left
        open); TypeError for an argument that is not a string."""
        from .sym import VDyn
        x = args[0]
        if isinstance(x, VDyn):
            from . import sym as _sym
            it.guard(_sym.tag(x.t) == _sym.TAGS["str"], TypeError, node, "SAFE-Type")
        elif not isinstance(x, VStr):
            raise Unsupported(f"Pattern.match({x!r})")
        w.trusted_used.add("re.Pattern.match(str): a match object or None; which of the two is not modelled")
        if it.choose(2, "regex match") == 0:
            return atom(None)
        return VOpaque("match")
    w.builtins.setdefault("Pattern.match", p_match)
    w.builtins.setdefault("Pattern.fullmatch", p_match)
    w.builtins.setdefault("Pattern.search", p_match)

    def b_attrgetter(it, f, args, kw, node):
        v = args[0]
        for a in f.recv.obj:
            v = it.getattr(v, a, node)
        return v
    w.builtins["attrgetter"] = b_attrgetter

    def b_sum(it, f, args, kw, node):
        """sum(<comprehension of bools/ints>): only its range is modelled."""
        from .sym import VList, VInt
        if len(args) != 1 or not isinstance(args[0], VList):
            raise Unsupported("sum() other than sum(<generator expression>)")
        L = it.st.lists[args[0].oid]
        if L.spec != "bool":
            raise Unsupported("sum() of a comprehension whose elements are not bools")
        w.trusted_used.add("sum(<bools>): an integer between 0 and the number of elements")
        r = it.fresh_int("sum")
        it.assume(z3.And(r.t >= 0, r.t <= L.len))
        return r
    w.builtins["bi:sum"] = b_sum

    def b_next(it, f, args, kw, node):
        """next(<comprehension result>, default): the first element, or the default."""
        from .sym import VList
        if len(args) not in (1, 2) or not isinstance(args[0], VList):
            raise Unsupported("next() other than next(<generator expression>[, default])")
        w.trusted_used.add("next(gen[, default]): the first element the generator yields, else default / StopIteration")
        L = it.st.lists[args[0].oid]
        if it.decide(L.len > 0):
            return it.index(args[0], __import__("pyvc.sym", fromlist=["VInt"]).VInt(0), node)
        if len(args) == 1:
            it.throw(StopIteration, node, "SAFE-Stop", _src(node)[:60])
        return args[1]
    w.builtins["bi:next"] = b_next

    def b_exc_info(it, f, args, kw, node):
        w.trusted_used.add("sys.exc_info(): a 3-tuple of unknown values")
        return _VTuple([it.fresh_dyn("exc_type"), it.fresh_dyn("exc_value"), it.fresh_dyn("exc_tb")])
    w.builtins["py:exc_info"] = b_exc_info

    def int_bit_length(it, f, args, kw, node):
        from .sym import VInt
        n = it.as_int(f.recv, node)
        w.trusted_used.add("int.bit_length(): r with (r <= k) == (|n| < 2**k) for k = 0..128")
        r = it.fresh_int("bitlen")
        a = z3.If(n < 0, -n, n)
        it.assume(z3.And(r.t >= 0, *[(r.t <= k) == (a < 2 ** k) for k in range(0, 129)]))
        return r
    w.builtins["int.bit_length"] = int_bit_length

    def b_pfn(it, f, args, kw, node):
        if args or kw or getattr(f, "pre", None):
            raise Unsupported("parser function called with arguments")
        if w.pfn_contract is None:
            raise Unsupported("no parser-function contract registered")
        ref, c = w.pfn_contract
        me = it.st.env.get("self")
        if me is None:
            raise Unsupported("parser function called outside a method")
        return it.call_by_contract(ref, c, [me], {}, node)
    w.builtins["pfn"] = b_pfn
