"""World: source loading from the current working tree, contract registry, shapes,
built-in models (the trusted base, DESIGN.md 2.5) and theory hooks."""
from __future__ import annotations

import ast
import builtins as _bi
import enum
import importlib
import inspect as _inspect
import os
import re
import sys
import types
import z3

from . import sym
from .sym import (VInt, VBool, VStr, VAtom, VConst, VTuple, VObj, VList, VDict, VFunc,
                  VOpaque, VDyn, VFloat, Unsupported, sand, sor, atom)
from .interp import _Raise, _PathEnd, VExc, ListObj, _src, _conc, StarArgs

REPO = os.environ.get("VERIF_REPO", "/repo")
SRC = os.path.join(REPO, "src")


class FnRef:
    def __init__(self, qual, node, globals_, cls=None, fn=None, file=None):
        self.qual = qual
        self.node = node
        self.globals = globals_
        self.cls = cls
        self.fn = fn
        self.file = file
        self.short = qual.split(".", 2)[-1] if qual.startswith("graphql.") else qual
        parts = qual.split(".")
        self.short = ".".join(parts[-2:]) if cls else parts[-1]


class Contract:
    def __init__(self, target, requires=(), ensures=(), raises=(), on_raise=None, modifies=None,
                 returns=None, loops=None, params=None, max_paths=4000, pure_spec=None,
                 no_return=False, props=(), ghost_asserts=None, notes="", assumed=False,
                 locals=None, ghost_modifies=(), decreases=None, loop_all=None, closure=None,
                 waive=(), havoc_stmts=(), dyn_call_ghost=None, ghost_calls=(), exit_post=(),
                 valid_schema=False, raise_post=(), rely=None, call_pre=None, start_at=None, coroutine=False, budget=1,
                 assumed_ensures=(), class_invariants=(), decreases_when=None, never_raises=(), modifies_maps=False,
                 field_invariants=None):
        self.target = target
        self.requires = list(requires)
        self.ensures = list(ensures)
        self.raises = list(raises)
        self.on_raise = on_raise or {}
        self.modifies = modifies
        self.returns = returns
        self.loops = loops or {}
        self.params = params or {}
        self.max_paths = max_paths
        self.pure_spec = pure_spec
        self.no_return = no_return
        self.props = set(props)
        self.ghost_asserts = ghost_asserts or {}
        self.notes = notes
        self.assumed = assumed   # contract used at call sites but not verified (trusted)
        self.locals = locals or {}   # type specs of local variables (lists) where needed
        self.ghost_modifies = list(ghost_modifies)
        self.decreases = decreases   # integer measure over the parameters (recursion variant)
        self.loop_all = list(loop_all or [])   # invariants of every loop without its own entry
        self.closure = closure or {}     # free variables of a nested function: name -> type spec
        self.waive = list(waive)         # obligation texts explicitly left unverified (reported)
        self.havoc_stmts = list(havoc_stmts)   # statements (normalised source) replaced by havoc
        self.dyn_call_ghost = dyn_call_ghost   # (ghost name, predicate name) counted per user call
        self.ghost_calls = list(ghost_calls)   # ghost counters of calls to this function
        self.exit_post = list(exit_post)       # clauses over the locals, checked at every return
        self.valid_schema = valid_schema       # assume schema validity facts (A7) in this proof
        self.field_invariants = field_invariants or {}   # "Class.attr" -> clauses over `v` (the
            # object read from that field) and the function's names: assumed when the field is first
            # read (an invariant of the linked structure; its writers must re-establish it)
        self.never_raises = list(never_raises)   # classes that must not escape even though a blanket
                                                 # `raises Exception` (user callables) is declared
        self.modifies_maps = modifies_maps   # the callee stores into dicts of the map heap
        self.decreases_when = decreases_when   # clause over the caller's entry parameters: the
            # recursion variant is claimed only for recursive calls made when it holds
        self.class_invariants = list(class_invariants)   # invariants of objects reachable from the
            # arguments: assumed on entry AND at call sites (established by the constructor, kept
            # by every writer - the writers are checked separately); reported as an assumption
        self.assumed_ensures = list(assumed_ensures)   # clauses assumed at call sites but NOT proved
                                                       # for the function (e.g. "the result is a
                                                       # function of the arguments"); reported
        self.budget = budget   # multiplier of the solver resource budget for this function
        self.coroutine = coroutine   # an `async def` verified as one activation: every `await` is a
                                     # point where any value or any Exception comes back and every
                                     # object not created by the activation may have changed
        self.start_at = start_at   # source prefix of the first top-level statement that is executed:
                                   # the statements before it are cut (their assigned names and
                                   # stored attributes become arbitrary values; reported)
        self.call_pre = call_pre or {}   # "callee#k" (k-th call of callee in source order, from 1)
                                         # -> clauses over the caller's locals and arg_<param>
        self.rely = rely or {}   # callee short name -> {"closure": local def, "inv": [clauses]}:
                                 # the callee may invoke that local closure any number of times;
                                 # inv is proved inductive for the closure body and assumed after
        self.raise_post = list(raise_post)     # clauses over the locals, checked at every `raise`
                                               # statement of the function itself (not of callees)


class Seq:
    """Abstract view of an iterable for 'for' loops."""

    def __init__(self, length=None, item=None, concrete=None):
        self.length = length
        self.item = item
        self.concrete = concrete


class World:
    def __init__(self):
        self.contracts = {}      # qual -> Contract
        self.shapes = {}         # class name -> {attr: typespec}
        self.modules = {}        # module name -> (module obj, ast, source)
        self.fnrefs = {}
        self.spec_funcs = {}     # name -> callable(interp, args) -> V
        self.spec_consts = {}
        self.theories = []
        self.builtins = {}
        self.atom_domains = {}
        self.clause_cache = {}
        self.trusted_used = set()
        self.havoc_callables = {}
        self.model_prefs_fns = []
        self.const_overrides = {}    # "module.NAME" -> type spec (module constant treated as havoc)
        from . import builtins_lib, maps, refs, hof
        builtins_lib.install(self)
        maps.install(self)
        refs.install(self)
        hof.install(self)
        from . import namesets
        namesets.install(self)

    # ---- sources ---------------------------------------------------------------------
    def load_module(self, modname):
        if modname in self.modules:
            return self.modules[modname]
        if SRC not in sys.path:
            sys.path.insert(0, SRC)
        mod = importlib.import_module(modname)
        path = getattr(mod, "__file__", None)
        tree = None
        src = None
        if path and path.endswith(".py") and os.path.exists(path):
            src = open(path, encoding="utf-8").read()
            tree = ast.parse(src)
        self.modules[modname] = (mod, tree, src)
        return self.modules[modname]

    def find_def(self, tree, qualname):
        parts = qualname.split(".")
        scope = tree.body
        node = None
        for p in parts:
            if p == "<locals>":
                continue
            node = None
            for n in scope:
                if isinstance(n, (ast.FunctionDef, ast.ClassDef, ast.AsyncFunctionDef)) \
                        and n.name == p:
                    node = n
            if node is None:
                # definitions nested in if/try blocks
                for n in ast.walk(ast.Module(body=scope, type_ignores=[])):
                    if isinstance(n, (ast.FunctionDef, ast.AsyncFunctionDef, ast.ClassDef)) \
                            and n.name == p:
                        node = n
                        break
            if node is None:
                return None
            scope = node.body
        return node

    def fnref(self, modname, qualname):
        key = f"{modname}.{qualname}"
        if key in self.fnrefs:
            return self.fnrefs[key]
        mod, tree, src = self.load_module(modname)
        node = self.find_def(tree, qualname) if tree is not None else None
        cls = None
        obj = mod
        parts = qualname.split(".")
        try:
            for p in parts:
                if isinstance(obj, type):
                    cls = obj
                    obj = obj.__dict__[p]
                    if isinstance(obj, (staticmethod, classmethod)):
                        obj = obj.__func__
                    elif isinstance(obj, property):
                        obj = obj.fget
                    elif type(obj).__name__ == "cached_property":
                        obj = obj.func
                else:
                    obj = getattr(obj, p)
        except (AttributeError, KeyError):
            obj = None
        if node is not None and not isinstance(node, (ast.FunctionDef, ast.AsyncFunctionDef)):
            node = None
        ref = FnRef(key, node, vars(mod), cls, obj, getattr(mod, "__file__", None))
        self.fnrefs[key] = ref
        return ref

    def fnref_of(self, fn):
        fn = _inspect.unwrap(fn)
        return self.fnref(fn.__module__, fn.__qualname__)

    def resolve_class(self, name):
        """'graphql.language.ast.Token' or a short name registered in class_aliases."""
        if isinstance(name, type):
            return name
        if name in self.class_aliases:
            return self.class_aliases[name]
        if hasattr(_bi, name):
            return getattr(_bi, name)
        modname, _, cname = name.rpartition(".")
        mod, _, _ = self.load_module(modname)
        return getattr(mod, cname)

    class_aliases = {}

    def alias(self, short, full):
        modname, _, cname = full.rpartition(".")
        mod, _, _ = self.load_module(modname)
        self.class_aliases[short] = getattr(mod, cname)
        return self.class_aliases[short]

    # ---- contracts -------------------------------------------------------------------------
    def contract(self, target, override=False, **kw):
        if target in self.contracts and not override:
            raise RuntimeError(f"contract for {target} registered twice (pass override=True)")
        c = Contract(target, **kw)
        self.contracts[target] = c
        return c

    def contract_for(self, ref):
        return self.contracts.get(ref.qual)

    def loop_contracts_for(self, ref):
        return self.contracts.get(ref.qual) or self.contracts.get("loops:" + ref.qual)

    def loop_ordinal(self, ref, node):
        if not hasattr(ref, "_loops"):
            ref._loops = [n for n in ast.walk(ref.node) if isinstance(n, (ast.While, ast.For))]
            ref._loops.sort(key=lambda n: (n.lineno, n.col_offset))
        for k, n in enumerate(ref._loops):
            if n is node or (n.lineno == node.lineno and n.col_offset == node.col_offset):
                return k + 1
        return None

    def parse_clause(self, text):
        if text not in self.clause_cache:
            self.clause_cache[text] = ast.parse(text.strip(), mode="eval").body
        return self.clause_cache[text]

    def define(self, name, params, expr):
        """A named predicate/function of the contract language (expanded at each use)."""
        pnames = [x.strip() for x in params.split(",") if x.strip()]
        tree = ast.parse(expr.strip(), mode="eval").body

        def f(it, *args):
            if len(args) != len(pnames):
                raise Unsupported(f"{name}: expected {len(pnames)} arguments")
            saved = it.st.env
            it.st.env = dict(saved)
            it.st.env.update(zip(pnames, args))
            try:
                return it.ev(tree)
            finally:
                it.st.env = saved
        self.spec_funcs[name] = f

    # ---- shapes ------------------------------------------------------------------------------
    def shape(self, clsname, **fields):
        self.shapes.setdefault(clsname, {}).update(fields)

    def shape_of(self, cls):
        out = {}
        if isinstance(cls, type):
            for k in reversed(cls.__mro__):
                out.update(self.shapes.get(k.__name__, {}))
        else:
            out.update(self.shapes.get(cls, {}))
        return out

    def field_spec(self, cls, attr):
        return self.shape_of(cls).get(attr)

    def atom_domain(self, name):
        if name not in self.atom_domains:
            cls = self.resolve_class(name)
            self.atom_domains[name] = [sym.ATOMS.code(m) for m in cls]
        return self.atom_domains[name]

    def atom_candidates(self, it, v):
        """Codes a symbolic atom may take (by asking the solver over the known table)."""
        out = []
        for code in range(len(sym.ATOMS.objs)):
            if it.feasible([v.t == code]):
                out.append(code)
        return out

    def is_atom_object(self, obj):
        from graphql.pyutils import Undefined
        return obj is Undefined or isinstance(obj, type)

    # ---- theories ---------------------------------------------------------------------------
    def theory_reset(self, it):
        for t in self.theories:
            t.reset(it)

    def theory_saturate(self, it, formulas, transient=False):
        if it.silent:
            return
        pending = list(formulas)
        for _round in range(4):
            new = []
            for t in self.theories:
                r = t.saturate(it, pending)
                if r:
                    new.extend(r)
            if not new:
                break
            pending = new

    def theory_snapshot(self, it):
        return [t.snapshot(it) for t in self.theories]

    def theory_restore(self, it, snap):
        for t, s in zip(self.theories, snap):
            t.restore(it, s)

    # ---- model -> concrete --------------------------------------------------------------------
    def concretize(self, model, v, it):
        ev = lambda t: model.eval(t, model_completion=True)
        if isinstance(v, VInt):
            return ev(v.t).as_long()
        if isinstance(v, VBool):
            return z3.is_true(ev(v.t))
        if isinstance(v, VStr):
            if v.lit is not None:
                return v.lit
            lo = ev(v.lo).as_long()
            hi = ev(v.hi).as_long()
            chars = []
            for k in range(lo, min(hi, lo + 200)):
                cp = ev(z3.Select(v.arr, k)).as_long()
                chars.append(chr(cp) if 0 <= cp <= 0x10FFFF else "?")
            return "".join(chars)
        if isinstance(v, VAtom):
            code = ev(v.t).as_long()
            if 0 <= code < len(sym.ATOMS.objs):
                return {"__atom__": sym.ATOMS._key(sym.ATOMS.obj(code))}
            return {"__atom__": "None"}
        if isinstance(v, VTuple):
            return [self.concretize(model, x, it) for x in v.items]
        if isinstance(v, VObj):
            out = {"__class__": getattr(v.cls, "__name__", str(v.cls))}
            for (oid, attr), val in list(it.st.old.heap.items() if it.st.old else it.st.heap.items()):
                if oid == v.oid:
                    try:
                        out[attr] = self.concretize(model, val, it)
                    except Exception:
                        out[attr] = "<?>"
            return out
        if isinstance(v, VList):
            L = it.st.lists.get(v.oid)
            return {"__list_len__": ev(L.len).as_long()} if L else "<list>"
        if isinstance(v, VDyn):
            return self.concretize_dyn(model, v, it)
        if isinstance(v, VFloat):
            return self.concretize_float(model, v)
        return repr(v)

    def concretize_dyn(self, model, v, it):
        ev = lambda t: model.eval(t, model_completion=True)
        names = {c: n for n, c in sym.TAGS.items()}
        tg = names.get(ev(sym.tag(v.t)).as_long(), "other")
        out = {"tag": tg}
        if tg == "bool":
            out["bool"] = z3.is_true(ev(sym.as_bool(v.t)))
        elif tg == "int":
            out["int"] = ev(sym.as_int(v.t)).as_long()
        elif tg == "float":
            c = ev(sym.as_fcls(v.t)).as_long()
            if c == 0:
                fv = ev(sym.as_fval(v.t))
                try:
                    out["float"] = [fv.numerator_as_long(), fv.denominator_as_long()]
                except Exception:
                    out["float"] = [0, 1]
            else:
                out["float"] = {1: "nan", 2: "inf", 3: "-inf"}[c]
        elif tg == "str":
            n = ev(sym.as_slen(v.t)).as_long()
            arr = sym.as_sarr(v.t)
            chars = []
            for k in range(min(n, 200)):
                cp = ev(z3.Select(arr, k)).as_long()
                chars.append(chr(cp) if 0 <= cp <= 0x10FFFF and not 0xD800 <= cp <= 0xDFFF else "?")
            out["str"] = "".join(chars)
        elif tg in ("list", "tuple", "dict", "set"):
            out["len"] = ev(sym.v_len(v.t)).as_long()
        elif tg == "other":
            try:
                from theories.val import ISINST
                inst = []
                for code, o in enumerate(sym.ATOMS.objs):
                    if isinstance(o, type) and z3.is_true(ev(ISINST(v.t, code))):
                        inst.append(sym.ATOMS._key(o))
                out["instance_of"] = inst
            except Exception:
                pass
        return {"__val__": out}

    def concretize_float(self, model, v):
        c = model.eval(v.cls, model_completion=True).as_long()
        if c == 1:
            return "nan"
        if c == 2:
            return "inf"
        if c == 3:
            return "-inf"
        return str(model.eval(v.val, model_completion=True))

    # ---- extension hooks (default: not handled) ---------------------------------------------------
    def dyn_truth(self, it, v):
        raise Unsupported("truthiness of a dynamic value")

    def dyn_identical(self, it, a, b, node):
        raise Unsupported("identity involving a dynamic value")

    def dyn_equal(self, it, a, b, node):
        raise Unsupported("equality involving a dynamic value")

    def dyn_str(self, it, v, node):
        self.trusted_used.add("str()/format of an arbitrary value is assumed total (A5)")

    def object_str(self, it, v, node):
        cls = v.cls
        if isinstance(cls, type):
            for name in ("__format__", "__str__", "__repr__"):
                for k in cls.__mro__:
                    if k is object:
                        break
                    if name in k.__dict__:
                        self.trusted_used.add(
                            f"{k.__name__}.{name} used in an f-string is assumed total")
                        return
        return

    def lift_float(self, it, x):
        from . import floats
        return floats.lift(it, x)

    def fresh_float(self, it, label):
        from . import floats
        return floats.fresh(it, label)

    def float_neg(self, it, v):
        from . import floats
        return floats.neg(it, v)

    def float_cmp(self, it, op, a, b, node):
        from . import floats
        return floats.cmp(it, op, a, b, node)

    def binop_ext(self, it, op, a, b, node):
        return None

    def compare_ext(self, it, op, a, b, node):
        if isinstance(a, VFloat) or isinstance(b, VFloat):
            return self.float_cmp(it, op, a, b, node)
        return None

    def equal_ext(self, it, a, b, node):
        return None

    def contains_ext(self, it, container, item, node):
        return None

    def getattr_ext(self, it, v, attr, node):
        return None

    def setattr_ext(self, it, v, attr, val, node):
        return False

    def slice_ext(self, it, v, lo, hi, node):
        return None

    def index_ext(self, it, v, idx, node):
        return None

    def setitem_ext(self, it, obj, key, v, node):
        return False

    def unpack_ext(self, it, v, n, node):
        return None

    def call_ext(self, it, f, args, kwargs, node):
        return None

    def construct_ext(self, it, cls, args, kwargs, node):
        return None

    def raise_ext(self, it, v, node):
        return None

    def with_ext(self, it, node):
        return False

    def import_from(self, it, node, ref):
        modname = node.module or ""
        if node.level:
            base = ref.qual.rsplit(".", 1)[0] if ref.cls is None else ref.qual.rsplit(".", 2)[0]
            pkg = ref.fn.__module__.split(".")
            pkg = pkg[: len(pkg) - node.level]
            modname = ".".join(pkg + ([modname] if modname else []))
        mod, _, _ = self.load_module(modname)
        for a in node.names:
            it.st.env[a.asname or a.name] = it.lift(getattr(mod, a.name), a.name)

    def construct_exception(self, it, cls, args, kwargs, node):
        """Exception constructors: use the contract of cls.__init__ when there is one."""
        init = next((k for k in cls.__mro__ if "__init__" in k.__dict__), None)
        exc = VExc(cls, origin="", lineno=getattr(node, "lineno", 0))
        if init is not None and init.__module__.startswith("graphql") \
                and isinstance(init.__dict__["__init__"], types.FunctionType):
            ref = self.fnref_of(init.__dict__["__init__"])
            c = self.contract_for(ref)
            if c is not None:
                it.call_by_contract(ref, c, [exc] + list(args), kwargs, node)
            else:
                self.trusted_used.add(f"{cls.__name__}(...) constructor assumed total "
                                      f"(no contract on {ref.short})")
        for i, a in enumerate(args):
            exc.fields[f"arg{i}"] = a
        return exc

    def str_concat(self, it, a, b):
        s = it.fresh_str("cat")
        la, lb = z3.simplify(a.length()), z3.simplify(b.length())
        it.assume(s.hi == la + lb)
        if z3.is_int_value(la) and z3.is_int_value(lb) and la.as_long() + lb.as_long() <= 8:
            na, nb = la.as_long(), lb.as_long()
            for k in range(na):
                it.assume(z3.Select(s.arr, k) == a.char(k))
            for k in range(nb):
                it.assume(z3.Select(s.arr, na + k) == b.char(k))
        return s

    def bit_or(self, it, x, y, node):
        from . import bits
        return bits.bit_or(it, x, y, node)

    def bit_and(self, it, x, y, node):
        raise Unsupported("bitwise and")

    def comprehension(self, it, node):
        from . import comps
        return comps.comprehension(it, node)

    def list_item(self, it, v, L, j, node):
        from . import codec
        if L.items is not None:
            # concrete items with a symbolic index: fork over the positions
            for k, x in enumerate(L.items):
                if it.st.spec:
                    break
                if it.decide(j == k):
                    return x
            if not it.st.spec:
                raise _PathEnd()
            raise Unsupported("symbolic index into a literal list inside a specification")
        if L.arrays is None:
            if L.spec is None:
                return VOpaque("item")
            L.arrays = codec.fresh_arrays(it, L.spec, "lst")
        v2, _ = codec.decode(it, L.spec, [z3.Select(a, j) for a in L.arrays])
        return it.resolve(v2)

    def list_append_sym(self, it, lv, L, x):
        from . import codec
        if L.arrays is None and L.spec is None:
            return
        if L.arrays is None:
            L.arrays = codec.fresh_arrays(it, L.spec, "lst")
        try:
            terms = codec.encode(it, L.spec, x)
        except Unsupported:
            L.arrays = None
            L.spec = None
            return
        L.arrays = [z3.Store(a, L.len, t) for a, t in zip(L.arrays, terms)]

    def minmax_ext(self, it, is_min, v, kw, node):
        """min/max of a symbolic list of ints: ValueError when empty, else a bound of every item."""
        if not isinstance(v, VList):
            return None
        L = it.st.lists[v.oid]
        it.guard(L.len > 0, ValueError, node, "SAFE-Value")
        r = it.fresh_int("max" if not is_min else "min")
        if L.arrays is not None and L.spec in ("int", "nat"):
            j = z3.Int(it.namer.fresh("j"))
            a = L.arrays[0]
            body = (r.t <= z3.Select(a, j)) if is_min else (z3.Select(a, j) <= r.t)
            it.sadd(z3.ForAll([j], z3.Implies(z3.And(0 <= j, j < L.len), body)))
            k = z3.Int(it.namer.fresh("arg"))
            it.sadd(z3.And(0 <= k, k < L.len, z3.Select(a, k) == r.t))
        return r

    def to_dyn(self, it, v):
        if isinstance(v, VDyn):
            return v
        raise Unsupported(f"cannot box {v!r} as a dynamic value")

    def callee_modifies(self, it, calls):
        """Attribute names possibly modified by the calls in a loop body."""
        attrs = set()
        for c in calls:
            f = c.func
            name = f.attr if isinstance(f, ast.Attribute) else (f.id if isinstance(f, ast.Name) else None)
            if name is None:
                continue
            for q, con in self.contracts.items():
                if q.endswith("." + name) and con.modifies:
                    attrs |= {m.split(".")[-1] for m in con.modifies}
            if isinstance(f, ast.Name):
                # a local bound to a function value (bound method, functools.partial, parameter)
                v = it.st.env.get(f.id)
                if isinstance(v, VFunc):
                    con = None
                    if v.builtin == "pfn" and self.pfn_contract is not None:
                        con = self.pfn_contract[1]
                    elif isinstance(v.fn, types.FunctionType):
                        con = self.contracts.get(self.fnref_of(v.fn).qual)
                    if con is not None and con.modifies:
                        attrs |= {m.split(".")[-1] for m in con.modifies}
        return attrs

    @staticmethod
    def _callable_object_name(it, f):
        """`obj(...)` where obj is a symbolic object: the call goes to Class.__call__."""
        if isinstance(f, ast.Name):
            v = it.st.env.get(f.id)
            if isinstance(v, VObj) and isinstance(v.cls, type):
                return f"{v.cls.__name__}.__call__"
        return None

    def callee_ghost_modifies(self, it, calls):
        out = set()
        for c in calls:
            f = c.func
            name = f.attr if isinstance(f, ast.Attribute) else (f.id if isinstance(f, ast.Name) else None)
            name = self._callable_object_name(it, f) or name
            if name is None:
                continue
            v = it.st.env.get(name)
            if isinstance(v, VFunc) and v.builtin == "callback":
                out.add(v.recv.obj[1])
            for q, con in self.contracts.items():
                if q.endswith("." + name) and (con.ghost_modifies or con.ghost_calls):
                    out |= set(con.ghost_modifies) | set(con.ghost_calls)
        return out

    def callee_modifies_maps(self, it, calls):
        for c in calls:
            f = c.func
            name = f.attr if isinstance(f, ast.Attribute) else (f.id if isinstance(f, ast.Name) else None)
            name = self._callable_object_name(it, f) or name
            if name is None:
                continue
            for q, con in self.contracts.items():
                if q.endswith("." + name) and getattr(con, "modifies_maps", False):
                    return True
        return False

    def mutated_lists(self, it, calls):
        out = set()
        st = it.st
        for c in calls:
            f = c.func
            if isinstance(f, ast.Attribute) and f.attr in ("append", "pop", "extend", "insert",
                                                           "clear", "remove", "sort", "reverse"):
                if isinstance(f.value, ast.Name) and isinstance(st.env.get(f.value.id), VList):
                    out.add(st.env[f.value.id].oid)
                elif isinstance(f.value, ast.Attribute):
                    for key, val in st.heap.items():
                        if key[1] == f.value.attr and isinstance(val, VList):
                            out.add(val.oid)
            elif isinstance(f, ast.Name):
                v = st.env.get(f.id)
                if isinstance(v, VFunc) and v.builtin and v.builtin.startswith("list.") \
                        and isinstance(v.recv, VList):
                    out.add(v.recv.oid)
        return out

    def as_sequence(self, it, v, node):
        if isinstance(v, VTuple):
            return Seq(concrete=list(v.items))
        if isinstance(v, VStr):
            if v.lit is not None and len(v.lit) <= 8:
                return Seq(concrete=[VStr(lit=c) for c in v.lit])
            vv = sym.as_view(v)
            return Seq(length=vv.length(),
                       item=lambda i: VStr(arr=vv.arr, lo=z3.simplify(vv.lo + i),
                                           hi=z3.simplify(vv.lo + i + 1)))
        if isinstance(v, VList):
            L = it.st.lists[v.oid]
            if L.items is not None and len(L.items) <= 6:
                return Seq(concrete=list(L.items))
            return Seq(length=L.len, item=lambda i: self.list_item(it, v, L, i, node))
        if isinstance(v, VConst) and isinstance(v.obj, (tuple, list, frozenset)) and len(v.obj) <= 8:
            return Seq(concrete=[it.lift(o) for o in v.obj])
        if isinstance(v, VConst) and isinstance(v.obj, type) and issubclass(v.obj, enum.Enum):
            return Seq(concrete=[it.lift(o) for o in v.obj])
        if isinstance(v, VAtom):
            try:
                o = sym.atom_obj(v)
            except KeyError:
                o = None
            if isinstance(o, type) and issubclass(o, enum.Enum):
                return Seq(concrete=[it.lift(m) for m in o])
        if isinstance(v, VOpaque) and getattr(v, "seq", None) is not None:
            return v.seq
        r = self.as_sequence_ext(it, v, node)
        if r is not None:
            return r
        raise Unsupported(f"iteration over {v!r}")

    def as_sequence_ext(self, it, v, node):
        return None

    def call_builtin(self, it, f, args, kwargs, node):
        name = f.builtin
        h = self.builtins.get(name)
        if h is None and name and name.startswith("py:"):
            h = self.builtins.get(name)
        if h is None:
            raise Unsupported(f"no model for builtin {name}: {_src(node)}")
        return h(it, f, args, kwargs, node)


WORLD = None


def get_world():
    global WORLD
    if WORLD is None:
        WORLD = World()
    return WORLD
