"""Symbolic dictionaries (heap of maps in z3).

A dict object is an integer identity `id`; the contents of all dicts live in two state arrays
  mdom : id -> key -> Bool      (key present)
  mval : id -> key -> Int       (value: a bool as 0/1, an int, or the id of a nested dict)
Keys are integers: either real ints (id(x)) or strings abstracted to a totally ordered set (the
code under contract only uses == and < on them).  New dicts take ids from a ghost counter
`mnext`, so a fresh dict is different from every dict reachable before (ids < mnext).
Map specs:  ("map", value_spec)  with value_spec in {"bool", "int", ("map", ...)}.
"""
import z3

from . import sym
from .sym import V, VInt, VBool, VAtom, VFunc, VStr, Unsupported, atom

MS = z3.ArraySort(sym.I, sym.I)
MDS = z3.ArraySort(sym.I, sym.B)


class VMap(V):
    kind = "map"

    def __init__(self, ident, spec):
        self.id = ident      # z3 Int
        self.spec = spec     # ("map", value_spec)

    def __repr__(self):
        return f"VMap({self.id})"


def state(it):
    st = it.st
    if getattr(st, "mdom", None) is None:
        st.mdom = z3.Array("mdom0", sym.I, MDS)
        st.mval = z3.Array("mval0", sym.I, MS)
        st.mnext = z3.Int("mnext0")
        it.assume(st.mnext >= 0)
    return st


def enc(it, vspec, v):
    if vspec == "bool":
        if isinstance(v, VBool):
            return z3.If(v.t, 1, 0)
        raise Unsupported(f"map value {v!r} is not a bool")
    if vspec == "int":
        return it.as_int(v, None)
    if isinstance(vspec, tuple) and vspec[0] == "map":
        if isinstance(v, VMap):
            return v.id
        raise Unsupported(f"map value {v!r} is not a dict")
    if vspec == "dyn":
        # any value, boxed: an injection of dynamic values into the integers (its inverse is
        # stated for the value stored)
        d = it.world.to_dyn(it, v)
        i = DYN2INT(d.t)
        it.sadd(INT2DYN(i) == d.t)
        return i
    raise Unsupported(f"map value spec {vspec}")


def dec(it, vspec, t):
    if vspec == "bool":
        return VBool(t != 0)
    if vspec == "int":
        return VInt(t)
    if isinstance(vspec, tuple) and vspec[0] == "map":
        return VMap(t, vspec)
    if vspec == "dyn":
        from .sym import VDyn
        d = VDyn(INT2DYN(t))
        if hasattr(it.world, "dyn_wf"):
            it.world.dyn_wf(it, d)
        return d
    raise Unsupported(f"map value spec {vspec}")


STRKEY = z3.Function("str_key", sym.ArrS, sym.I, sym.I)
DYN2INT = z3.Function("dyn2int", sym.ValS, sym.I)
INT2DYN = z3.Function("int2dyn", sym.I, sym.ValS)


def key_of(it, k):
    if isinstance(k, VInt):
        return k.t
    if isinstance(k, VStr):
        # a string key is abstracted to an integer id that is a function of the string term; two
        # terms may or may not denote equal strings, so their ids may or may not coincide (sound)
        v = sym.as_view(k)
        if z3.eq(z3.simplify(v.lo), z3.IntVal(0)):
            return STRKEY(v.arr, v.hi)
    raise Unsupported(f"map key {k!r}: only integer (or abstracted string) keys")


def has(it, m, k):
    st = state(it)
    return z3.Select(z3.Select(st.mdom, m.id), k)


def get(it, m, k):
    st = state(it)
    return z3.Select(z3.Select(st.mval, m.id), k)


def rank_ghost(m):
    """("map", "bool", "rank:G"): a visited table name -> deferred? whose entries only move
    absent -> True -> False; the ghost G is defined as the sum over the names n of the finite
    universe U (pyvc/namesets.py) of rank(n) = 2 if absent, 1 if True, 0 if False."""
    if len(m.spec) > 2 and isinstance(m.spec[2], str) and m.spec[2].startswith("rank:"):
        return m.spec[2][5:]
    return None


def havoc_heap(it):
    """all dict contents unknown (a loop body or a callee may have stored into any of them)."""
    st = state(it)
    st.mdom = z3.Array(it.namer.fresh("mdom"), sym.I, MDS)
    st.mval = z3.Array(it.namer.fresh("mval"), sym.I, MS)
    nxt = z3.Int(it.namer.fresh("mnext"))
    it.assume(nxt >= st.mnext)
    st.mnext = nxt


def put(it, m, k, v):
    st = state(it)
    g = rank_ghost(m)
    if g is not None and not it.st.spec:
        from . import namesets
        from .sym import VInt
        it.world.trusted_used.add(namesets.A_NS_RANK)
        cur = it.ghost_get(g).t
        r0 = z3.If(z3.Not(has(it, m, k)), 2, z3.If(get(it, m, k) != 0, 1, 0))
        r1 = z3.If(enc(it, m.spec[1], v) != 0, 1, 0)
        in_u = namesets.IN_U(k)
        it.assume(z3.Implies(in_u, cur >= r0))
        it.st.ghost[g] = VInt(cur - z3.If(in_u, r0 - r1, 0))
    st.mval = z3.Store(st.mval, m.id, z3.Store(z3.Select(st.mval, m.id), k, enc(it, m.spec[1], v)))
    st.mdom = z3.Store(st.mdom, m.id, z3.Store(z3.Select(st.mdom, m.id), k, z3.BoolVal(True)))


def delete(it, m, k):
    if rank_ghost(m) is not None:
        raise Unsupported("del on a measured visited table")
    st = state(it)
    st.mdom = z3.Store(st.mdom, m.id, z3.Store(z3.Select(st.mdom, m.id), k, z3.BoolVal(False)))


def new_map(it, spec, items):
    st = state(it)
    ident = st.mnext
    st.mnext = st.mnext + 1
    m = VMap(ident, spec)
    st.mdom = z3.Store(st.mdom, ident, z3.K(sym.I, z3.BoolVal(False)))
    for k, v in items:
        put(it, m, k, v)
    return m


def install(w):
    prev_fresh = getattr(w, "fresh_ext", None)

    def fresh_ext(it, spec, label):
        if isinstance(spec, tuple) and spec and spec[0] == "map":
            st = state(it)
            ident = z3.Int(it.namer.fresh(label))
            it.assume(z3.And(0 <= ident, ident < st.mnext))
            m = VMap(ident, spec)
            if rank_ghost(m) is not None:
                it.assume(it.ghost_get(rank_ghost(m)).t >= 0)
                it.st.ghost.setdefault(("rankmaps",), set()).add(rank_ghost(m))
            return m
        return prev_fresh(it, spec, label) if prev_fresh else None
    w.fresh_ext = fresh_ext

    prev_getattr = w.getattr_ext

    def getattr_ext(it, v, attr, node):
        if isinstance(v, VMap):
            return VFunc(None, recv=v, builtin=f"map.{attr}", name=attr)
        return prev_getattr(it, v, attr, node)
    w.getattr_ext = getattr_ext

    def m_get(it, f, args, kw, node):
        m = f.recv
        k = key_of(it, args[0])
        default = args[1] if len(args) > 1 else atom(None)
        w.trusted_used.add("dict.get/setdefault/[]/in on a symbolic dict: the map heap of pyvc/maps.py")
        if it.st.spec:
            raise Unsupported("dict.get inside a specification (use mhas/mget)")
        if it.decide(has(it, m, k)):
            return dec(it, m.spec[1], get(it, m, k))
        return default
    w.builtins["map.get"] = m_get

    def m_setdefault(it, f, args, kw, node):
        m = f.recv
        k = key_of(it, args[0])
        if it.decide(has(it, m, k)):
            return dec(it, m.spec[1], get(it, m, k))
        dv = args[1] if len(args) > 1 else atom(None)
        from .sym import VDict
        if isinstance(dv, VDict) and not it.st.dicts[dv.oid] and isinstance(m.spec[1], tuple):
            dv = new_map(it, m.spec[1], [])
        put(it, m, k, dv)
        return dv
    w.builtins["map.setdefault"] = m_setdefault

    def m_clear(it, f, args, kw, node):
        m = f.recv
        if rank_ghost(m) is not None:
            raise Unsupported("clear() of a measured visited table")
        st = state(it)
        st.mdom = z3.Store(st.mdom, m.id, z3.K(sym.I, z3.BoolVal(False)))
        return atom(None)
    w.builtins["map.clear"] = m_clear

    prev_index = w.index_ext

    def index_ext(it, v, idx, node):
        if isinstance(v, VMap):
            k = key_of(it, idx)
            it.guard(has(it, v, k), KeyError, node, "SAFE-Key")
            return dec(it, v.spec[1], get(it, v, k))
        return prev_index(it, v, idx, node)
    w.index_ext = index_ext

    prev_setitem = w.setitem_ext

    def setitem_ext(it, obj, key, val, node):
        if isinstance(obj, VMap):
            from .sym import VDict
            if isinstance(val, VDict) and isinstance(obj.spec[1], tuple):
                raise Unsupported("storing a literal-key dict into a symbolic dict")
            put(it, obj, key_of(it, key), val)
            return True
        return prev_setitem(it, obj, key, val, node)
    w.setitem_ext = setitem_ext

    prev_contains = w.contains_ext

    def contains_ext(it, container, item, node):
        if isinstance(container, VMap):
            return has(it, container, key_of(it, item))
        return prev_contains(it, container, item, node)
    w.contains_ext = contains_ext

    prev_ident = getattr(w, "identical_ext", None)

    def identical_ext(it, a, b, node):
        if isinstance(a, VMap) and isinstance(b, VMap):
            return a.id == b.id
        if isinstance(a, VMap) or isinstance(b, VMap):
            return z3.BoolVal(False)
        return prev_ident(it, a, b, node) if prev_ident else None
    w.identical_ext = identical_ext

    prev_truth = getattr(w, "truth_ext", None)

    def truth_ext(it, v):
        if isinstance(v, VMap):
            return z3.Bool(it.namer.fresh("nonempty"))
        return prev_truth(it, v) if prev_truth else None
    w.truth_ext = truth_ext

    # dict literal {k: v} with a symbolic key: needs the declared spec of the target
    def dict_literal(it, pairs, hint):
        if hint is None:
            raise Unsupported("dict literal with symbolic keys (no map spec in reach)")
        return new_map(it, hint, [(key_of(it, k), v) for k, v in pairs])
    w.dict_literal = dict_literal

    # ---- contract language ----------------------------------------------------------------------
    def f_mhas(it, m, k):
        return VBool(has(it, m, key_of(it, k)))

    def f_mget(it, m, k):
        return dec(it, m.spec[1], get(it, m, key_of(it, k)))

    def f_fresh_before(it, m):
        st = state(it)
        return VBool(z3.And(0 <= m.id, m.id < st.mnext))
    w.spec_funcs.update({"mhas": f_mhas, "mget": f_mget, "allocated": f_fresh_before,
                         "mkey": lambda it, k: VInt(key_of(it, k))})
